#!/usr/bin/env python3
"""Re-evaluate every kept seeded change (/verif/seeded/<id>/patch.diff) against the CURRENT checks.

For each seed: scratch copy of /repo's sources (outside /repo and /verif), apply the patch, run all 21 property
checks with --repo, record in meta.json which checks exit 1 (detected_by), which end in ANALYSIS-ERROR (exit 2,
`analysis_error_in`) and the first violation lines.  Prints a table.  Removes the scratch copies.
"""
import concurrent.futures
import json
import os
import shutil
import subprocess
import sys
import tempfile

VERIF = os.path.dirname(os.path.dirname(os.path.abspath(__file__)))
PROPS = [f"C{n:02d}" for n in range(1, 23) if n != 21]


def one(seed):
    d = os.path.join(VERIF, "seeded", seed)
    meta_p = os.path.join(d, "meta.json")
    meta = json.load(open(meta_p))
    tmp = tempfile.mkdtemp(prefix="sa_seed_")
    try:
        shutil.copytree("/repo/src", os.path.join(tmp, "src"), ignore=shutil.ignore_patterns("__pycache__"))
        os.makedirs(os.path.join(tmp, "sphinx"))
        shutil.copy("/repo/sphinx/islaspec.rst", os.path.join(tmp, "sphinx"))
        r = subprocess.run(["patch", "-p1", "-s", "-d", tmp, "-i", os.path.join(d, "patch.diff")], capture_output=True, text=True)
        applies = r.returncode == 0
        fired, errs = {}, {}
        if applies:
            for p in PROPS:
                env = dict(os.environ, SA_EVIDENCE_DIR=os.path.join(tmp, "_ev"))
                c = subprocess.run([os.path.join(VERIF, "check"), p, "--repo", tmp], capture_output=True, text=True, env=env, timeout=600)
                if c.returncode == 1:
                    fired[p] = [l.strip()[:260] for l in c.stdout.splitlines() if l.startswith("  ")][:3]
                elif c.returncode != 0:
                    errs[p] = [l[:260] for l in c.stdout.splitlines() if l.startswith("ANALYSIS-ERROR")][:2]
        meta["applies_to_current_repo"] = applies
        meta["detected_by"] = sorted(fired) or None
        meta["checks_fired"] = fired
        meta["analysis_error_in"] = errs
        json.dump(meta, open(meta_p, "w"), indent=1)
        return seed, applies, fired, errs
    finally:
        shutil.rmtree(tmp, ignore_errors=True)


def main():
    seeds = sorted(s for s in os.listdir(os.path.join(VERIF, "seeded")) if os.path.isfile(os.path.join(VERIF, "seeded", s, "patch.diff")))
    if len(sys.argv) > 1:
        seeds = [s for s in seeds if any(a in s for a in sys.argv[1:])]
    with concurrent.futures.ThreadPoolExecutor(max_workers=6) as ex:
        for seed, applies, fired, errs in ex.map(one, seeds):
            status = "DETECTED" if fired else ("ANALYSIS-ERROR" if errs else "missed")
            if not applies:
                status = "PATCH-DOES-NOT-APPLY"
            first = next(iter(fired.values()), next(iter(errs.values()), [""]))
            print(f"{seed:8s} {status:16s} {','.join(fired) or ','.join(errs):12s} {(first[0] if first else '')[:170]}")


if __name__ == "__main__":
    main()
