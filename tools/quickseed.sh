#!/bin/bash
# usage: quickseed.sh PROP IDX  -> runs all checks against repo+patch
p=$1; i=$2
d=$(mktemp -d /tmp/sa_q_XXXX); cp -r /repo/src $d/src; mkdir -p $d/sphinx; cp /repo/sphinx/islaspec.rst $d/sphinx/
(cd $d && patch -p1 -s < ${SEED_ROOT:-/tmp/seed}/$p/seed_out/$i/patch.diff) || echo "PATCH FAILED $p-$i"
for c in C01 C02 C03 C04 C05 C06 C07 C08 C09 C10 C11 C12 C13 C14 C15 C16 C17 C18 C19 C20 C22; do
  out=$(SA_EVIDENCE_DIR=$d/_ev /verif/check $c --repo $d 2>&1); rc=$?
  if [ $rc -ne 0 ]; then echo "$p-$i $c rc=$rc: $(echo "$out" | grep -m1 '^  \|^ANALYSIS' | cut -c1-230)"; fi
done
rm -rf $d
