#!/usr/bin/env python3
# NOTE: run with /venv/bin/python (the interpreter the checks use): ast.unparse output differs between Python versions
"""Regenerate /verif/sa/reference.json (reference versions of the functions of /repo/src/isla/*.py for alpha-normalisation, see sa/alpha.py)."""
import ast
import glob
import json
import os
import sys

VERIF = os.path.dirname(os.path.dirname(os.path.abspath(__file__)))
sys.path.insert(0, VERIF)
from sa import alpha  # noqa: E402

REPO = sys.argv[1] if len(sys.argv) > 1 else "/repo"
out = {}
n = 0
for path in sorted(glob.glob(os.path.join(REPO, "src", "isla", "*.py"))):
    rel = os.path.relpath(path, REPO)
    tree = ast.parse(open(path).read())
    entry = {}
    seen = {}
    for q, fn, _ in alpha.functions_of(tree):
        seen[q] = seen.get(q, 0) + 1
        key = q if seen[q] == 1 else f"{q}#{seen[q]}"
        raw = ast.unparse(fn)
        entry[key] = {"raw": alpha.digest(raw), "canon": alpha.digest(alpha.canonical(fn)), "source": raw}
        n += 1
    out[rel] = entry
json.dump(out, open(alpha.REFERENCE_FILE, "w"), indent=0)
print(f"{n} functions of {len(out)} modules recorded in {alpha.REFERENCE_FILE}")
