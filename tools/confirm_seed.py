#!/usr/bin/env python3
"""Confirm a seeded breaking change produced by a sub-agent and record what our checks say about it.

usage: confirm_seed.py <PROP> <index> [--no-tests]
Looks in $SEED_ROOT (default /tmp/seed)/<PROP>/seed_out/<index>/ for patch.diff, demo.py, meta.json.
Creates a scratch worktree of /repo HEAD under /tmp/confirm, verifies:
  clean tree: demo exits 0;  patched: demo exits non-zero;  patched: the 354 pinned baseline tests still pass;
then runs every property check against the patched worktree (via --repo) and records which rules fire.
The scratch worktree is removed afterwards.  On success the seed is copied to /verif/seeded/<PROP>-<index>/.
"""
import json
import os
import shutil
import subprocess
import sys
import xml.etree.ElementTree as ET

PROPS = [f"C{n:02d}" for n in range(1, 23) if n != 21]
VERIF = "/verif"


def sh(cmd, cwd=None, env=None, timeout=3600):
    p = subprocess.run(cmd, shell=True, cwd=cwd, env=env, capture_output=True, text=True, timeout=timeout)
    return p.returncode, p.stdout + p.stderr


def main():
    prop, idx = sys.argv[1], sys.argv[2]
    run_tests = "--no-tests" not in sys.argv
    src = f"{os.environ.get('SEED_ROOT', '/tmp/seed')}/{prop}/seed_out/{idx}"
    wt = f"/tmp/confirm/{prop}_{idx}"
    os.makedirs("/tmp/confirm", exist_ok=True)
    res = {"seed": f"{prop}-{idx}", "property": prop}
    sh(f"git -C /repo worktree remove --force {wt}")
    rc, out = sh(f"git -C /repo worktree add -q {wt} HEAD")
    if rc:
        print(out)
        return 2
    try:
        env = dict(os.environ, PYTHONPATH=f"{wt}/src")
        shutil.copy(f"{src}/demo.py", f"{wt}/_demo.py")
        rc0, out0 = sh("/venv/bin/python _demo.py", cwd=wt, env=env, timeout=900)
        res["demo_clean_rc"] = rc0
        rca, outa = sh(f"git apply {src}/patch.diff", cwd=wt)
        res["applies"] = rca == 0
        if rca:
            res["apply_error"] = outa[-400:]
            print(json.dumps(res))
            return 1
        rc1, out1 = sh("/venv/bin/python _demo.py", cwd=wt, env=env, timeout=900)
        res["demo_patched_rc"] = rc1
        res["demo_patched_tail"] = out1[-300:]
        # checks
        fired = {}
        for p in PROPS:
            e2 = dict(os.environ, SA_EVIDENCE_DIR=f"{wt}/_ev")
            rc, out = sh(f"{VERIF}/check {p} --repo {wt}", env=e2, timeout=600)
            lines = [l.strip() for l in out.splitlines() if l.startswith("  ")]
            errs = [l for l in out.splitlines() if l.startswith("ANALYSIS-ERROR")]
            if rc != 0:
                fired[p] = {"rc": rc, "violations": [l[:300] for l in lines[:6]], "analysis_errors": [e[:300] for e in errs[:4]]}
        res["checks_fired"] = fired
        if run_tests:
            rc, out = sh(
                f"/venv/bin/python -m pytest -ra -q -p no:cacheprovider --timeout=900 --continue-on-collection-errors -n {os.environ.get('PYTEST_N', '8')} --junitxml={wt}/_junit.xml",
                cwd=wt, env=env, timeout=3000)
            base = json.load(open("/root/.vp/BASELINE.json"))
            want = set(base["stable_pass"])
            got = {}
            try:
                for tc in ET.parse(f"{wt}/_junit.xml").iter("testcase"):
                    name = f"{tc.get('classname')}::{tc.get('name')}"
                    got[name] = not any(ch.tag in ("failure", "error", "skipped") for ch in tc)
            except Exception as exc:
                res["junit_error"] = str(exc)
            res["regressions"] = sorted(w for w in want if not got.get(w))
            # tests that fail under the parallel run are re-run alone (some solver tests are timing sensitive under load)
            still = []
            for w in res["regressions"]:
                cls, name = w.split("::")
                parts = cls.split(".")
                node = "/".join(parts[:-1]) + ".py::" + parts[-1] + "::" + name
                rc2, out2 = sh(f"/venv/bin/python -m pytest -q -p no:cacheprovider --timeout=900 '{node}'", cwd=wt, env=env, timeout=1800)
                if rc2 != 0:
                    still.append(w)
            if still != res["regressions"]:
                res["flaky_rerun_alone_passed"] = sorted(set(res["regressions"]) - set(still))
            res["regressions"] = still
        ok = res["demo_clean_rc"] == 0 and res["demo_patched_rc"] != 0 and (not run_tests or not res.get("regressions"))
        res["confirmed"] = ok
        print(json.dumps(res, indent=1))
        with open("/tmp/confirm/results.jsonl", "a") as fh:
            fh.write(json.dumps(res) + "\n")
        if ok:
            dst = f"{VERIF}/seeded/{prop}-{idx}"
            os.makedirs(dst, exist_ok=True)
            shutil.copy(f"{src}/patch.diff", dst)
            shutil.copy(f"{src}/demo.py", dst)
            meta = json.load(open(f"{src}/meta.json"))
            meta["confirmed_by"] = (
                "tools/confirm_seed.py: scratch worktree of /repo HEAD; demo exit 0 on clean tree, non-zero with patch; "
                + ("all 354 pinned baseline tests pass with the patch (pytest -n 8, junit compared with BASELINE.json stable_pass)" if run_tests else "tests not re-run")
            )
            meta["checks_fired"] = {k: v["violations"][:2] + v["analysis_errors"][:1] for k, v in fired.items()}
            meta["detected_by"] = sorted(k for k, v in fired.items() if v["rc"] == 1) or None
            json.dump(meta, open(f"{dst}/meta.json", "w"), indent=1)
        return 0 if ok else 1
    finally:
        sh(f"git -C /repo worktree remove --force {wt}")


if __name__ == "__main__":
    sys.exit(main())
