#!/usr/bin/env python3
"""Regenerates MANIFEST.json from the per-property table below (keeps it valid at all times)."""
import json
import os

HERE = os.path.dirname(os.path.dirname(os.path.abspath(__file__)))

TECH = "custom AST static analysis: "

CLAIMS = {
    "C01": dict(
        text="Gate-only: decides that nothing reaches the caller of solve() without passing the 'closed tree and constraint fully eliminated' filter (writers of "
        "self.solutions, provenance of solve's return value, state_is_valid_or_enqueue / SolutionState.complete), that every queued state went through "
        "establish_invariant (DNF), that the elimination chain is well-typed and ordered, that free instantiation happens only when the remaining constraint is "
        "true, that no elimination step forgets pending conjuncts (whole-constraint provenance of every constructed SolutionState) and that tree/constraint are "
        "substituted coherently, that variables leave the SMT language-constraint class only while every substitution tree is an open leaf, and that hand-written memos in solver.py are keyed by everything the cached computation reads. Does NOT decide that the individual elimination steps preserve meaning nor grammar-validity of closed trees.",
        note="Trusted: DerivationTree.is_open/is_complete, Formula.__eq__, asserts enabled, each rewrite's semantic correctness.",
        technique=TECH + "who-may-write + return provenance, gate dominance, whole-vs-element def-use provenance of constructed states",
        design="5/C01",
    ),
    "C10": dict(
        text="Weakest level (gate only): rejection is total (every yield/return of parse dominated by 'whole text consumed' and 'finished start item'), the "
        "start symbol handed to chart_parse has a single alternative (auxiliary start symbol for grammars with several start alternatives), coalescing merges "
        "only adjacent terminals, the nullable set is the recognised least fixed point, and ISLaSolver.parse's plumbing (the parser runs exactly once, on the argument string itself). Does NOT decide correctness of the Earley chart. The three Earley operations, the chart driver and the item operations have their textbook shape (recognised wrong shapes are violations, anything else an analysis error). Also: every module splits expansions with the one pattern helpers.RE_NONTERMINAL, single_char_tokens takes terminal characters verbatim, and no grammar conversion of parser.py returns run-time module state (a 'last grammar' cache); accepted start items begin at position 0.",
        note="Trusted: chart construction and forest extraction.",
        technique=TECH + "gate dominance via path facts, arity invariant of star-unpacked alternatives",
        design="5/C10",
    ),
    "C11": dict(
        text="Decides the escape layer of the BNF round trip: writer table and reader algorithm constant-folded from source and shown mutually inverse on all 256 "
        "single characters and on all ordered pairs over a hazard alphabet (cross-boundary matches of sequential replace), lexer-significant characters escaped "
        "as ESC sequences, freshness of the backslash placeholder, layout of rules/alternatives/empty alternative, and the '<' placeholder discipline. Does NOT "
        "decide language equality per nonterminal. Also: memoised functions that return mutable containers are not modified in place by their callers, is_nonterminal uses the tokenisation pattern, parse_bnf lexes the text as given. The '<' helper rule is defined whenever some alternative mentions it (not only when reachable from <start>).",
        note="Trusted: str.replace semantics, dict order, ANTLR STRING token rule.",
        technique=TECH + "constant folding of escape tables + abstract re-statement of the unescape algorithm over the folded tables",
        design="5/C11",
    ),
    "C12": dict(
        text="Weakest level (gate only): expand_tree returns only closed trees, expansion happens only at open leaves with the node's own alternatives and siblings "
        "kept, swap only between equally labelled disjoint subtrees, replacement/generalisation re-open with the same label and close with the fuzzer; memo tables of mutator/fuzzer are keyed by all state they depend on (no class-level dict shared between instances for different grammars). The helpers the mutator builds trees with are covered by the same memo-key and symbol-classification rules (path_to_tree, canonical, is_nonterminal).",
        note="Trusted: asserts enabled; replace_path (C16).",
        technique=TECH + "gate dominance and shape recognition",
        design="5/C12",
    ),
    "C13": dict(
        text="Weakest level (gate only): every tree appended to insert_tree's result is dominated by the validity, all-original-nodes-retained and "
        "inserted-tree-contained checks; all three insertion methods feed only through that gate under their own method bits; the context-addition filter quantifies over every host node; the wrapper tree follows a non-trivial derivation path and continues it through exactly one child chosen by position. Also: dict memos of the insertion helpers are keyed by the grammar, the climb to higher insertion points stops at any node with more than one child, and connect_trees places the inserted tree by identity on every path and hands the replaced node's id to the connecting tree.",
        note="Trusted: asserts enabled; grammar_graph.tree_is_valid.",
        technique=TECH + "who-may-write the result list + gate dominance",
        design="5/C13",
    ),
    "C14": dict(
        text="Weakest level (gate only): create_fixed_length_tree returns only closed trees under curr_len == target_length with the recognised length bookkeeping; "
        "count proposes replacements only with the exact needle count and no needle-reaching open leaf; numeric model values are returned only as parse "
        "results for the variable's nonterminal, and the parsed text denotes the model value in both sign cases (abstract interpretation: [+]?0*digits / -0*digits).",
        note="Trusted: numeric bookkeeping for every grammar is not decided.",
        technique=TECH + "gate dominance via path facts (incl. for-else), shape recognition of the bookkeeping expression",
        design="5/C14",
    ),
    "C18": dict(
        text="Decides the plumbing between check/parse/repair/mutate: exact exception handling in check(str), the SemanticError condition of parse, provenance of "
        "everything repair/mutate return, parse applied once to the argument string itself (checked input or a solve() of a copy of this solver with the same formula/grammar).",
        note="Trusted: evaluate (C03) and solve (C01).",
        technique=TECH + "handler/gate recognition and return provenance",
        design="5/C18",
    ),
    "C22": dict(
        text="Decides that within the solver's import closure every random choice comes from the user-seeded module-level generator, Z3 seeds derive from it, "
        "wall-clock values only feed the timeout bookkeeping, no builtin id()/address ordering is used, and hashed classes define value-based __hash__. Does NOT "
        "decide Z3's internal nondeterminism under timeouts. Dataclass-generated hashes over function-typed fields and class objects among hashed components are violations when the class is hashed as a component of a formula/state hash.",
        note="Trusted: fixed PYTHONHASHSEED as the property states; Z3 deterministic for equal seeds up to timeouts.",
        technique=TECH + "nondeterminism-source classification over the import closure, seed provenance",
        design="5/C22",
    ),
    "C03": dict(
        text="Decides structural necessary conditions of evaluate(): arity + exhaustiveness of the legacy dispatch modulo the routing guard (and that no caller "
        "bypasses the guard), coverage of the second strategy, the aggregator table (and/forall -> all, or/exists -> any, not -> not_, vacuous values), "
        "completeness of quantifier domains (path-index totality for any branching degree by interval analysis; unfiltered enumeration of sub-trie items / "
        "matches), and unnegated plumbing of atom verdicts and of ISLaSolver.check. Does NOT decide that each verdict equals the specification's for every "
        "formula and tree, nor exceptions for particular inputs. Also: verdicts derived from a Z3 query come from validity (not from satisfiability), substitution never drops a tree quantifier (vacuous truth over empty domains), a re-declared variable keeps its declared type or is rejected, and every unmatched element of a match expression gets its own placeholder key.",
        note="Trusted: ThreeValuedTruth connectives (shape-checked in C06), predicates (C04), SMT atoms (C05).",
        technique=TECH + "dispatch exhaustiveness with caller-side guard facts, aggregator-table recognition, interval analysis of the trie key codec",
        design="5/C03",
    ),
    "C06": dict(
        text="Gate-only: decides that every definite verdict on a possibly open tree is dominated by the corresponding openness test (SMT atoms incl. the Z3 "
        "fallback; forall/exists vs. potential matches over all open leaves; falsy answers of the might-match oracle only when the nonterminal is unreachable "
        "from the leaf; semantic predicates; quantifier dropping in the second strategy), and that the three-valued connectives have Kleene's shape. "
        "Reduces the property to correctness of grammar reachability and of the match-expression prefix oracle, which are NOT decided. Semantic-predicate bindings count as TRUE only when every bound key is a Constant (a tree binding is a proposed update). Also: the placeholder mapping of approximate_isla_to_smt_formula is one accumulator shared by the whole recursion (replaced only when None), and on the SMT-approximation path of evaluate() FALSE requires the negation of the abstracted formula to be valid (not merely a failed validity proof).",
        note="Trusted: graph.reachable; can_extend_leaf_to_make_quantifier_match_parent; closures run after their definition site.",
        technique=TECH + "gate dominance via path facts (incl. after-exit facts and a small propositional closure), shape recognition of Kleene connectives",
        design="5/C06",
    ),
    "C07": dict(
        text="Decides the structural preconditions of the parse/unparse round trip: unparser dispatch total over the computed set of concrete Formula "
        "classes, emitted keywords/operator spellings are lexer literals, SMT string-literal escape writer/reader pair, match-expression escape pair "
        "(violated today: known finding), freshness obligations of generated names (avoid the constant's name and earlier names), every ctx attribute a "
        "listener reads exists in the generated context classes, every labelled grammar alternative stores into its result map, every __eq__ field is "
        "printed. Does NOT decide equality/idempotence of the round trip in general. Also: Z3 declaration names that the reader does not accept (ITE is named 'if') are re-spelled, no Python escape codec in writers, predicate arguments are quoted exactly when they are strings (decided over the four argument kinds), De Bruijn stack of nested SMT quantifiers, Z3's own \\u{..} escapes are not decoded on output, declared variable types are respected.",
        note="Trusted: generated parser in sync with the .g4 (literal names cross-checked); antlr4 runtime member names.",
        technique=TECH + "dispatch exhaustiveness over the class hierarchy, writer/reader vocabulary and escape agreement, listener-vs-generated-context API resolution, freshness obligations",
        design="5/C07",
    ),
    "C08": dict(
        text="Decides the sugar-to-core translation where it is visible in code shape: truth tables of implies/iff/xor as built by the emitter against the "
        "specification's, default `in` and free-nonterminal closure over the declared constant, S-expression templates of infix/prefix operators in source "
        "order, universal (never existential) closure, 1-based->0-based XPath index agreement between the two sites. Does NOT decide that XPath elimination "
        "and quantifier push-in preserve meaning on every tree. Also: names bound inside a match expression count as used whether or not the quantifier is named, XPath match-expression prefixes are merged only after their symbols along the shared path were compared, a variable re-declared with another type is rejected.",
        note="Trusted: -, &, | on formulas denote not/and/or (C09 decides their duality tables).",
        technique=TECH + "truth-table normalisation of extracted propositional terms, template slot order, provenance of the in-variable",
        design="5/C08",
    ),
    "C09": dict(
        text="Decides the duality table of Formula.__neg__ and of the NNF handlers (incl. carried-over bound variable / in-variable / match expression), arity and "
        "exhaustiveness of the convert_to_nnf dispatch, arity-genericity of every rewrite over n-ary combinators, completeness of quantifier reconstruction in "
        "all rewrite functions, validity of every simplifying early return of __and__/__or__ by a 4-row truth table, and preservation of the connective in "
        "replace/rename/DNF. Does NOT decide capture-avoidance of renaming nor DNF distribution beyond shape. Also: renaming/substitution maps are applied simultaneously (no entry-by-entry fold), the duality table of z3_push_in_negations computed per (connective, negate) case by a path-sensitive interpreter, substitution never drops a quantifier, variables removed by Z3 simplification are filtered before an SMTFormula is rebuilt.",
        note="Trusted: Formula.__eq__; SMTFormula.is_true/is_false; z3_push_in_negations.",
        technique=TECH + "duality-table extraction from isinstance chains, truth-table check of guarded identities, arity-genericity lint with class narrowing facts",
        design="5/C09",
    ),
    "C16": dict(
        text="Decides immutability/ownership of DerivationTree state (identity fields written only by the constructor, memo fields only by their guarded memo "
        "accessors, no external writer), totality of the path index for any branching degree (interval reasoning of the key encoder against the folded trie "
        "alphabet, prefix-freeness, encoder/decoder constant agreement, relative-path cut), that path lookup / node search / filter / leaves / trie are all "
        "views of the pre-order paths(), the exact shape of replace_path (only the addressed child changes; ancestors keep label and id; sound is_open flags), "
        "and id-freeness of the structural hash. Does NOT decide cached-openness arithmetic along arbitrary operation sequences. Also: the key decoder resets its continuation offset per component, pairwise child comparison only after a length comparison, memoised functions never hand out freshly built tree nodes (shared ids).",
        note="Trusted: datrie's documented alphabet behaviour; child indices are non-negative; Python name mangling.",
        technique=TECH + "who-may-write ownership analysis over mangled private fields, constant folding + interval analysis of the trie key codec, normalised-shape recognition",
        design="5/C16",
    ),
    "C17": dict(
        text="Decides that serialisers have no write effect on the live object (incl. through aliases of self.__dict__), that stripped cache fields are stripped "
        "on every node and re-created by the reader, that the quote escape of smt_expr_to_str is undone by every reader before z3.parse_smt2_string and no "
        "reader replace() is a no-op, that __setstate__ only reads keys __init__ provides, that the CLI JSON writer/reader are inverse incl. None-vs-[] "
        "children, and that every text handed to z3.parse_smt2_string has its non-ASCII characters escaped and every as_string() result is unescaped (sanitiser flow). "
        "Known finding: the escape character itself is not escaped. Does NOT decide equality of the round trip for every string. Also: De Bruijn stack order in smt_expr_to_str, Z3's \\u{..} escapes are kept on output, every per-instance field of DerivationTree is classified (identity / memo).",
        note="Trusted: SMT-LIB 2.6 string-literal syntax in z3.parse_smt2_string; json module.",
        technique=TECH + "effect/alias analysis (serializer purity), writer/reader escape-pair agreement by constant folding, field coverage",
        design="5/C17",
    ),
    "C19": dict(
        text="Decides the CLI's own plumbing: exit-code constants and every exit site, DATA_FORMAT_ERROR handlers around all grammar/constraint parsing with an "
        "error message, USAGE_ERROR for missing grammar/constraint/input, conjunction of all constraints, exit code 0 of check/parse only after "
        "solver.check(tree) held on the tree obtained from the input, and totality of input-text handling (no unguarded indexing; functions applied to "
        "input-derived data run inside safe()), JSON tree recognised before text parsing and only under tree_is_valid, at most one trailing newline removed from the input file, every file read guarded against UnicodeDecodeError, grammars with undefined nonterminals rejected with 65, and a generic handler around solver.check. Does NOT decide that solve output is accepted by check (C01/C03).",
        note="Trusted: argparse exits with 2 on option errors; SystemExit is not an Exception; returns.safe/.map/.lash semantics.",
        technique=TECH + "exit-site classification, try/handler dominance, path facts for gates, may-raise summary of pipeline stages",
        design="5/C19",
    ),
    "C02": dict(
        text="Decides structural necessary conditions of 'solve() only returns solutions or raises StopIteration/TimeoutError and then stays so': "
        "arity of every dispatch table reachable from solve() in the call graph, the lexical exits of solve() and the provenance of what it returns, "
        "stickiness as typestate (timeout test before any state change of an iteration, start_time armed once, nothing re-fills the queue after the "
        "loop, the re-entrant probe restores state in finally and handles both documented exits). Does NOT decide exceptions raised deeper in the "
        "elimination chain for particular formulas (asserts, NotImplementedError, RuntimeError) - those are inventoried only.",
        note="Trusted: name-based call graph (over-approximate reachability); asserts are developer contracts; constraint in the supported fragment.",
        technique=TECH + "call-graph reachability + dispatch-table arity, exit/raise classification with path facts, typestate ordering on solver fields",
        design="5/C02",
    ),
    "C04": dict(
        text="Decides that the registry binds exactly the documented predicate names/arities (read from sphinx/islaspec.rst) to distinct implementations of "
        "matching arity, that same_position/different_position/inside/direct_child/before/after are the specified path relations on recognised shapes "
        "(after = converse of before for ALL pairs incl. ancestor/descendant), that predicates are pure, the nth domain, the path frames of consecutive (violated today: known finding), and level: anchor prefixes plus the five operator conditions compared as truth tables. Does NOT decide nth/consecutive beyond these shapes. before/after/same_position/different_position/inside are additionally decided over the five-case order domain of two paths (equal, ancestor either way, diverging left/right) whenever their definition is a boolean combination of comparisons, prefix tests and sibling calls; paths obtained from find_node are never tested by truthiness (the root path () is falsy).",
        note="Trusted: the table in the specification; paths as tuples of child indices.",
        technique=TECH + "spec-table vs registry agreement, normalised-AST recognition of path relations, purity (no writes to parameters)",
        design="5/C04",
    ),
    "C15": dict(
        text="Decides that 'not recognised' (Nothing) can never be turned into a positive match (no truthy thunk defaults in boolean positions), that the "
        "partial(handler, fallback) chain is acyclic, complete, correctly typed and ends in Nothing, and that compress_concatenation_elements only emits "
        "elements of the current group under the star/plus guards, interval merging keeps the larger upper bound, and the interval cache key is not a lossy rendering. Does NOT decide exactness of interval bounds. Known finding: Star/Plus of [0-9] is given (-inf, inf) instead of [0, inf) (fixed by a pinned doctest).",
        note="Trusted: returns.Maybe.value_or semantics; z3 regex operator kinds.",
        technique=TECH + "API-misuse lint tied to the property (value_or thunk), handler-chain wiring analysis, provenance of result elements",
        design="5/C15",
    ),
    "C20": dict(
        text="Decides the octal/decimal clause: a radix-tag (dimension) analysis over the octal_to_dec_* family proves octal strings are read in base 8, "
        "decimal strings in base 10, oct() only applied to decimal-side numbers, compared values are integers, replacement trees use the parser of the "
        "target radix; plus dispatch-table arity/coverage/argument order; crop/ljust/rjust: replacement text is the prefix/suffix slice of exactly the requested width (no s[-n:] with possibly-zero n), verdict True exactly at len == width / len <= width. Does NOT decide count (see C14). Also: just() answers False (not an assertion) for a text wider than the width without crop, and every parse of a cropped/padded/converted replacement text is under a SyntaxError handler that answers False.",
        note="Trusted: parameter names octal/decimal are the documented roles.",
        technique=TECH + "three-tag radix/dimension dataflow, dispatch-table arity",
        design="5/C20",
    ),
    "C05": dict(
        text="Decides structural necessary conditions of 'ISLa's fast path answers as Z3 does and never raises instead': dispatch-table arity "
        "(operators without a Python case reach Z3), every consumer falls back to Z3 with the right verdict mapping, no escaping "
        "IndexError/ZeroDivisionError/TypeError/negative-index wraparound in any constructor, regex-fragment grouping/escaping/anchoring, and "
        "guard-vs-body operator agreement against the SMT-LIB operator table. Does NOT decide numeric agreement with Z3 for every value. Also: parameters of Z3 declarations are indexed only under a length fact (optional upper bound of re.loop), loop bounds are ordered and rendered per parameter count, TRUE only from `not f` unsat, child closures receive their own parameters by name; taint is propagated through tuple unpacking and single indices need both bounds. Known finding: str.to.int gives signed numerals their value where Z3 yields -1.",
        note="Trusted: Z3 is the reference; SMT-LIB arities; Python's re semantics for grouped fragments; asserts are developer contracts.",
        technique=TECH + "dispatch-table arity/guard analysis, may-raise effects with path facts, regex-fragment category typing, operator table agreement",
        design="5/C05",
    ),
}

NOT_APPLICABLE = {
    "C21": "Outputs of solving four shipped specifications judged by external oracles (column counts, XML well-formedness, docutils, tar checksums): "
    "no clause is visible in the shape of ISLa's code; a static rule on the shipped grammars would not be a necessary condition. See DESIGN.md section 8.",
}

PENDING = "check not built yet in this commit (planned, see DESIGN.md section 5); not claimed until its rules run clean"


def main():
    props = [json.loads(l)["id"] for l in open(os.path.join(HERE, "properties.jsonl"))]
    checks = []
    for pid in props:
        if pid not in CLAIMS:
            continue
        c = CLAIMS[pid]
        checks.append(
            {
                "property_id": pid,
                "quick_cmd": f"./check {pid} --tier quick",
                "thorough_cmd": f"./check {pid} --tier thorough",
                "evidence_file": f"/verif/evidence/{pid}.json",
                "replay_cmd_template": f"./check {pid} --replay {{path}}",
                "engine": "sa",
                "level_claimed": {"category": "other", "text": c["text"], "design_ref": c["design"]},
                "level_note": c["note"],
                "technique": c["technique"],
            }
        )
    na = []
    for pid in props:
        if pid in CLAIMS:
            continue
        na.append({"property_id": pid, "reason": NOT_APPLICABLE.get(pid, PENDING)})
    manifest = {
        "version": 1,
        "setup_cmd": "true",
        "hooks": {
            "guard": "ISLA_VERIF",
            "enable": "none needed: the checks read /repo's working-tree sources with ast and never import or run them",
            "baseline_off_cmd": "cd /repo && /venv/bin/python -m pytest -ra -q -p no:cacheprovider --timeout=900 --continue-on-collection-errors",
            "source_commits": [],
            "add_only": True,
        },
        "engines": [
            {
                "name": "sa",
                "path": "/verif/sa",
                "serves_properties": [c["property_id"] for c in checks],
                "kind_free_text": "repository-specific static analysis over CPython ast: dispatch tables, path facts (dominance by guards), may-raise effects, "
                "ownership/writers, regex-fragment typing, escape-table constant folding, truth-table normalisation of extracted propositional terms",
            }
        ],
        "checks": checks,
        "not_applicable": na,
        "notes": "Exit 0 ok / 1 VIOLATION / 2 ANALYSIS-ERROR (vanished anchor or unrecognised shape; never reported as a violation). "
        "Known findings: /verif/known_findings.json. Seeded breaking changes: /verif/seeded/.",
    }
    with open(os.path.join(HERE, "MANIFEST.json"), "w") as fh:
        json.dump(manifest, fh, indent=1)
    print(f"{len(checks)} checks, {len(na)} not_applicable")


if __name__ == "__main__":
    main()
