#!/usr/bin/env python3
"""Regenerate the seeded-change table of DESIGN.md (between the SEED-TABLE markers) from /verif/seeded/*/meta.json.

`FIRST` records what the checks said the first time the seed was evaluated (before any strengthening): it is history and is
kept by hand; everything else is read from meta.json as last refreshed by tools/seed_status.py.
"""
import json
import os
import re

VERIF = os.path.dirname(os.path.dirname(os.path.abspath(__file__)))
MISSED_FIRST = """C01-1 C01-2 C02-2 C03-1 C04-3 C06-1 C06-2 C06-3 C07-2 C08-1 C08-2 C08-3 C09-1 C09-3 C10-1 C11-2 C11-3 C12-1 C13-1 C13-2 C13-3
C14-2 C15-3 C16-1 C16-3 C17-3 C19-1 C19-2 C20-2 C22-1 C22-3
C01-6 C02-5 C05-6 C07-4 C07-5 C09-6 C11-4 C11-5 C11-6 C16-4 C16-5 C16-6 C17-4 C17-6 C19-6
C08-4 C08-5 C10-4 C10-6 C12-5 C12-6 C13-5 C14-4 C14-5 C14-6 C15-5 C15-6 C18-4 C20-6
C16-7 C16-8 C14-9 C09-7 C07-7 C01-9 C08-8
C13-7 C13-8 C13-9 C10-7 C10-8 C10-9 C06-7 C02-8
C20-8 C20-9 C19-8 C19-9 C15-7 C15-8 C17-8 C17-9 C22-9""".split()
AE_FIRST = "C03-2 C04-1 C04-2 C05-1 C05-3 C09-2 C18-2 C01-5 C03-4 C04-4 C04-5 C04-6 C05-4 C05-5 C06-6 C09-5 C17-5 C10-5 C15-4 C18-5 C16-9 C11-9 C05-7 C05-8 C05-9 C07-8 C07-9 C01-7 C03-7 C04-7 C04-8 C04-9 C06-9 C02-7 C02-9".split()
AE_FIRST.append("C18-9")
MISSED_FIRST += ["C12-10", "C07-10", "C17-10"]  # round four
AE_FIRST += ["C02-10", "C16-10", "C09-10"]


def rule_of(line: str) -> str:
    m = re.search(r"\b(C\d\d\.[A-Za-z0-9\-]+)", line)
    if m:
        return m.group(1)
    m = re.search(r"rule=([A-Za-z0-9\.\-]+)", line)
    return m.group(1) if m else "?"


def main():
    rows = []
    for s in sorted(os.listdir(os.path.join(VERIF, "seeded"))):
        mp = os.path.join(VERIF, "seeded", s, "meta.json")
        if not os.path.isfile(mp):
            continue
        m = json.load(open(mp))
        fired = m.get("checks_fired") or {}
        errs = m.get("analysis_error_in") or {}
        det = m.get("detected_by") or []
        if det:
            verdict = "VIOLATION"
            rules = sorted({rule_of(v[0]) for k, v in fired.items() if v})
        elif errs:
            verdict = "ANALYSIS-ERROR (exit 2)"
            rules = sorted({rule_of(v[0]) for k, v in errs.items() if v})
        else:
            verdict, rules = "missed", []
        first = "missed" if s in MISSED_FIRST else ("analysis-error" if s in AE_FIRST else "violation")
        summ = " ".join(m.get("summary", "").split())
        if len(summ) > 150:
            summ = summ[:147] + "..."
        rows.append(f"| {s} | {summ.replace('|', '/')} | {first} | {verdict} | {', '.join(rules)} |")
    def rnd(s_):
        k = int(s_.split("-")[1])
        return 3 if k >= 7 else (2 if k >= 4 else 1)

    stats = {}
    for s_ in sorted(os.listdir(os.path.join(VERIF, "seeded"))):
        if not os.path.isfile(os.path.join(VERIF, "seeded", s_, "meta.json")):
            continue
        first = "missed" if s_ in MISSED_FIRST else ("analysis-error" if s_ in AE_FIRST else "violation")
        stats.setdefault(rnd(s_), {}).setdefault(first, 0)
        stats[rnd(s_)][first] += 1
    summary = "; ".join(f"round {r}: " + ", ".join(f"{v} {k}" for k, v in sorted(d.items())) for r, d in sorted(stats.items()))
    table = f"First evaluation by round (kept seeds only): {summary}.\n\n" + "\n".join(["| seed | change | first evaluation | now | rule(s) that report it |", "|---|---|---|---|---|"] + rows)
    p = os.path.join(VERIF, "DESIGN.md")
    t = open(p).read()
    b, e = "<!-- SEED-TABLE-BEGIN -->", "<!-- SEED-TABLE-END -->"
    if b not in t:
        raise SystemExit("markers missing in DESIGN.md")
    t = t[: t.index(b) + len(b)] + "\n" + table + "\n" + t[t.index(e):]
    open(p, "w").write(t)
    print(f"{len(rows)} seeds written")


if __name__ == "__main__":
    main()
