#!/bin/bash
# usage: confirm_batch.sh TAG PROP...
tag=$1; shift
export SEED_ROOT=/tmp/seed3 PYTEST_N=7
cd /verif
for p in "$@"; do for i in 7 8 9; do
  python3 tools/confirm_seed.py $p $i > /tmp/confirm3_${p}_$i.json 2>&1
  echo "$p-$i $(grep -o '"confirmed": [a-z]*' /tmp/confirm3_${p}_$i.json)" >> /tmp/confirm3_$tag.log
done; done
echo DONE >> /tmp/confirm3_$tag.log
