#!/bin/bash
# usage: tools/fullsuite.sh TAG  -> runs the pinned suite on /repo (6 workers), writes /tmp/TAG.{xml,log,cmp}; development aid, not a registered check
tag=$1
cd /repo && /venv/bin/python -m pytest -ra -q -p no:cacheprovider --timeout=900 --continue-on-collection-errors -n 6 --junitxml=/tmp/$tag.xml > /tmp/$tag.log 2>&1
/venv/bin/python - <<PY > /tmp/$tag.cmp
import json, xml.etree.ElementTree as ET
b=json.load(open('/root/.vp/BASELINE.json')); want=set(b['stable_pass'])
got={}
for tc in ET.parse('/tmp/$tag.xml').iter('testcase'):
    got[f"{tc.get('classname')}::{tc.get('name')}"]=not any(ch.tag in ('failure','error','skipped') for ch in tc)
reg=sorted(w for w in want if not got.get(w))
print('stable_pass',len(want),'passing now',sum(1 for w in want if got.get(w)),'regressions',len(reg))
for r in reg: print('  ',r)
PY
