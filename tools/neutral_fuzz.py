#!/usr/bin/env python3
"""Behaviour-preserving mutation audit of the checks (development aid, not a registered check).

For every function of /repo that a rule module names (`repo.func(FILE, "qualname")`, `M(ctx, "name")`, `meths["name"]`), build scratch copies of the sources
with one behaviour-preserving edit of that function and run every check that consulted the file:
  rename-local : one local variable renamed consistently
  swap-eq      : operands of every == / != comparison swapped
  add-stmt     : a dead assignment inserted at the top of the body
  add-doc      : a docstring added (if there is none)
Expected: exit 0 (or, where a rule recognises exact shapes, exit 2 = ANALYSIS-ERROR).  Exit 1 is a FALSE ALARM of the checker and must be fixed.
Usage: neutral_fuzz.py [filter-substring] [--jobs N]
"""
import ast
import concurrent.futures
import glob
import json
import os
import re
import shutil
import subprocess
import sys
import tempfile

VERIF = os.path.dirname(os.path.dirname(os.path.abspath(__file__)))
STRUCTURAL = "--structural" in sys.argv
REPO = "/repo"


def named_functions():
    out = set()
    for f in glob.glob(os.path.join(VERIF, "sa", "rules", "c*.py")) + [os.path.join(VERIF, "sa", "memo.py")]:
        txt = open(f).read()
        consts = dict(re.findall(r'^([A-Z_0-9]+)\s*=\s*"(src/[^"]+)"', txt, re.M))
        for fvar, q in re.findall(r'repo\.func\(\s*([A-Za-z_0-9]+)\s*,\s*f?"([^"{]+)"', txt):
            if fvar in consts:
                out.add((consts[fvar], q))
        for q in re.findall(r'\bM\(ctx, "([^"]+)"\)', txt):
            out.add(("src/isla/solver.py", "ISLaSolver." + q))
        for q in re.findall(r'meths\["([^"]+)"\]', txt):
            out.add(("src/isla/solver.py", "ISLaSolver." + q))
    # every function whose (qualified or bare) name occurs in a string literal of a rule module
    ref = json.load(open(os.path.join(VERIF, "sa", "reference.json")))
    words = set()
    for f in glob.glob(os.path.join(VERIF, "sa", "rules", "c*.py")) + glob.glob(os.path.join(VERIF, "sa", "*.py")):
        for lit in re.findall(r'"([^"\n]{3,80})"', open(f).read()):
            words |= set(re.findall(r"[A-Za-z_][A-Za-z_0-9]*(?:\.[A-Za-z_][A-Za-z_0-9]*)*", lit))
    for rel, fns in ref.items():
        for q in fns:
            base = q.split("#")[0]
            if base in words or (base.split(".")[-1] in words and len(base.split(".")[-1]) > 6 and not base.split(".")[-1].startswith("__")):
                out.add((rel, base))
    return sorted(out)


def find(tree, qual):
    parts = qual.split(".")
    cur = tree
    for p in parts:
        nxt = None
        for n in ast.iter_child_nodes(cur) if not isinstance(cur, ast.Module) else cur.body:
            if isinstance(n, (ast.FunctionDef, ast.ClassDef, ast.AsyncFunctionDef)) and n.name == p:
                nxt = n
                break
        if nxt is None:
            # nested function inside a function body
            for n in ast.walk(cur):
                if isinstance(n, (ast.FunctionDef, ast.ClassDef)) and n.name == p and n is not cur:
                    nxt = n
                    break
        if nxt is None:
            return None
        cur = nxt
    return cur if isinstance(cur, (ast.FunctionDef, ast.AsyncFunctionDef)) else None


def locals_of(fn):
    params = {a.arg for a in fn.args.args + fn.args.kwonlyargs + fn.args.posonlyargs} | ({fn.args.vararg.arg} if fn.args.vararg else set()) | ({fn.args.kwarg.arg} if fn.args.kwarg else set())
    assigned = []
    nonlocal_ = set()
    for n in ast.walk(fn):
        if isinstance(n, (ast.Global, ast.Nonlocal)):
            nonlocal_ |= set(n.names)
    for n in ast.walk(fn):
        if isinstance(n, ast.Name) and isinstance(n.ctx, ast.Store) and n.id not in params and n.id not in nonlocal_ and n.id != "_":
            if n.id not in assigned:
                assigned.append(n.id)
    # names also used by nested defs as their own params/locals are skipped to stay behaviour preserving
    inner_params = set()
    for n in ast.walk(fn):
        if isinstance(n, (ast.FunctionDef, ast.Lambda)) and n is not fn:
            inner_params |= {a.arg for a in n.args.args + n.args.kwonlyargs}
    return [a for a in assigned if a not in inner_params]


class Rename(ast.NodeTransformer):
    def __init__(self, old, new):
        self.old, self.new = old, new

    def visit_Name(self, n):
        if n.id == self.old:
            n.id = self.new
        return n

    def visit_Nonlocal(self, n):
        n.names = [self.new if x == self.old else x for x in n.names]
        return n


class SwapEq(ast.NodeTransformer):
    def visit_Compare(self, n):
        self.generic_visit(n)
        if len(n.ops) == 1 and isinstance(n.ops[0], (ast.Eq, ast.NotEq)):
            n.left, n.comparators = n.comparators[0], [n.left]
        return n


def mutants(rel, qual):
    src = open(os.path.join(REPO, rel)).read()
    res = []
    tree = ast.parse(src)
    fn = find(tree, qual)
    if fn is None:
        return res
    ls = locals_of(fn)
    for name in ls[:2]:
        t = ast.parse(src)
        f2 = find(t, qual)
        Rename(name, name + "_rn").visit(f2)
        res.append((f"rename-local:{name}", ast.unparse(t)))
    t = ast.parse(src)
    f2 = find(t, qual)
    before = ast.dump(f2)
    SwapEq().visit(f2)
    if ast.dump(f2) != before:
        res.append(("swap-eq", ast.unparse(t)))
    t = ast.parse(src)
    f2 = find(t, qual)
    has_doc = bool(f2.body) and isinstance(f2.body[0], ast.Expr) and isinstance(getattr(f2.body[0], "value", None), ast.Constant) and isinstance(f2.body[0].value.value, str)
    idx = 1 if has_doc else 0
    f2.body.insert(idx, ast.parse("_audit_marker = None").body[0])
    res.append(("add-stmt", ast.unparse(t)))
    if STRUCTURAL:
        # extract the value of the last top-level `return <call/expr>` into a local
        t = ast.parse(src)
        f2 = find(t, qual)
        rets = [(i, st) for i, st in enumerate(f2.body) if isinstance(st, ast.Return) and st.value is not None and not isinstance(st.value, (ast.Name, ast.Constant))]
        if rets:
            i, st = rets[-1]
            f2.body[i:i + 1] = [ast.Assign(targets=[ast.Name(id="_extracted_result", ctx=ast.Store())], value=st.value, lineno=0), ast.Return(value=ast.Name(id="_extracted_result", ctx=ast.Load()))]
            ast.fix_missing_locations(t)
            res.append(("extract-return", ast.unparse(t)))
        # dead statement before the last statement
        t = ast.parse(src)
        f2 = find(t, qual)
        if len(f2.body) >= 2:
            f2.body.insert(len(f2.body) - 1, ast.parse("_audit_marker = None").body[0])
            res.append(("add-stmt-mid", ast.unparse(t)))
        # extract the first argument of the first call that is the value of a top-level assignment
        t = ast.parse(src)
        f2 = find(t, qual)
        for i, st in enumerate(f2.body):
            if isinstance(st, ast.Assign) and isinstance(st.value, ast.Call) and st.value.args and isinstance(st.value.args[0], (ast.Call, ast.Attribute, ast.BinOp, ast.Subscript)):
                tmp = ast.Assign(targets=[ast.Name(id="_extracted_arg", ctx=ast.Store())], value=st.value.args[0], lineno=0)
                st.value.args[0] = ast.Name(id="_extracted_arg", ctx=ast.Load())
                f2.body.insert(i, tmp)
                ast.fix_missing_locations(t)
                res.append(("extract-arg", ast.unparse(t)))
                break
        # swap two adjacent top-level assignments that do not share any name
        t = ast.parse(src)
        f2 = find(t, qual)
        for i in range(len(f2.body) - 1):
            a, b = f2.body[i], f2.body[i + 1]
            if isinstance(a, ast.Assign) and isinstance(b, ast.Assign):
                na = {n.id for n in ast.walk(a) if isinstance(n, ast.Name)}
                nb = {n.id for n in ast.walk(b) if isinstance(n, ast.Name)}
                pure = all(not isinstance(x, ast.Call) for x in list(ast.walk(a.value)) + list(ast.walk(b.value)))
                if not (na & nb) and pure:
                    f2.body[i], f2.body[i + 1] = b, a
                    res.append(("reorder", ast.unparse(t)))
                    break
        # assert True at the top
        t = ast.parse(src)
        f2 = find(t, qual)
        f2.body.insert(1 if has_doc else 0, ast.parse("assert True").body[0])
        res.append(("add-assert", ast.unparse(t)))
        # first `if c: A else: B` with both branches -> `if not c: B else: A`
        t = ast.parse(src)
        f2 = find(t, qual)
        for n in ast.walk(f2):
            if isinstance(n, ast.If) and n.orelse and not (len(n.orelse) == 1 and isinstance(n.orelse[0], ast.If)):
                n.test = ast.UnaryOp(op=ast.Not(), operand=n.test)
                n.body, n.orelse = n.orelse, n.body
                ast.fix_missing_locations(t)
                res.append(("flip-if", ast.unparse(t)))
                break
    return res


def consulting_checks(rel):
    out = []
    for f in sorted(glob.glob(os.path.join(VERIF, "evidence", "C*.json"))):
        d = json.load(open(f))
        if rel in (d.get("files") or {}):
            out.append(d["property_id"])
    return out


def run_one(job):
    rel, qual, kind, text, props = job
    tmp = tempfile.mkdtemp(prefix="sa_neutral_")
    try:
        shutil.copytree(os.path.join(REPO, "src"), os.path.join(tmp, "src"), ignore=shutil.ignore_patterns("__pycache__"))
        os.makedirs(os.path.join(tmp, "sphinx"))
        shutil.copy(os.path.join(REPO, "sphinx", "islaspec.rst"), os.path.join(tmp, "sphinx"))
        open(os.path.join(tmp, rel), "w").write(text)
        # the mutant must still compile
        compile(text, rel, "exec")
        out = []
        for p in props:
            env = dict(os.environ, SA_EVIDENCE_DIR=os.path.join(tmp, "_ev"))
            c = subprocess.run([os.path.join(VERIF, "check"), p, "--repo", tmp], capture_output=True, text=True, env=env, timeout=600)
            first = next((l.strip()[:230] for l in c.stdout.splitlines() if l.startswith("  ") or l.startswith("ANALYSIS-ERROR")), "")
            out.append((p, c.returncode, first))
        return rel, qual, kind, out
    finally:
        shutil.rmtree(tmp, ignore_errors=True)


def main():
    flt = [a for a in sys.argv[1:] if not a.startswith("--")]
    jobs_n = int(os.environ.get("NF_JOBS", "12"))
    jobs = []
    for rel, qual in named_functions():
        if flt and not any(f in rel + ":" + qual for f in flt):
            continue
        props = consulting_checks(rel)
        for kind, text in mutants(rel, qual):
            jobs.append((rel, qual, kind, text, props))
    print(f"{len(jobs)} neutral mutants")
    stats = {0: 0, 1: 0, 2: 0}
    with concurrent.futures.ProcessPoolExecutor(max_workers=jobs_n) as ex:
        for rel, qual, kind, out in ex.map(run_one, jobs):
            for p, rc, first in out:
                stats[rc] = stats.get(rc, 0) + 1
                if rc == 1:
                    print(f"FALSE-ALARM {rel}:{qual} [{kind}] {p}: {first}")
                elif rc == 2 and "--verbose" in sys.argv:
                    print(f"analysis-error {rel}:{qual} [{kind}] {p}: {first}")
    print("check runs by exit code:", stats)


if __name__ == "__main__":
    main()
