#!/usr/bin/env python3
"""Self-test of the checkers (development aid, not a registered check).

Each recipe edits a scratch copy of /repo's sources (outside /repo and /verif, removed afterwards)
and runs one property check against it with --repo.  Kinds:
  break   : the edit breaks the property; the check must exit 1 and name `expect` in a violation line
  neutral : behaviour-preserving edit; the check must exit 0
Recipes: selftest/mutants.json  (text replacement, must match exactly once)
         seeded/<id>/patch.diff (applied with `git apply`; expectation from meta.json: "expect_rule")
"""
import concurrent.futures
import json
import os
import shutil
import subprocess
import sys
import tempfile

HERE = os.path.dirname(os.path.abspath(__file__))
VERIF = os.path.dirname(HERE)
REPO = os.environ.get("ISLA_REPO", "/repo")
COPY = ["src", "sphinx/islaspec.rst"]


def make_copy(dst):
    for rel in COPY:
        s = os.path.join(REPO, rel)
        d = os.path.join(dst, rel)
        os.makedirs(os.path.dirname(d), exist_ok=True)
        if os.path.isdir(s):
            shutil.copytree(s, d, ignore=shutil.ignore_patterns("__pycache__", "*.pyc"))
        else:
            shutil.copy(s, d)


def run_check(prop, root):
    env = dict(os.environ)
    env["SA_EVIDENCE_DIR"] = os.path.join(root, "_evidence")
    p = subprocess.run([os.path.join(VERIF, "check"), prop, "--repo", root], capture_output=True, text=True, env=env, timeout=300)
    return p.returncode, p.stdout + p.stderr


def one(recipe):
    tmp = tempfile.mkdtemp(prefix="sa_mut_")
    try:
        make_copy(tmp)
        if "patch" in recipe:
            r = subprocess.run(["git", "apply", "--unsafe-paths", "--directory", tmp, recipe["patch"]], capture_output=True, text=True, cwd="/")
            if r.returncode != 0:
                # try plain patch
                r = subprocess.run(["patch", "-p1", "-d", tmp, "-i", recipe["patch"]], capture_output=True, text=True)
                if r.returncode != 0:
                    return recipe, "ERROR", f"patch does not apply: {r.stdout[-200:]} {r.stderr[-200:]}"
        else:
            path = os.path.join(tmp, recipe["file"])
            s = open(path, encoding="utf-8").read()
            if s.count(recipe["old"]) != 1:
                return recipe, "ERROR", f"`old` matches {s.count(recipe['old'])} times in {recipe['file']}"
            open(path, "w", encoding="utf-8").write(s.replace(recipe["old"], recipe["new"]))
            # must still compile
            r = subprocess.run([sys.executable, "-m", "py_compile", path], capture_output=True, text=True)
            if r.returncode != 0:
                return recipe, "ERROR", "mutant does not compile"
        results = []
        for prop in recipe["props"]:
            rc, out = run_check(prop, tmp)
            results.append((prop, rc, out))
        kind = recipe.get("kind", "break")
        if kind == "neutral":
            bad = [(p, rc) for p, rc, _ in results if rc != 0]
            return recipe, ("OK" if not bad else "FALSE-ALARM"), "; ".join(f"{p} rc={rc}" for p, rc in bad) + "".join(o[-600:] for _, rc, o in results if rc != 0)
        hit = []
        for p, rc, out in results:
            viol = [l for l in out.splitlines() if l.startswith("  ") and (recipe.get("expect") or "") in l]
            if rc == 1 and viol:
                hit.append(f"{p}: {viol[0].strip()[:160]}")
        if hit:
            return recipe, "DETECTED", hit[0]
        return recipe, "MISSED", "; ".join(f"{p} rc={rc}" for p, rc, _ in results) + " " + " | ".join(l for _, _, o in results for l in o.splitlines() if l.startswith("ANALYSIS-ERROR"))[:300]
    finally:
        shutil.rmtree(tmp, ignore_errors=True)


def load():
    recipes = []
    for name in ("mutants.json", "reverts.json"):
        mj = os.path.join(HERE, name)
        if os.path.isfile(mj):
            recipes += json.load(open(mj))
    seeded = os.path.join(VERIF, "seeded")
    if os.path.isdir(seeded):
        for d in sorted(os.listdir(seeded)):
            meta = os.path.join(seeded, d, "meta.json")
            patch = os.path.join(seeded, d, "patch.diff")
            if os.path.isfile(meta) and os.path.isfile(patch):
                m = json.load(open(meta))
                if m.get("detected_by") is None and not os.environ.get("SELFTEST_ALL_SEEDED"):
                    continue
                recipes.append({"id": f"seeded/{d}", "props": m.get("detected_by") or [m["property"]], "patch": patch, "expect": m.get("expect_rule", ""), "kind": "break"})
    return recipes


def main():
    only = sys.argv[1:]
    recipes = [r for r in load() if not only or any(o in r["id"] or o in r["props"] for o in only)]
    counts = {}
    with concurrent.futures.ThreadPoolExecutor(max_workers=int(os.environ.get("SELFTEST_JOBS", "12"))) as ex:
        for recipe, status, detail in ex.map(one, recipes):
            counts[status] = counts.get(status, 0) + 1
            print(f"{status:12s} {recipe['id']:40s} {','.join(recipe['props']):10s} {detail[:220]}")
    print(counts)
    return 0 if set(counts) <= {"DETECTED", "OK"} else 1


if __name__ == "__main__":
    sys.exit(main())
