"""E-A: dispatch tables of the `flow(Nothing, *map(compose(lambda f: lambda _: f(ARGS), lash), [H...]))` idiom."""

from __future__ import annotations

import ast
from dataclasses import dataclass, field
from typing import Dict, List, Optional, Tuple

from .core import (
    block_always_exits_noreturn,
    Module,
    Unrecognised,
    call_name,
    dotted,
    enclosing_def,
    find_method,
    module_of,
    param_names,
    positional_arity,
    qual,
    site,
    src,
    walk_local,
)


@dataclass
class FlowTable:
    owner: ast.FunctionDef  # function containing the flow(...) call
    call: ast.Call  # the flow(...) call
    n_args: int  # positional arguments each handler is called with
    arg_exprs: List[ast.expr]
    handlers: List[ast.expr]  # handler expressions (Name / Attribute)
    lash_handlers: List[ast.expr] = field(default_factory=list)  # trailing .lash(g)


def find_flow_tables(fn: ast.AST) -> List[FlowTable]:
    res = []
    for n in walk_local(fn, include_nested=True):
        if isinstance(n, ast.Call) and call_name(n) == "flow":
            t = _parse_flow(n, fn)
            if t is not None:
                res.append(t)
    return res


def _parse_flow(call: ast.Call, fn) -> Optional[FlowTable]:
    if len(call.args) != 2 or not isinstance(call.args[1], ast.Starred):
        return None
    m = call.args[1].value
    if not (isinstance(m, ast.Call) and call_name(m) == "map" and len(m.args) == 2):
        return None
    comp, lst = m.args
    if not (isinstance(comp, ast.Call) and call_name(comp) == "compose" and len(comp.args) == 2):
        return None
    if dotted(comp.args[1]) != "lash":
        return None
    outer = comp.args[0]
    if not (isinstance(outer, ast.Lambda) and len(outer.args.args) == 1):
        return None
    fname = outer.args.args[0].arg
    inner = outer.body
    if not (isinstance(inner, ast.Lambda) and isinstance(inner.body, ast.Call)):
        return None
    icall = inner.body
    if not (isinstance(icall.func, ast.Name) and icall.func.id == fname):
        return None
    if icall.keywords or any(isinstance(a, ast.Starred) for a in icall.args):
        return None
    if not isinstance(lst, ast.List):
        return None
    table = FlowTable(fn, call, len(icall.args), list(icall.args), list(lst.elts))
    # trailing .bind(...).lash(g)
    cur: ast.AST = call
    while True:
        p = getattr(cur, "_parent", None)
        if isinstance(p, ast.Attribute) and isinstance(getattr(p, "_parent", None), ast.Call) and p._parent.func is p:
            c = p._parent
            if p.attr == "lash" and len(c.args) == 1:
                table.lash_handlers.append(c.args[0])
            cur = c
            continue
        break
    return table


def resolve_handler(expr: ast.expr, near: ast.AST, module: Module) -> Optional[ast.AST]:
    """Resolve a handler expression to a FunctionDef/Lambda in the same module.

    Returns (function node).  For bound methods `self.m` the resolved function's
    first parameter is `self` (handled by callers through `bound`)."""
    if isinstance(expr, ast.Lambda):
        return expr
    if isinstance(expr, ast.Name):
        # nested defs in enclosing functions first
        cur = near
        while cur is not None:
            if isinstance(cur, (ast.FunctionDef, ast.AsyncFunctionDef)):
                for st in ast.walk(cur):
                    if isinstance(st, ast.FunctionDef) and st.name == expr.id and enclosing_def(st) is cur:
                        return st
            cur = getattr(cur, "_parent", None)
        n = module.get(expr.id)
        if isinstance(n, ast.FunctionDef):
            return n
        return None
    if isinstance(expr, ast.Attribute) and isinstance(expr.value, ast.Name) and expr.value.id in ("self", "cls"):
        # find enclosing class
        cur = near
        while cur is not None and not isinstance(cur, ast.ClassDef):
            cur = getattr(cur, "_parent", None)
        if cur is None:
            return None
        return find_method(module, cur.name, expr.attr)
    return None


def is_bound(expr: ast.expr, target: Optional[ast.AST] = None) -> bool:
    if target is not None and any(dotted(d) == "staticmethod" for d in getattr(target, "decorator_list", [])):
        return False
    return isinstance(expr, ast.Attribute) and isinstance(expr.value, ast.Name) and expr.value.id in ("self", "cls")


def accepts(fn: ast.AST, n: int, bound: bool = False) -> bool:
    lo, hi = positional_arity(fn)
    if bound:
        lo, hi = max(lo - 1, 0), (None if hi is None else hi - 1)
    # keyword-only without defaults would also break, check
    a = fn.args
    for kw, d in zip(a.kwonlyargs, a.kw_defaults):
        if d is None:
            return False
    return lo <= n and (hi is None or n <= hi)


def check_flow_arity(ctx, rule: str, fn: ast.FunctionDef, min_handlers: int, expected_tables: int = 1, raising_is_note: bool = True, as_note: bool = False) -> List[FlowTable]:
    """A1: every handler (and every .lash handler) accepts the arguments it is called with."""
    module = module_of(fn)
    tables = find_flow_tables(fn)
    if len(tables) < expected_tables:
        raise Unrecognised(rule, f"{module.relpath}:{qual(fn)}", "flow(...) dispatch table not found in recognised shape")
    for t in tables:
        if len(t.handlers) < min_handlers:
            raise Unrecognised(rule, f"{module.relpath}:{qual(fn)}", f"only {len(t.handlers)} handlers (expected >= {min_handlers})")
        for h in t.handlers:
            target = resolve_handler(h, t.call, module)
            construct = f"{module.relpath}:{qual(fn)}"
            if target is None:
                raise Unrecognised(rule, construct, f"handler {src(h)} cannot be resolved")
            ok = accepts(target, t.n_args, bound=is_bound(h, target))
            always_raises = isinstance(target, ast.FunctionDef) and block_always_exits_noreturn(target.body)
            if not ok and (as_note or (raising_is_note and always_raises)):
                ctx.note(rule, construct, f"handler {src(h)}", site(target),
                         f"handler {src(h)} is called with {t.n_args} arguments but accepts {positional_arity(target)}; "
                         + ("it raises on every path anyway, so only the exception type changes (TypeError instead of the intended one)" if always_raises else "table not reachable from the property's entry points"))
                continue
            ctx.check(
                ok,
                rule,
                construct,
                f"handler {src(h)}",
                site(target),
                f"handler {src(h)} is called with {t.n_args} positional arguments ({', '.join(map(src, t.arg_exprs))}) "
                f"but its signature accepts {positional_arity(target)} -> TypeError for every input that reaches it",
                f"accepts {t.n_args} arguments",
            )
        for h in t.lash_handlers:
            target = resolve_handler(h, t.call, module)
            construct = f"{module.relpath}:{qual(fn)}"
            if target is None:
                raise Unrecognised(rule, construct, f"lash handler {src(h)} cannot be resolved")
            ctx.check(
                accepts(target, 1, bound=is_bound(h, target)),
                rule,
                construct,
                f"lash {src(h)}",
                site(target),
                f".lash({src(h)}) handler must accept exactly one argument",
                "accepts 1 argument",
            )
    return tables


# --------------------------------------------------------------------------
# A2: responsibility guards


@dataclass
class Guard:
    kind: str  # isinstance | z3pred | z3kind | z3name | type-is | other
    values: Tuple[str, ...]
    node: ast.AST


def first_guard(fn: ast.FunctionDef) -> Optional[Guard]:
    """The leading `if <not responsible>: return Nothing` of a handler."""
    for st in fn.body:
        if isinstance(st, ast.Expr) and isinstance(st.value, ast.Constant):
            continue  # docstring
        if isinstance(st, ast.If) and len(st.body) == 1 and isinstance(st.body[0], ast.Return) and dotted(st.body[0].value or ast.Constant(None)) == "Nothing" and not st.orelse:
            return classify_guard(st.test, negated=True)
        # statements without control flow before the guard (a logging call, a constant binding) do not change which formulas the handler takes
        if isinstance(st, ast.Assign) and isinstance(st.value, ast.Constant):
            continue
        if isinstance(st, (ast.Assert, ast.Pass)):
            continue
        if isinstance(st, ast.Expr) and isinstance(st.value, ast.Call) and (call_name(st.value) or "").split(".")[-1] in ("debug", "info", "warning", "log"):
            continue
        return None
    return None


def classify_guard(test: ast.expr, negated: bool) -> Optional[Guard]:
    """Classify `not isinstance(x, C)` / `expr.decl().kind() != K` / `not z3.is_x(e)` / ..."""
    # conjunction of negated z3 predicates: `not z3.is_a(e) and not z3.is_b(e)` (responsible for a or b)
    if negated and isinstance(test, ast.BoolOp) and isinstance(test.op, ast.And):
        preds = []
        for v in test.values:
            if isinstance(v, ast.UnaryOp) and isinstance(v.op, ast.Not) and isinstance(v.operand, ast.Call) and (call_name(v.operand) or "").startswith("z3.is_"):
                preds.append(call_name(v.operand))
            else:
                preds = None
                break
        if preds:
            return Guard("z3pred", tuple(sorted(preds)), test)
    t = test
    neg = negated
    if isinstance(t, ast.UnaryOp) and isinstance(t.op, ast.Not):
        t = t.operand
        neg = not neg
        # now `t` is the positive responsibility test if neg is False
        if isinstance(t, ast.Call):
            n = call_name(t)
            if n == "isinstance" and len(t.args) == 2:
                cls = t.args[1]
                names = tuple(src(e) for e in cls.elts) if isinstance(cls, ast.Tuple) else (src(cls),)
                return Guard("isinstance", names, test)
            if n and n.startswith("z3.is_"):
                return Guard("z3pred", (n,), test)
            return Guard("other", (src(t),), test)
        return Guard("other", (src(t),), test)
    if isinstance(t, ast.Compare) and len(t.ops) == 1 and isinstance(t.ops[0], (ast.NotEq, ast.IsNot)):
        l = src(t.left)
        r = t.comparators[0]
        if l.endswith(".decl().kind()"):
            return Guard("z3kind", (src(r),), test)
        if l.endswith(".decl().name()"):
            return Guard("z3name", (src(r),), test)
        if l.startswith("type("):
            return Guard("type-is", (src(r),), test)
        return Guard("other", (src(t),), test)
    return Guard("other", (src(t),), test)
