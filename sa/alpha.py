"""Alpha-normalisation against the reference tree.

The rules name local variables of the functions they inspect (they were written against one tree).  A behaviour-preserving edit that only renames locals,
swaps the operands of == / != or adds/removes a docstring must not change any verdict.  For every function (top level, method, or nested one level) whose
ALPHA-CANONICAL form equals that of the reference version recorded in sa/reference.json, the loader substitutes the reference version's AST (re-positioned at the
current line), so that the rules see the names they know.  Canonical form: locals (names bound inside the function, parameters excluded) renamed by order of
first occurrence, operands of == / != / is / is not ordered textually, docstrings dropped, a temporary that only carries a return value (`v = E; return v`) inlined, `if not c: B else: A` turned into `if c: A else: B`.  Two functions have the same canonical form iff they are equal up to a
consistent renaming of these identifiers and those operand swaps - anything else (a changed expression, an added statement, a different call) leaves the
function as it is and the rules judge it unchanged.

`python3 tools/gen_reference.py` regenerates sa/reference.json from /repo (to be run after /repo itself changes on purpose, e.g. after a fix: commit).
"""

from __future__ import annotations

import ast
import copy
import hashlib
import json
import os
from typing import Dict, List, Optional, Tuple

HERE = os.path.dirname(os.path.abspath(__file__))
REFERENCE_FILE = os.path.join(HERE, "reference.json")
_reference: Optional[Dict[str, Dict[str, Dict[str, str]]]] = None


def _bound_names(fn: ast.AST) -> List[str]:
    params = set()
    for a in fn.args.args + fn.args.kwonlyargs + fn.args.posonlyargs:
        params.add(a.arg)
    if fn.args.vararg:
        params.add(fn.args.vararg.arg)
    if fn.args.kwarg:
        params.add(fn.args.kwarg.arg)
    skip = set(params)
    for n in ast.walk(fn):
        if isinstance(n, (ast.Global, ast.Nonlocal)):
            skip |= set(n.names)
    out: List[str] = []

    def add(name):
        if name not in skip and name not in out:
            out.append(name)

    # deterministic order: source order of first binding
    for n in sorted((x for x in ast.walk(fn) if hasattr(x, "lineno")), key=lambda x: (x.lineno, x.col_offset)):
        if isinstance(n, ast.Name) and isinstance(n.ctx, ast.Store):
            add(n.id)
        elif isinstance(n, (ast.FunctionDef, ast.AsyncFunctionDef)) and n is not fn:
            add(n.name)
            for a in n.args.args + n.args.kwonlyargs + n.args.posonlyargs:
                add(a.arg)
        elif isinstance(n, ast.Lambda):
            for a in n.args.args + n.args.kwonlyargs:
                add(a.arg)
        elif isinstance(n, ast.ExceptHandler) and n.name:
            add(n.name)
        elif isinstance(n, (ast.MatchAs, ast.MatchStar)) and n.name:
            add(n.name)
    return out


class _Canon(ast.NodeTransformer):
    def __init__(self, mapping: Dict[str, str]):
        self.m = mapping

    def visit_Name(self, n):
        if n.id in self.m:
            n.id = self.m[n.id]
        return n

    def visit_arg(self, n):
        if n.arg in self.m:
            n.arg = self.m[n.arg]
        n.annotation = None
        return n

    def visit_FunctionDef(self, n):
        if n.name in self.m:
            n.name = self.m[n.name]
        self.generic_visit(n)
        if n.body and isinstance(n.body[0], ast.Expr) and isinstance(getattr(n.body[0], "value", None), ast.Constant) and isinstance(n.body[0].value.value, str):
            n.body = n.body[1:] or [ast.Pass()]
        n.returns = None
        return n

    def visit_Nonlocal(self, n):
        return n

    def visit_ExceptHandler(self, n):
        if n.name in self.m:
            n.name = self.m[n.name]
        self.generic_visit(n)
        return n

    def visit_MatchAs(self, n):
        if n.name in self.m:
            n.name = self.m[n.name]
        self.generic_visit(n)
        return n

    def visit_keyword(self, n):
        # keyword names addressing parameters of nested functions that were renamed
        if n.arg in self.m:
            n.arg = self.m[n.arg]
        self.generic_visit(n)
        return n

    def visit_AnnAssign(self, n):
        self.generic_visit(n)
        if n.value is not None:
            return ast.Assign(targets=[n.target], value=n.value, lineno=getattr(n, "lineno", 0), col_offset=0)
        return n

    def visit_Compare(self, n):
        self.generic_visit(n)
        if len(n.ops) == 1 and isinstance(n.ops[0], (ast.Eq, ast.NotEq, ast.Is, ast.IsNot)):
            a, b = ast.unparse(n.left), ast.unparse(n.comparators[0])
            if b < a:
                n.left, n.comparators = n.comparators[0], [n.left]
        return n


_ORDER_OPAQUE = (ast.ListComp, ast.SetComp, ast.DictComp, ast.GeneratorExp, ast.Lambda, ast.IfExp, ast.BoolOp, ast.Dict, ast.NamedExpr, ast.Await, ast.Yield, ast.YieldFrom, ast.JoinedStr)
_ORDER_TRIVIAL = (ast.Name, ast.Constant, ast.Attribute, ast.Tuple, ast.List, ast.Starred, ast.keyword, ast.expr_context, ast.operator, ast.unaryop, ast.cmpop, ast.boolop, ast.Slice)


def _load_is_first_effect(stmt: ast.stmt, name: str) -> bool:
    """Is the (single) load of `name` in the simple statement `stmt` evaluated before anything that could have an effect?  Then `name = E; stmt` and stmt[E/name] evaluate the
    same things in the same order.  Field order of the ast is evaluation order for the node kinds let through; anything else makes the answer False."""
    if not isinstance(stmt, (ast.Assign, ast.Return, ast.Expr, ast.AugAssign)) or stmt.value is None:
        return False
    if any(isinstance(n, _ORDER_OPAQUE) for n in ast.walk(stmt.value)):
        return False
    state = {"first": None}

    def post(n):
        if state["first"] is not None:
            return
        if isinstance(n, ast.Name):
            if n.id == name:
                state["first"] = "load"
            return
        for c in ast.iter_child_nodes(n):
            post(c)
            if state["first"] is not None:
                return
        if not isinstance(n, _ORDER_TRIVIAL):
            state["first"] = "effect"

    post(stmt.value)
    return state["first"] == "load"


class _Subst(ast.NodeTransformer):
    def __init__(self, name, value):
        self.name, self.value = name, value

    def visit_Name(self, n):
        return self.value if n.id == self.name and isinstance(n.ctx, ast.Load) else n


def _inline_result_temps(fn: ast.AST) -> None:
    """`v = E; return v` (v bound once, used once) is `return E`; `if not c: B else: A` is `if c: A else: B`."""
    stores = {}
    loads = {}
    for n in ast.walk(fn):
        if isinstance(n, ast.Name):
            d = stores if isinstance(n.ctx, ast.Store) else loads
            d[n.id] = d.get(n.id, 0) + 1
    for node in ast.walk(fn):
        for fld in ("body", "orelse", "finalbody"):
            block = getattr(node, fld, None)
            if not isinstance(block, list):
                continue
            i = 0
            while i + 1 < len(block):
                a, b = block[i], block[i + 1]
                if (isinstance(a, ast.Assign) and len(a.targets) == 1 and isinstance(a.targets[0], ast.Name) and isinstance(b, ast.Return) and isinstance(b.value, ast.Name)
                        and b.value.id == a.targets[0].id and stores.get(b.value.id) == 1 and loads.get(b.value.id) == 1):
                    block[i:i + 2] = [ast.Return(value=a.value)]
                    continue
                if (isinstance(a, ast.Assign) and len(a.targets) == 1 and isinstance(a.targets[0], ast.Name) and stores.get(a.targets[0].id) == 1 and loads.get(a.targets[0].id) == 1
                        and not any(isinstance(x, ast.NamedExpr) for x in ast.walk(a.value)) and _load_is_first_effect(b, a.targets[0].id)):
                    b.value = _Subst(a.targets[0].id, a.value).visit(b.value)
                    del block[i]
                    continue
                i += 1
        if isinstance(node, ast.If) and node.orelse and isinstance(node.test, ast.UnaryOp) and isinstance(node.test.op, ast.Not) and not (len(node.orelse) == 1 and isinstance(node.orelse[0], ast.If)):
            node.test = node.test.operand
            node.body, node.orelse = node.orelse, node.body


def canonical(fn: ast.AST) -> str:
    f2 = copy.deepcopy(_detached(fn))
    _inline_result_temps(f2)
    ast.fix_missing_locations(f2)
    f2 = _detached(f2)  # positions as printed: binding order must not depend on where an inlined expression came from
    names = _bound_names(f2)
    mapping = {nm: f"_v{i}" for i, nm in enumerate(names)}
    f2 = _Canon(mapping).visit(f2)
    f2.decorator_list = f2.decorator_list
    ast.fix_missing_locations(f2)
    return ast.unparse(f2)


def _detached(fn: ast.AST) -> ast.AST:
    """copy without the loader's parent links (deepcopy would drag the whole module along)"""
    return ast.parse(ast.unparse(fn)).body[0]


def digest(text: str) -> str:
    return hashlib.sha256(text.encode("utf-8")).hexdigest()[:24]


def functions_of(tree: ast.Module):
    """(qualname, node) for top-level functions and methods of top-level classes"""
    for n in tree.body:
        if isinstance(n, (ast.FunctionDef, ast.AsyncFunctionDef)):
            yield n.name, n, tree.body
        elif isinstance(n, ast.ClassDef):
            for m in n.body:
                if isinstance(m, (ast.FunctionDef, ast.AsyncFunctionDef)):
                    yield f"{n.name}.{m.name}", m, n.body


def load_reference():
    global _reference
    if _reference is None:
        try:
            with open(REFERENCE_FILE) as fh:
                _reference = json.load(fh)
        except OSError:
            _reference = {}
    return _reference


def normalise(tree: ast.Module, relpath: str) -> List[str]:
    """Substitute reference versions for alpha-equivalent functions; returns the qualified names that were substituted."""
    ref = load_reference().get(relpath)
    if not ref:
        return []
    done = []
    seen = {}
    for q, fn, container in list(functions_of(tree)):
        seen[q] = seen.get(q, 0) + 1
        key = q if seen[q] == 1 else f"{q}#{seen[q]}"
        r = ref.get(key)
        if not r:
            continue
        raw = ast.unparse(fn)
        if digest(raw) == r["raw"]:
            continue
        try:
            if digest(canonical(fn)) != r["canon"]:
                continue
        except Exception:
            continue
        new = ast.parse(r["source"]).body[0]
        ast.increment_lineno(new, fn.lineno - new.lineno)
        for n in ast.walk(new):
            if hasattr(n, "col_offset") and isinstance(n, (ast.stmt, ast.expr)):
                n.col_offset += fn.col_offset
        container[container.index(fn)] = new
        done.append(key)
    return done
