"""Name-based call graph over the repository's modules (DESIGN 3.3).

Resolution is deliberately an over-approximation for reachability questions:
a call `x.m(...)` may reach every repo method named `m`; a call `f(...)` reaches
the nested / module-level / imported function named `f`.  Functions passed as
values (handler lists, `partial(f, ..)`, `map(f, ..)`) count as called.
"""

from __future__ import annotations

import ast
from typing import Dict, Iterable, List, Set, Tuple

from .core import Module, Repo, walk_local


class CallGraph:
    def __init__(self, repo: Repo, relpaths: Iterable[str]):
        self.repo = repo
        self.funcs: Dict[str, ast.AST] = {}  # "rel:qual" -> node
        self.by_name: Dict[str, List[str]] = {}
        self.edges: Dict[str, Set[str]] = {}
        self.unresolved: Dict[str, Set[str]] = {}
        mods = [repo.module(r, "callgraph") for r in relpaths]
        for m in mods:
            for q, fn in m.functions():
                fid = f"{m.relpath}:{q}"
                self.funcs[fid] = fn
                self.by_name.setdefault(fn.name, []).append(fid)
        for m in mods:
            for q, fn in m.functions():
                fid = f"{m.relpath}:{q}"
                self.edges[fid] = self._callees(m, q, fn)

    def _callees(self, m: Module, q: str, fn: ast.AST) -> Set[str]:
        out: Set[str] = set()
        for n in walk_local(fn, include_nested=False):
            names: List[str] = []
            if isinstance(n, ast.Call):
                f = n.func
                if isinstance(f, ast.Name):
                    names.append(f.id)
                elif isinstance(f, ast.Attribute):
                    names.append(f.attr)
            # function values
            if isinstance(n, ast.Name) and isinstance(n.ctx, ast.Load):
                names.append(n.id)
            elif isinstance(n, ast.Attribute) and isinstance(n.ctx, ast.Load):
                names.append(n.attr)
            elif isinstance(n, (ast.FunctionDef, ast.Lambda)):
                # nested def / lambda: treat as called from the definer
                if isinstance(n, ast.FunctionDef):
                    out.add(f"{m.relpath}:{q}.{n.name}")
                else:
                    for sub in ast.walk(n.body):
                        if isinstance(sub, ast.Call):
                            f = sub.func
                            if isinstance(f, ast.Name):
                                names.append(f.id)
                            elif isinstance(f, ast.Attribute):
                                names.append(f.attr)
                        elif isinstance(sub, ast.Name):
                            names.append(sub.id)
                        elif isinstance(sub, ast.Attribute):
                            names.append(sub.attr)
            for name in names:
                for fid in self.by_name.get(name, ()):
                    out.add(fid)
                # class instantiation -> __init__
                for fid in self.by_name.get("__init__", ()):
                    if fid.endswith(f":{name}.__init__"):
                        out.add(fid)
        return out

    def reachable(self, roots: Iterable[str]) -> Set[str]:
        seen: Set[str] = set()
        todo = [r for r in roots]
        while todo:
            f = todo.pop()
            if f in seen:
                continue
            seen.add(f)
            todo.extend(self.edges.get(f, ()))
        return seen

    def callers_of_name(self, name: str) -> Set[str]:
        targets = set(self.by_name.get(name, ()))
        return {f for f, cs in self.edges.items() if cs & targets}


SRC_ISLA = [
    "src/isla/cli.py",
    "src/isla/derivation_tree.py",
    "src/isla/evaluator.py",
    "src/isla/existential_helpers.py",
    "src/isla/fuzzer.py",
    "src/isla/global_config.py",
    "src/isla/helpers.py",
    "src/isla/isla_predicates.py",
    "src/isla/isla_shortcuts.py",
    "src/isla/language.py",
    "src/isla/mutator.py",
    "src/isla/parser.py",
    "src/isla/solver.py",
    "src/isla/three_valued_truth.py",
    "src/isla/trie.py",
    "src/isla/type_defs.py",
    "src/isla/z3_helpers.py",
]
