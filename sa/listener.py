"""E-F: listener methods vs. generated ANTLR context classes."""

from __future__ import annotations

import ast
import os
from typing import Dict, List, Optional, Set, Tuple

from .core import Module, Repo, Unrecognised, class_bases, dotted, src

ANTLR_RUNTIME_FILES = [
    "antlr4/ParserRuleContext.py",
    "antlr4/RuleContext.py",
    "antlr4/tree/Tree.py",
]


def _site_packages(repo: Repo) -> Optional[str]:
    for cand in ("/venv/lib/python3.12/site-packages",):
        if os.path.isdir(os.path.join(cand, "antlr4")):
            return cand
    import glob

    for cand in glob.glob("/venv/lib/python3*/site-packages"):
        if os.path.isdir(os.path.join(cand, "antlr4")):
            return cand
    return None


def runtime_members(repo: Repo, rule: str) -> Set[str]:
    sp = _site_packages(repo)
    if sp is None:
        raise Unrecognised(rule, "antlr4 runtime", "antlr4 package sources not found")
    members: Set[str] = set()
    for rel in ANTLR_RUNTIME_FILES:
        p = os.path.join(sp, rel)
        if not os.path.isfile(p):
            raise Unrecognised(rule, rel, "antlr4 runtime source not found")
        tree = ast.parse(open(p, encoding="utf-8").read())
        for cls in [n for n in ast.walk(tree) if isinstance(n, ast.ClassDef)]:
            if cls.name in ("ParserRuleContext", "RuleContext", "RuleNode", "ParseTree", "SyntaxTree", "Tree", "InterpreterRuleContext"):
                members |= _class_members(cls)
    return members


def _class_members(cls: ast.ClassDef) -> Set[str]:
    out: Set[str] = set()
    for st in cls.body:
        if isinstance(st, ast.FunctionDef):
            out.add(st.name)
            for n in ast.walk(st):
                if isinstance(n, ast.Attribute) and isinstance(n.ctx, ast.Store) and isinstance(n.value, ast.Name) and n.value.id == "self":
                    out.add(n.attr)
        elif isinstance(st, ast.Assign):
            for t in st.targets:
                if isinstance(t, ast.Name):
                    out.add(t.id)
        elif isinstance(st, ast.AnnAssign) and isinstance(st.target, ast.Name):
            out.add(st.target.id)
    return out


class ContextModel:
    """Members of every generated *Context class of one parser module."""

    def __init__(self, repo: Repo, relpath: str, parser_class: str, rule: str):
        self.module = repo.module(relpath, rule)
        pc = self.module.get(parser_class)
        if not isinstance(pc, ast.ClassDef):
            raise Unrecognised(rule, f"{relpath}:{parser_class}", "generated parser class not found")
        self.parser_class = parser_class
        self.classes: Dict[str, ast.ClassDef] = {c.name: c for c in pc.body if isinstance(c, ast.ClassDef) and c.name.endswith("Context")}
        if len(self.classes) < 3:
            raise Unrecognised(rule, f"{relpath}:{parser_class}", "no context classes found")
        self.runtime = runtime_members(repo, rule)

    def members(self, name: str) -> Set[str]:
        out: Set[str] = set()
        seen = set()
        todo = [name]
        while todo:
            c = todo.pop()
            if c in seen:
                continue
            seen.add(c)
            if c in self.classes:
                out |= _class_members(self.classes[c])
                todo += class_bases(self.classes[c])
            elif c in ("ParserRuleContext", "RuleContext"):
                out |= self.runtime
        return out

    def subclasses_of(self, base: str) -> List[str]:
        return sorted(n for n, c in self.classes.items() if base in class_bases(c))


def annotated_contexts(arg: ast.arg, parser_alias: Set[str]) -> List[str]:
    """Names of context classes in a `ctx: P.XContext | P.YContext` annotation."""
    out: List[str] = []
    if arg.annotation is None:
        return out
    for n in ast.walk(arg.annotation):
        if isinstance(n, ast.Attribute) and n.attr.endswith("Context"):
            out.append(n.attr)
    return out
