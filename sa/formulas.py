"""Shared facts about the formula AST of src/isla/language.py and a tiny propositional normaliser (E-I)."""

from __future__ import annotations

import ast
import itertools
from typing import Callable, Dict, List, Optional, Sequence, Set, Tuple

from .core import Module, Repo, Unrecognised, call_name, class_bases, dotted, is_abstract, src, subclasses_closure

LANG = "src/isla/language.py"

QUANT_FIELDS = {
    "ForallFormula": ["bound_variable", "in_variable", "inner_formula", "bind_expression"],
    "ExistsFormula": ["bound_variable", "in_variable", "inner_formula", "bind_expression"],
    "ForallIntFormula": ["bound_variable", "inner_formula"],
    "ExistsIntFormula": ["bound_variable", "inner_formula"],
}
DUAL = {"ForallFormula": "ExistsFormula", "ExistsFormula": "ForallFormula", "ForallIntFormula": "ExistsIntFormula", "ExistsIntFormula": "ForallIntFormula"}


def formula_classes(repo: Repo, rule: str) -> Tuple[Dict[str, ast.ClassDef], Dict[str, ast.ClassDef]]:
    """(concrete, abstract) subclasses of Formula defined in language.py (computed, not listed)."""
    m = repo.module(LANG, rule)
    subs = subclasses_closure(m, "Formula")
    if len(subs) < 8:
        raise Unrecognised(rule, f"{LANG}:Formula", f"only {len(subs)} subclasses found")
    concrete = {k: v for k, v in subs.items() if not is_abstract(v)}
    abstract = {k: v for k, v in subs.items() if is_abstract(v)}
    return concrete, abstract


def expand_classes(names: Sequence[str], concrete: Dict[str, ast.ClassDef], abstract: Dict[str, ast.ClassDef], module: Module) -> Set[str]:
    """Concrete classes covered by an isinstance test against `names` (abstract ones expand to their concrete subclasses)."""
    out: Set[str] = set()
    for n in names:
        n = n.split(".")[-1]
        if n in concrete:
            out.add(n)
        if n in abstract or n in concrete:
            for c, node in concrete.items():
                if _derives(c, n, {**concrete, **abstract}):
                    out.add(c)
        if n == "Formula":
            out |= set(concrete)
    return out


def _derives(cls: str, base: str, allc: Dict[str, ast.ClassDef]) -> bool:
    seen = set()
    todo = [cls]
    while todo:
        c = todo.pop()
        if c in seen or c not in allc:
            continue
        seen.add(c)
        for b in class_bases(allc[c]):
            if b == base:
                return True
            todo.append(b)
    return False


def isinstance_classes(test: ast.expr, var: Optional[str] = None) -> Optional[List[str]]:
    """Classes of `isinstance(var, C)` / `isinstance(var, (C, D))` / `isinstance(x, C) or isinstance(x, D)` / `type(x) is C`."""
    if isinstance(test, ast.BoolOp) and isinstance(test.op, ast.Or):
        res: List[str] = []
        for v in test.values:
            r = isinstance_classes(v, var)
            if r is None:
                return None
            res += r
        return res
    if isinstance(test, ast.Call) and call_name(test) == "isinstance" and len(test.args) == 2:
        if var is not None and src(test.args[0]) != var:
            return None
        c = test.args[1]
        elts = c.elts if isinstance(c, ast.Tuple) else [c]
        return [(dotted(e) or src(e)).split(".")[-1] for e in elts]
    if isinstance(test, ast.Compare) and len(test.ops) == 1 and isinstance(test.ops[0], ast.Is) and src(test.left).startswith("type("):
        return [(dotted(test.comparators[0]) or "").split(".")[-1]]
    return None


def if_chain(stmts: Sequence[ast.stmt]) -> List[Tuple[Optional[ast.expr], List[ast.stmt], ast.AST]]:
    """Flatten `if a: .. elif b: .. else: ..` chains and consecutive `if a: return` statements: (test or None, body, node)."""
    out: List[Tuple[Optional[ast.expr], List[ast.stmt], ast.AST]] = []
    for st in stmts:
        if isinstance(st, ast.If):
            cur = st
            while True:
                out.append((cur.test, cur.body, cur))
                if len(cur.orelse) == 1 and isinstance(cur.orelse[0], ast.If):
                    cur = cur.orelse[0]
                    continue
                if cur.orelse:
                    out.append((None, cur.orelse, cur))
                break
    return out


# ---------------------------------------------------------------------------
# Propositional normaliser over two variables A (left/self) and B (right/other)


class PropError(Exception):
    pass


def prop_eval(e: ast.expr, env: Dict[str, bool], names: Dict[str, str]) -> bool:
    """Evaluate an extracted expression over {-, &, |, true(), false(), names} for one valuation."""
    if isinstance(e, ast.Name):
        if e.id in names:
            return env[names[e.id]]
        raise PropError(f"name {e.id}")
    if isinstance(e, ast.UnaryOp) and isinstance(e.op, (ast.USub, ast.Not, ast.Invert)):
        return not prop_eval(e.operand, env, names)
    if isinstance(e, ast.BoolOp):
        vals = [prop_eval(v, env, names) for v in e.values]
        return all(vals) if isinstance(e.op, ast.And) else any(vals)
    if isinstance(e, ast.BinOp) and isinstance(e.op, ast.BitAnd):
        return prop_eval(e.left, env, names) and prop_eval(e.right, env, names)
    if isinstance(e, ast.BinOp) and isinstance(e.op, ast.BitOr):
        return prop_eval(e.left, env, names) or prop_eval(e.right, env, names)
    if isinstance(e, ast.Call):
        n = (call_name(e) or "").split(".")[-1]
        if n == "true" and not e.args:
            return True
        if n == "false" and not e.args:
            return False
        if n == "ConjunctiveFormula":
            return all(prop_eval(a, env, names) for a in e.args)
        if n == "DisjunctiveFormula":
            return any(prop_eval(a, env, names) for a in e.args)
        if n == "NegatedFormula" and len(e.args) == 1:
            return not prop_eval(e.args[0], env, names)
        if n == "smt_atom" and len(e.args) == 1 and isinstance(e.args[0], ast.Constant):
            return bool(e.args[0].value)
    raise PropError(src(e))


def truth_table(e: ast.expr, names: Dict[str, str], variables: Sequence[str] = ("A", "B")) -> Tuple[bool, ...]:
    rows = []
    for vals in itertools.product([False, True], repeat=len(variables)):
        rows.append(prop_eval(e, dict(zip(variables, vals)), names))
    return tuple(rows)


SPEC_TABLES = {
    # rows ordered (A,B) = FF, FT, TF, TT
    "implies": (True, True, False, True),
    "iff": (True, False, False, True),
    "xor": (False, True, True, False),
    "and": (False, False, False, True),
    "or": (False, True, True, True),
}
