"""C05 — Ground SMT-LIB atoms are judged exactly as Z3 judges them.

Decided (necessary conditions, DESIGN.md section 5/C05):
 R1 dispatch-table arity of evaluate_z3_expression (fallback reachable without TypeError)
 R2 every consumer of the fast path falls back to Z3; Z3 verdict mapping of is_valid
 R3 no exception escapes a fast-path constructor (index / zero division / ord / wraparound)
 R4 regex-fragment composition (grouping, class escaping)
 R5 regex membership is a full match that treats newline as an ordinary character
 R6 guard / body operator agreement against the SMT-LIB operator table
"""

from __future__ import annotations

import ast
import re as _re
from typing import Dict, List, Optional, Tuple

from ..core import (
    clone,
    Unrecognised,
    Slot,
    call_name,
    calls_in,
    dotted,
    facts,
    module_of,
    qual,
    site,
    src,
    template,
    walk_local,
    enclosing_def,
)
from ..dispatch import check_flow_arity, first_guard, resolve_handler, classify_guard

Z3H = "src/isla/z3_helpers.py"
EVAL = "src/isla/evaluator.py"
LANG = "src/isla/language.py"

EXPLANATION = (
    "Static necessary conditions for C05 over src/isla/z3_helpers.py (+ consumers in evaluator.py, language.py): "
    "decided: (R1) every handler and the fallback of the evaluate_z3_expression dispatch table accepts the arguments it is "
    "dispatched with, so operators without a Python case reach Z3 instead of raising TypeError; (R2) every consumer of the fast "
    "path chains a Z3 fallback and is_valid maps unsat/sat/unknown of the negation to TRUE/FALSE/UNKNOWN; (R3) no IndexError / "
    "ZeroDivisionError / TypeError(ord) / negative-index wraparound in any fast-path constructor; (R4) regex source fragments "
    "compose (quantified slots grouped, class-body slots escaped); (R5) membership uses a DOTALL full match; (R6) each "
    "handler's body implements the operator its guard names, in Z3's child order; (R7) no verdict cache is keyed by the printed (lossy) form of a Z3 term; (R8) non-ASCII text is escaped before Z3 parses it and every unicode escape of a literal's as_string() is undone before the fast path compares it. NOT decided: numeric agreement with Z3 "
    "for every value (rounding of real division, str.to.int of non-numerals), Z3's own verdicts."
)


def strip_casts(node: ast.AST) -> ast.AST:
    """cast(T, x) -> x (typing-only noise)."""

    class T(ast.NodeTransformer):
        def visit_Call(self, n: ast.Call):
            self.generic_visit(n)
            if call_name(n) in ("cast", "typing.cast") and len(n.args) == 2:
                return n.args[1]
            return n

    return T().visit(clone(node))


def nsrc(node: ast.AST) -> str:
    return src(strip_casts(node))


def constructors_of(handler: ast.FunctionDef, module) -> List[Tuple[ast.Call, ast.AST]]:
    """(construct_result call, constructor function node or Name for builtins)."""
    res = []
    for c in calls_in(handler):
        if call_name(c) == "construct_result" and len(c.args) == 2:
            ctor = c.args[0]
            if isinstance(ctor, ast.Lambda):
                res.append((c, ctor))
            elif isinstance(ctor, ast.Name):
                target = resolve_handler(ctor, c, module)
                res.append((c, target if target is not None else ctor))
            else:
                res.append((c, ctor))
    return res


def ctor_param(ctor: ast.AST) -> Optional[str]:
    if isinstance(ctor, (ast.Lambda, ast.FunctionDef)):
        a = ctor.args
        if len(a.args) == 1:
            return a.args[0].arg
    return None


def ctor_body_exprs(ctor: ast.AST) -> List[ast.AST]:
    if isinstance(ctor, ast.Lambda):
        return [ctor.body]
    if isinstance(ctor, ast.FunctionDef):
        return list(ctor.body)
    return []


def ctor_return_exprs(ctor: ast.AST) -> List[ast.expr]:
    if isinstance(ctor, ast.Lambda):
        return [ctor.body]
    if isinstance(ctor, ast.FunctionDef):
        return [n.value for n in walk_local(ctor) if isinstance(n, ast.Return) and n.value is not None]
    return []


def _refs_param(node: ast.AST, p: str) -> bool:
    return any(isinstance(n, ast.Name) and n.id == p for n in ast.walk(node))


def _in_try_catching(node: ast.AST, exc_names: Tuple[str, ...], stop: ast.AST) -> bool:
    cur = node
    par = getattr(cur, "_parent", None)
    while par is not None and cur is not stop:
        if isinstance(par, ast.Try) and cur in par.body:
            for h in par.handlers:
                if h.type is None:
                    return True
                names = [dotted(e) for e in (h.type.elts if isinstance(h.type, ast.Tuple) else [h.type])]
                if any(n in exc_names or n in ("Exception", "BaseException") for n in names):
                    return True
        cur, par = par, getattr(par, "_parent", None)
    return False


def _facts_text(node: ast.AST, stop: ast.AST) -> List[Tuple[str, bool]]:
    out = []
    for f in facts(node, inherit_closure=False):
        try:
            t = nsrc(ast.parse(f.text, mode="eval").body)
        except SyntaxError:
            t = f.text
        out.append((t, f.positive))
        try:
            e = ast.parse(t, mode="eval").body
            if isinstance(e, ast.Compare) and len(e.ops) == 1 and isinstance(e.ops[0], (ast.Eq, ast.NotEq, ast.Is, ast.IsNot)):
                out.append((nsrc(ast.Compare(left=e.comparators[0], ops=e.ops, comparators=[e.left])), f.positive))
        except SyntaxError:
            pass
    return out


# ---------------------------------------------------------------------------


def handlers_table(ctx):
    fn = ctx.repo.func(Z3H, "evaluate_z3_expression", "C05.R1")
    tables = check_flow_arity(ctx, "R1-arity", fn, min_handlers=30)
    t = tables[0]
    module = module_of(fn)
    handlers = []
    for h in t.handlers:
        target = resolve_handler(h, t.call, module)
        handlers.append((src(h), target))
    return fn, t, handlers


def rule_r1(ctx):
    fn, t, handlers = handlers_table(ctx)
    module = module_of(fn)
    # the table must end with a handler that never returns Nothing (the fallback),
    # otherwise the flow leaves a bare `Nothing` to the Result-typed callers
    last_name, last = handlers[-1]
    rets = [n for n in walk_local(last) if isinstance(n, ast.Return)]
    is_failure = bool(rets) and all(isinstance(r.value, ast.Call) and call_name(r.value) == "Failure" for r in rets)
    ctx.check(
        is_failure,
        "R1-fallback-last",
        f"{Z3H}:evaluate_z3_expression",
        f"last handler {last_name}",
        site(last),
        "last entry of the dispatch table must be the fallback returning Failure(NotImplementedError) on every path",
        "fallback returns Failure on every path",
    )
    # A2: every other handler starts with a responsibility guard returning Nothing
    kinds: Dict[str, str] = {}
    for name, h in handlers[:-1]:
        g = first_guard(h)
        if g is None:
            raise Unrecognised("C05.R1-guard", f"{Z3H}:{name}", "handler does not start with `if <not responsible>: return Nothing`")
        key = f"{g.kind}:{','.join(g.values)}"
        ctx.check(
            key not in kinds,
            "R1-guard-unique",
            f"{Z3H}:{name}",
            key,
            site(h),
            f"guard {key} is also the guard of {kinds.get(key)}; the later handler is dead and the operator it was written for has lost its case",
            "responsibility guard is unique in the table",
        )
        kinds.setdefault(key, name)
    ctx.inventory["fast_path_guards"] = sorted(kinds)
    ctx.floor("R1-arity", 30)


def rule_r2(ctx):
    # consumers: every call of evaluate_z3_expression outside its own body must be the head
    # of a method chain that contains .lash(<fallback>)
    n_consumers = 0
    for rel in (Z3H, EVAL, LANG, "src/isla/solver.py", "src/isla/isla_predicates.py", "src/isla/helpers.py", "src/isla/existential_helpers.py"):
        m = ctx.repo.module(rel, "C05.R2")
        for c in calls_in(m.tree):
            if call_name(c) != "evaluate_z3_expression":
                continue
            owner = qual(c)
            if owner.startswith("evaluate_z3_expression"):
                continue
            n_consumers += 1
            chain = []
            cur = c
            while True:
                p = getattr(cur, "_parent", None)
                if isinstance(p, ast.Attribute) and isinstance(getattr(p, "_parent", None), ast.Call) and p._parent.func is p:
                    chain.append((p.attr, p._parent))
                    cur = p._parent
                    continue
                break
            lashes = [call for a, call in chain if a == "lash"]
            in_try = _in_try_catching(c, ("NotImplementedError",), m.tree)
            construct = f"{rel}:{owner}"
            if not lashes and not in_try:
                ctx.viol("R2-consumer-fallback", construct, "evaluate_z3_expression(...)", site(c),
                         "result of the fast path is consumed without a .lash(<Z3 fallback>): operators without a Python case yield Failure and .unwrap() raises")
                continue
            # the lash handler must reach z3_solve / is_valid
            ok = False
            for l in lashes:
                names = set()
                for n in ast.walk(l.args[0]):
                    if isinstance(n, ast.Name):
                        names.add(n.id)
                fnode = enclosing_def(c)
                reach = set(names)
                # follow local nested defs named in the handler
                if fnode is not None:
                    for sub in ast.walk(fnode):
                        if isinstance(sub, ast.FunctionDef) and sub.name in names:
                            reach |= {call_name(x) or "" for x in calls_in(sub)}
                for n in ast.walk(l.args[0]):
                    if isinstance(n, ast.Call):
                        reach.add(call_name(n) or "")
                if reach & {"z3_solve", "is_valid", "solve_using_z3"}:
                    ok = True
            ctx.check(ok, "R2-consumer-fallback", construct, "evaluate_z3_expression(...).lash", site(c),
                      "the .lash handler of the fast-path consumer does not reach z3_solve / is_valid", "falls back to Z3")
    if n_consumers < 2:
        raise Unrecognised("C05.R2", "consumers of evaluate_z3_expression", f"only {n_consumers} found (expected is_valid and evaluate_smt_formula)")

    # is_valid: verdict mapping
    isv = ctx.repo.func(Z3H, "is_valid", "C05.R2")
    zmod = module_of(isv)
    # the verdict logic may sit in is_valid itself or in a module-level helper it delegates to (inlining bound 1)
    scopes = [isv] + [zmod.get(call_name(c)) for c in calls_in(isv) if isinstance(zmod.get(call_name(c) or ""), ast.FunctionDef) and (call_name(c) or "").lstrip("_").startswith("is_valid")]
    solve = None
    for scope in scopes:
        for n in ast.walk(scope):
            if isinstance(n, ast.FunctionDef) and n is not scope and any(call_name(c) == "z3_solve" for c in calls_in(n)):
                solve = n
                isv_logic = scope
    if solve is not None:
        isv = isv_logic
    if solve is None:
        raise Unrecognised("C05.R2-z3-mapping", f"{Z3H}:is_valid", "nested function calling z3_solve not found")
    zc = [c for c in calls_in(solve) if call_name(c) == "z3_solve"][0]
    arg0 = zc.args[0] if zc.args else None
    neg_ok = isinstance(arg0, (ast.List, ast.Tuple)) and len(arg0.elts) == 1 and nsrc(arg0.elts[0]) == "z3.Not(formula)"
    ctx.check(neg_ok, "R2-z3-mapping", f"{Z3H}:is_valid.{solve.name}", "z3_solve argument", site(zc),
              f"validity must be decided by checking the negation [z3.Not(formula)], found {src(arg0)}", "validity = unsat of negation")
    mapping = {}
    for n in walk_local(solve):
        if isinstance(n, ast.If):
            cur = n
            while isinstance(cur, ast.If):
                t = cur.test
                if isinstance(t, ast.Compare) and len(t.ops) == 1 and isinstance(t.ops[0], ast.Eq):
                    rhs = src(t.comparators[0])
                    rets = [s for s in cur.body if isinstance(s, ast.Return)]
                    if rets:
                        mapping[rhs] = src(rets[0].value)
                if cur.orelse and len(cur.orelse) == 1 and isinstance(cur.orelse[0], ast.If):
                    cur = cur.orelse[0]
                else:
                    rets = [s for s in cur.orelse if isinstance(s, ast.Return)]
                    if rets:
                        mapping["else"] = src(rets[0].value)
                    break
            break
    want = {"z3.unsat": "ThreeValuedTruth.true()", "z3.sat": "ThreeValuedTruth.false()", "else": "ThreeValuedTruth.unknown()"}
    if not mapping:
        raise Unrecognised("C05.R2-z3-mapping", f"{Z3H}:is_valid.{solve.name}", "if/elif/else over the z3 result not found")
    for k, v in want.items():
        ctx.check(mapping.get(k) == v, "R2-z3-mapping", f"{Z3H}:is_valid.{solve.name}", f"{k}", site(solve),
                  f"result {k} of the negation must map to {v}, found {mapping.get(k)}", "mapping as specified")
    # process_eval_result: from_bool(eval_result[1]) unnegated
    per = None
    for n in ast.walk(isv):
        if isinstance(n, ast.FunctionDef) and n is not isv and any(call_name(c) == "ThreeValuedTruth.from_bool" for c in calls_in(n)):
            per = n
    if per is None:
        raise Unrecognised("C05.R2-fast-verdict", f"{Z3H}:is_valid", "nested function converting the fast-path result not found")
    p = per.args.args[0].arg
    for c in calls_in(per):
        if call_name(c) == "ThreeValuedTruth.from_bool":
            ctx.check(nsrc(c.args[0]) == f"{p}[1]", "R2-fast-verdict", f"{Z3H}:is_valid.{per.name}", "from_bool argument", site(c),
                      f"the fast-path verdict must be from_bool({p}[1]) (the evaluated value), found {src(c.args[0])}", "verdict is the evaluated value")
    # language.py: ground formulas decided only through is_valid
    subst = ctx.repo.func(LANG, "SMTFormula.substitute_expressions", "C05.R2")
    atoms = [c for c in calls_in(subst) if call_name(c) == "smt_atom"]
    if not atoms:
        raise Unrecognised("C05.R2-auto-eval", f"{LANG}:SMTFormula.substitute_expressions", "smt_atom(...) auto-evaluation not found")
    for a in atoms:
        ok = _re.fullmatch(r"is_valid\(\w+\)\.to_bool\(\)", src(a.args[0])) is not None
        ctx.check(ok, "R2-auto-eval", f"{LANG}:SMTFormula.substitute_expressions", "smt_atom argument", site(a),
                  f"ground SMT formulas must be decided by is_valid(<substituted formula>).to_bool(), found {src(a.args[0])}", "decided by is_valid")
        # and the substituted formula must be the one handed to is_valid
        fs = [f.text for f in facts(a)]
        ok2 = any("len(new_free_variables) + len(new_instantiated_variables) == 0" in f for f in fs)
        ctx.check(ok2, "R2-auto-eval-ground", f"{LANG}:SMTFormula.substitute_expressions", "groundness gate", site(a),
                  "auto-evaluation must be dominated by 'no free and no instantiated variables left'", "gated by groundness")


def rule_r3(ctx):
    """May-raise over fast-path constructors."""
    fn, t, handlers = handlers_table_cached(ctx)
    module = module_of(fn)
    n = 0
    for name, h in handlers[:-1]:
        for call, ctor in constructors_of(h, module):
            p = ctor_param(ctor)
            if p is None:
                if isinstance(ctor, ast.Name) and ctor.id in ("sum", "prod", "all", "any", "max", "min"):
                    ctx.ok("R3-may-raise", f"{Z3H}:{name}", f"builtin {ctor.id}", site(call), "total builtin over the children tuple")
                    n += 1
                    continue
                raise Unrecognised("C05.R3", f"{Z3H}:{name}", f"constructor {src(ctor)} not understood")
            construct = f"{Z3H}:{name}"
            g = first_guard(h)
            gtxt = f" [guard {g.kind}:{','.join(g.values)}]" if g is not None else ""
            found_effect = scan_effects(ctx, module, construct, ctor_body_exprs(ctor), {p}, ctor, p, 0, set(), gtxt)
            if not found_effect:
                ctx.ok("R3-may-raise", construct, f"constructor {nsrc(ctor)[:60]}", site(call), "no raising construct in the constructor")
            n += 1
    if n < 25:
        raise Unrecognised("C05.R3", f"{Z3H}:evaluate_z3_expression", f"only {n} constructors analysed (expected >= 25)")


def scan_effects(ctx, module, construct, bodies, tainted, stop, tuple_param, depth, seen, gtxt="") -> bool:
    """May-raise / wraparound effects of expressions over SMT values.  `tainted` = names holding SMT-derived values;
    `tuple_param` = the constructor's children tuple (constant index into it is operator arity, not a string index).
    Calls to helper functions defined in the same module are followed (inlining bound 2)."""
    found_effect = False
    # taint closure: local names bound (also by tuple unpacking / loops / walrus) to expressions over tainted names are tainted
    tainted = set(tainted)
    changed = True
    while changed:
        changed = False
        for body in bodies:
            for a in ast.walk(body):
                pairs = []
                if isinstance(a, ast.Assign):
                    pairs = [(t_, a.value) for t_ in a.targets]
                elif isinstance(a, (ast.AnnAssign, ast.AugAssign)) and a.value is not None:
                    pairs = [(a.target, a.value)]
                elif isinstance(a, ast.NamedExpr):
                    pairs = [(a.target, a.value)]
                elif isinstance(a, (ast.For, ast.comprehension)):
                    pairs = [(a.target, a.iter)]
                for tgt, val in pairs:
                    if any(isinstance(n, ast.Name) and n.id in tainted for n in ast.walk(val)):
                        for n in ast.walk(tgt):
                            if isinstance(n, ast.Name) and n.id not in tainted:
                                tainted.add(n.id)
                                changed = True

    def refs(node):
        return any(isinstance(n, ast.Name) and n.id in tainted for n in ast.walk(node))

    for body in bodies:
        for node in ast.walk(body):
            # --- subscripts
            if isinstance(node, ast.Subscript) and isinstance(node.ctx, ast.Load):
                base = strip_casts(node.value)
                if isinstance(base, ast.Name) and base.id == tuple_param and isinstance(node.slice, ast.Constant):
                    continue  # args[k]: tuple index, operator arity
                if isinstance(base, ast.Call) and call_name(base) == "expr.params":
                    continue
                if not refs(node):
                    continue
                ft = _facts_text(node, stop)
                found_effect = True
                if isinstance(node.slice, ast.Slice):
                    lo = nsrc(node.slice.lower) if node.slice.lower is not None else None
                    hi = nsrc(node.slice.upper) if node.slice.upper is not None else None
                    need = []
                    if lo is not None and not isinstance(strip_casts(node.slice.lower), ast.Constant):
                        need.append(f"{lo} >= 0")
                    if hi is not None and lo is not None and hi.startswith(lo + " + "):
                        d = hi[len(lo) + 3 :]
                        if not d.isdigit():
                            need.append(f"{d} > 0")
                    elif hi is not None and not isinstance(strip_casts(node.slice.upper), ast.Constant):
                        need.append(f"{hi} >= 0")

                    def have(x):
                        alts = {x, x.replace(" > 0", " >= 0")}
                        m = _re.fullmatch(r"(.+) >= 0", x)
                        if m:
                            alts |= {f"0 <= {m.group(1)}"}
                        m = _re.fullmatch(r"(.+) > 0", x)
                        if m:
                            alts |= {f"0 < {m.group(1)}", f"{m.group(1)} >= 1"}
                            # `length <= 0` known false
                            if (f"{m.group(1)} <= 0", False) in ft:
                                return True
                        m = _re.fullmatch(r"(.+) >= 0", x)
                        if m and (f"{m.group(1)} < 0", False) in ft:
                            return True
                        return any((a, True) in ft for a in alts) or any(pos and t.startswith(f"0 <= {x.split(' ')[0]} <") for t, pos in ft)

                    missing = [x for x in need if not have(x)]
                    ctx.check(not missing, "R3-wraparound", construct, nsrc(node), site(node),
                              f"slice bounds come from SMT integers; without {missing} a negative value wraps around (Python) where SMT-LIB yields the empty string",
                              f"slice guarded by {need}")
                else:
                    idx = nsrc(node.slice)
                    upper = any(pos and (t.startswith(f"0 <= {idx} < len(") or t == f"{idx} < len({nsrc(node.value)})") for t, pos in ft)
                    lower = isinstance(strip_casts(node.slice), ast.Constant) or any(
                        (pos and (t.startswith(f"0 <= {idx} <") or t in (f"{idx} >= 0", f"0 <= {idx}", f"{idx} > -1"))) or ((not pos) and t in (f"{idx} < 0", f"0 > {idx}")) for t, pos in ft)
                    if upper and not lower:
                        ctx.viol("R3-wraparound", construct, f"negative index: {nsrc(node)}", site(node),
                                 f"`{nsrc(node)}` is guarded from above only: a negative SMT integer index wraps around in Python (s[-1] is the last character) where SMT-LIB str.at yields the empty string")
                        continue
                    guarded = upper or _in_try_catching(node, ("IndexError", "LookupError"), stop)
                    ctx.check(guarded, "R3-may-raise", construct, f"IndexError: {nsrc(node)}", site(node),
                              "indexing a string with an SMT integer raises IndexError when out of range (SMT-LIB: empty string); no bounds guard or handler dominates it",
                              "index guarded")
            # --- division
            if isinstance(node, ast.BinOp) and isinstance(node.op, (ast.Div, ast.FloorDiv, ast.Mod)):
                if isinstance(node.left, ast.Constant) and isinstance(node.left.value, str):
                    continue  # string formatting
                if not refs(node.right):
                    continue
                found_effect = True
                ft = _facts_text(node, stop)
                d = nsrc(node.right)
                inner = d
                m = _re.fullmatch(r"(?:abs|float|int)\((.*)\)", d)
                if m:
                    inner = m.group(1)
                guarded = any((t in (f"{d} == 0", f"{inner} == 0") and not pos) or (t in (f"{d} != 0", f"{inner} != 0") and pos) for t, pos in ft)
                guarded = guarded or _in_try_catching(node, ("ZeroDivisionError", "ArithmeticError"), stop)
                ctx.check(guarded, "R3-may-raise", construct, f"ZeroDivisionError: {nsrc(node)}{gtxt}", site(node),
                          "a zero divisor raises ZeroDivisionError out of the fast path instead of being answered (Z3 treats division by zero as an uninterpreted value)",
                          "divisor guarded")
            # --- ord
            if isinstance(node, ast.Call) and call_name(node) == "ord" and node.args:
                found_effect = True
                a = nsrc(node.args[0])
                ft = _facts_text(node, stop)
                guarded = (f"len({a}) == 1", True) in ft or _in_try_catching(node, ("TypeError",), stop)
                ctx.check(guarded, "R3-may-raise", construct, f"TypeError: {nsrc(node)}", site(node),
                          "ord() raises TypeError unless the string has exactly one character (SMT-LIB str.to_code: -1)", "guarded by len == 1")
            # --- int()/float() of a str
            if isinstance(node, ast.Call) and call_name(node) in ("int",) and node.args and isinstance(strip_casts(node.args[0]), ast.Name) and depth == 0:
                found_effect = True
                guarded = _in_try_catching(node, ("ValueError",), stop)
                ctx.check(guarded, "R3-may-raise", construct, f"ValueError: {nsrc(node)}", site(node),
                          "int() of a child string raises ValueError for non-numerals and no handler converts it", "ValueError handled")
            if isinstance(node, ast.Raise):
                exc = call_name(node.exc) if isinstance(node.exc, ast.Call) else dotted(node.exc) if node.exc else None
                found_effect = True
                ctx.check(exc == "DomainError", "R3-may-raise", construct, f"raise {exc}", site(node),
                          f"constructor raises {exc}; only DomainError (non-numeral str.to.int, excluded by the property) is accepted", "DomainError is the documented exclusion")
            # --- helper functions of the same module: follow (the effect does not disappear by moving it into a helper)
            if isinstance(node, ast.Call) and isinstance(node.func, ast.Name) and depth < 2:
                callee = module.get(node.func.id)
                if isinstance(callee, ast.FunctionDef) and callee.name not in seen and any(refs(a) for a in node.args) and callee.name not in ("evaluate_z3_expression", "construct_result"):
                    params = {a.arg for a in callee.args.args}
                    sub = scan_effects(ctx, module, f"{construct}->{callee.name}", list(callee.body), params, callee, None, depth + 1, seen | {callee.name}, gtxt)
                    found_effect = found_effect or sub
    return found_effect


_cache = {}


def handlers_table_cached(ctx):
    if "t" not in _cache:
        fn = ctx.repo.func(Z3H, "evaluate_z3_expression", "C05")
        from ..dispatch import find_flow_tables

        tables = find_flow_tables(fn)
        if not tables:
            raise Unrecognised("C05", f"{Z3H}:evaluate_z3_expression", "dispatch table not found")
        t = tables[0]
        module = module_of(fn)
        handlers = []
        for h in t.handlers:
            target = resolve_handler(h, t.call, module)
            if target is None:
                raise Unrecognised("C05", f"{Z3H}:evaluate_z3_expression", f"handler {src(h)} unresolved")
            handlers.append((src(h), target))
        _cache["t"] = (fn, t, handlers)
    return _cache["t"]


# ---------------------------------------------------------------------------
# R4 / R5 regex fragments

CAT_ORDER = {"ATOM": 0, "POSTFIX": 1, "SEQ": 2, "ALT": 3, "RAW": 9}
QUANT = set("*+?{")


def is_regex_guard(g) -> bool:
    if g.kind == "z3kind":
        v = g.values[0]
        return v.startswith("z3.Z3_OP_RE_") or v == "z3.Z3_OP_SEQ_TO_RE"
    if g.kind == "z3name":
        return g.values[0].strip("'\"").startswith("re.")
    return False


def regex_template(ctor: ast.AST, p: str) -> Optional[List[object]]:
    """Template of the regex source the constructor returns."""
    rets = ctor_return_exprs(ctor)
    if len(rets) != 1:
        return None
    r = strip_casts(rets[0])
    if isinstance(r, ast.Call) and call_name(r) == "re.escape":
        return [Slot(r)]
    if isinstance(r, ast.Call) and isinstance(r.func, ast.Attribute) and r.func.attr == "join" and isinstance(r.func.value, ast.Constant) and r.func.value.value == "":
        return [Slot(r)]  # "".join(args): juxtaposition of all children
    return template(r)


def skeleton_category(tpl: List[object]) -> str:
    """Syntactic category of a regex template; slots are opaque and balanced."""
    s = ""
    for part in tpl:
        if isinstance(part, str):
            s += part
        else:
            e = part.expr
            if isinstance(e, ast.Call) and call_name(e) == "re.escape":
                s += "\x01"  # escaped literal sequence
            elif isinstance(e, ast.Call) and isinstance(e.func, ast.Attribute) and e.func.attr == "join":
                s += "\x02"  # juxtaposed children
            else:
                s += "\x03"  # a child regex or raw text
    if s in ("\x01", "\x02"):
        return "SEQ"
    # strip one trailing quantifier
    core = s
    quantified = False
    m = _re.fullmatch(r"(.*?)(\*\??|\+\??|\?\??|\{[^{}]*\})", s, _re.S)
    if m and m.group(1):
        core, quantified = m.group(1), True
    if core.startswith("[") and core.endswith("]") and core.count("[") == 1:
        return "POSTFIX" if quantified else "ATOM"
    if core == ".":
        return "POSTFIX" if quantified else "ATOM"
    if core.startswith("(") and core.endswith(")"):
        depth = 0
        closed_early = False
        for i, ch in enumerate(core):
            if ch == "(":
                depth += 1
            elif ch == ")":
                depth -= 1
                if depth == 0 and i != len(core) - 1:
                    closed_early = True
        if not closed_early and depth == 0:
            return "POSTFIX" if quantified else "ATOM"
    # top-level alternation?
    depth = 0
    for ch in s:
        if ch == "(":
            depth += 1
        elif ch == ")":
            depth -= 1
        elif ch == "|" and depth == 0:
            return "ALT"
    return "SEQ"


def slot_requirements(tpl: List[object]) -> List[Tuple[Slot, str]]:
    """For every slot: the loosest category a producer may have there."""
    res = []
    for i, part in enumerate(tpl):
        if not isinstance(part, Slot):
            continue
        before = "".join(x for x in tpl[:i] if isinstance(x, str))
        prev = tpl[i - 1] if i > 0 else ""
        nxt = tpl[i + 1] if i + 1 < len(tpl) else ""
        prev_s = prev if isinstance(prev, str) else "\x03"
        next_s = nxt if isinstance(nxt, str) else "\x03"
        # inside a character class?
        in_class = before.count("[") > before.count("]")
        if in_class:
            res.append((part, "CLASSBODY"))
            continue
        if prev_s.endswith("(") and next_s.startswith(")"):
            res.append((part, "ANY"))
            continue
        if next_s[:1] in QUANT and next_s[:1] != "":
            res.append((part, "ATOM"))
            continue
        res.append((part, "SEQ"))
    return res


def is_int_text(e: ast.AST, scope: ast.AST, depth: int = 0) -> bool:
    """Text made only of integer declaration parameters (`X.params()[k]`), digits and commas - what may stand inside a `{m,n}` quantifier."""
    if depth > 4:
        return False
    e = strip_casts(e)
    if isinstance(e, ast.Constant):
        return isinstance(e.value, int) or (isinstance(e.value, str) and _re.fullmatch(r"[0-9,]*", e.value) is not None)
    if isinstance(e, ast.Subscript) and isinstance(e.slice, ast.Constant):
        b = e.value
        if isinstance(b, ast.Call) and isinstance(b.func, ast.Attribute) and b.func.attr == "params" and not b.args:
            return True
        if isinstance(b, ast.Name):
            v = single_assignment_in(scope, b.id)
            return v is not None and isinstance(v, ast.Call) and isinstance(v.func, ast.Attribute) and v.func.attr == "params" and not v.args
        return False
    if isinstance(e, ast.JoinedStr):
        return all(is_int_text(v.value if isinstance(v, ast.FormattedValue) else v, scope, depth + 1) for v in e.values)
    if isinstance(e, ast.IfExp):
        return is_int_text(e.body, scope, depth + 1) and is_int_text(e.orelse, scope, depth + 1)
    if isinstance(e, ast.BinOp) and isinstance(e.op, ast.Add):
        return is_int_text(e.left, scope, depth + 1) and is_int_text(e.right, scope, depth + 1)
    if isinstance(e, ast.Name):
        v = single_assignment_in(scope, e.id)
        return v is not None and is_int_text(v, scope, depth + 1)
    if isinstance(e, ast.Call) and call_name(e) == "str" and len(e.args) == 1:
        return is_int_text(e.args[0], scope, depth + 1)
    return False


def single_assignment_in(scope: ast.AST, name: str):
    """value of the only plain assignment `name = value` anywhere below `scope` (closures read the handler's locals)"""
    found = [a for a in ast.walk(scope) if isinstance(a, ast.Assign) and len(a.targets) == 1 and isinstance(a.targets[0], ast.Name) and a.targets[0].id == name]
    return found[0].value if len(found) == 1 else None


def rule_r4_r5(ctx):
    fn, t, handlers = handlers_table_cached(ctx)
    module = module_of(fn)
    producers: Dict[str, str] = {}
    templates = {}
    emits_dot = []
    for name, h in handlers[:-1]:
        g = first_guard(h)
        if g is None or not is_regex_guard(g):
            continue
        ctors = constructors_of(h, module)
        if not ctors:
            # constant regex: Some(((), "<regex>"))
            consts = [n for n in ast.walk(h) if isinstance(n, ast.Constant) and isinstance(n.value, str) and isinstance(getattr(n, "_parent", None), ast.Tuple)]
            if len(consts) != 1:
                raise Unrecognised("C05.R4", f"{Z3H}:{name}", "regex handler without construct_result and without a single constant fragment")
            tpl = [consts[0].value]
            templates[name] = (tpl, consts[0], None)
        else:
            call, ctor = ctors[0]
            p = ctor_param(ctor)
            tpl = regex_template(ctor, p) if p else None
            if tpl is None:
                raise Unrecognised("C05.R4", f"{Z3H}:{name}", f"regex constructor {nsrc(ctor)[:80]} is not a recognised template")
            templates[name] = (tpl, call, p)
        cat = skeleton_category(tpl)
        producers[name] = cat
        lit = "".join(x for x in tpl if isinstance(x, str))
        if _re.search(r"(?<!\\)\.", lit):
            emits_dot.append(name)
    if len(producers) < 8:
        raise Unrecognised("C05.R4", f"{Z3H}:evaluate_z3_expression", f"only {len(producers)} regex producers recognised (expected >= 8)")
    ctx.inventory["regex_producers"] = producers
    worst = max(producers.values(), key=lambda c: CAT_ORDER[c])
    for name, (tpl, node, p) in templates.items():
        for slot, need in slot_requirements(tpl):
            e = slot.expr
            key = f"slot {src(e)} needs {need}"
            construct = f"{Z3H}:{name}"
            if need == "CLASSBODY":
                ok = isinstance(e, ast.Call) and call_name(e) == "re.escape"
                ctx.check(ok, "R4-regex-compose", construct, key, site(node),
                          "text placed inside a character class [...] must be escaped for that context (e.g. a range endpoint '\\\\', '^' or ']' changes the class)",
                          "class-body slot is re.escape()d")
                continue
            if isinstance(e, ast.Call) and call_name(e) == "re.escape":
                ctx.ok("R4-regex-compose", construct, key, site(node), "literal text escaped by re.escape")
                continue
            # child regex slot(s)
            is_child = (isinstance(e, ast.Subscript) and isinstance(e.value, ast.Name) and e.value.id == p) or (
                isinstance(e, ast.Call) and isinstance(e.func, ast.Attribute) and e.func.attr == "join"
            ) or (isinstance(e, ast.Call) and call_name(e) == "expr.params") or (isinstance(e, ast.Subscript) and nsrc(e.value) == "expr.params()")
            if is_int_text(e, dict(handlers).get(name, fn)):
                ctx.ok("R4-regex-compose", construct, key, site(node), "loop bound parameter(s) (integers and commas only)")
                continue
            if not is_child:
                ctx.viol("R4-regex-compose", construct, key, site(node), "regex slot receives text that is neither a child regex nor re.escape()d (category RAW)")
                continue
            if need == "ANY":
                ctx.ok("R4-regex-compose", construct, key, site(node), "slot is directly parenthesised")
                continue
            bad = sorted(n for n, c in producers.items() if CAT_ORDER[c] > CAT_ORDER[need])
            ctx.check(not bad, "R4-regex-compose", construct, key, site(node),
                      f"slot requires category <= {need} but any regex operator may nest here and producers {bad} have a looser category "
                      f"({', '.join(producers[b] for b in bad)}): the quantifier/juxtaposition binds to a part of the child only",
                      f"all {len(producers)} producers have category <= {need}")
    # R5 anchoring
    inre = None
    for name, h in handlers[:-1]:
        g = first_guard(h)
        if g is not None and g.kind == "z3kind" and g.values[0] == "z3.Z3_OP_SEQ_IN_RE":
            inre = (name, h)
    if inre is None:
        raise Unrecognised("C05.R5", f"{Z3H}:evaluate_z3_expression", "handler guarded by Z3_OP_SEQ_IN_RE not found")
    name, h = inre
    ctors = constructors_of(h, module)
    if not ctors:
        raise Unrecognised("C05.R5", f"{Z3H}:{name}", "no constructor")
    call, ctor = ctors[0]
    p = ctor_param(ctor)
    re_calls = [c for c in calls_in(ctor) if (call_name(c) or "").startswith("re.")]
    if len(re_calls) != 1:
        # a pattern compiled elsewhere: judge the anchoring of that compilation if it is visible in this module
        comp = [c for q_, f_ in module.functions() for c in calls_in(f_) if call_name(c) == "re.compile" and c.args and isinstance(c.args[0], (ast.JoinedStr, ast.BinOp, ast.Constant))]
        used = [c for c in calls_in(ctor) if isinstance(c.func, ast.Attribute) and c.func.attr in ("match", "search", "fullmatch") and not (call_name(c) or "").startswith("re.")]
        # `helper(pattern).fullmatch(subject)` with a module-level helper that returns re.compile(<its parameter>[, flags]) (e.g. a cached compilation)
        via = [c for c in used if isinstance(c.func.value, ast.Call) and isinstance(c.func.value.func, ast.Name) and isinstance(module.get(c.func.value.func.id), ast.FunctionDef)]
        if not re_calls and len(via) == 1 and len(used) == 1:
            u = via[0]
            hf = module.get(u.func.value.func.id)
            hp = [a.arg for a in hf.args.args]
            rets = [r for r in walk_local(hf) if isinstance(r, ast.Return) and r.value is not None]
            if len(rets) == 1 and isinstance(rets[0].value, ast.Call) and call_name(rets[0].value) == "re.compile" and rets[0].value.args and isinstance(rets[0].value.args[0], ast.Name) and rets[0].value.args[0].id in hp:
                cc = rets[0].value
                construct = f"{Z3H}:{name}"
                flags = " ".join(src(a) for a in cc.args[1:]) + " ".join(src(k.value) for k in cc.keywords)
                ctx.check(u.func.attr == "fullmatch", "R5-anchoring", construct, "full match", site(u), f"`.{u.func.attr}` on the compiled pattern is not an exact full match", "Pattern.fullmatch anchors both ends exactly")
                pat = u.func.value.args[hp.index(cc.args[0].id)] if len(u.func.value.args) > hp.index(cc.args[0].id) else None
                subj = u.args[0] if u.args else None
                ctx.check(pat is not None and subj is not None and nsrc(pat).find(f"{p}[1]") >= 0 and nsrc(subj) == f"{p}[0]", "R5-child-order", construct, "pattern=child 1, subject=child 0", site(u),
                          f"str.in_re has the string as child 0 and the regex as child 1; found pattern={src(pat) if pat is not None else None} subject={src(subj) if subj is not None else None}", "child order as in Z3")
                if emits_dot:
                    ctx.check("DOTALL" in flags or "re.S" in flags.split(), "R5-dotall", construct, f"'.' emitted by {','.join(sorted(emits_dot))}", site(cc),
                              f"producers {emits_dot} emit '.', which excludes newline unless the pattern is compiled with re.DOTALL (`{src(cc)}` in {hf.name}): \"a\\nb\" in re.all is judged false",
                              "DOTALL set")
                body = ctor_return_exprs(ctor)[0]
                okform = isinstance(body, ast.Compare) and isinstance(body.ops[0], ast.IsNot) and is_none(body.comparators[0]) and body.left is u
                ctx.check(okform, "R5-result", construct, "match(...) is not None", site(u), f"membership verdict must be `<match> is not None`, found {nsrc(body)}", "verdict is match success")
                return
        if not re_calls and used and comp:
            lit = "".join(x for x in (template(comp[0].args[0]) or []) if isinstance(x, str))
            exact = used[0].func.attr == "fullmatch" or lit.endswith("\\Z")
            ctx.check(exact, "R5-anchoring", f"{Z3H}:{name}", "full match", site(used[0]),
                      f"the subject is matched with `.{used[0].func.attr}` against a pattern compiled as `{src(comp[0].args[0])[:40]}`: '$' also matches before a trailing newline, so "
                      "\"ab\\n\" in (re.+ (re.range \"a\" \"z\")) is judged true where Z3 says false", "re.fullmatch or \\Z")
            return
        raise Unrecognised("C05.R5", f"{Z3H}:{name}", "expected exactly one re.<match function> call")
    rc = re_calls[0]
    fnname = call_name(rc)
    construct = f"{Z3H}:{name}"
    flags = " ".join(src(a) for a in rc.args[2:]) + " ".join(src(k.value) for k in rc.keywords)
    pat = rc.args[0] if rc.args else None
    subj = rc.args[1] if len(rc.args) > 1 else None
    if fnname == "re.fullmatch":
        ctx.ok("R5-anchoring", construct, "full match", site(rc), "re.fullmatch anchors both ends exactly")
    else:
        tpl = template(pat) if pat is not None else None
        lit = "".join(x for x in (tpl or []) if isinstance(x, str))
        anchored_exact = lit.endswith("\\Z") and fnname in ("re.match", "re.search") and (fnname == "re.match" or lit.startswith("^") or lit.startswith("\\A"))
        ctx.check(anchored_exact, "R5-anchoring", construct, "full match", site(rc),
                  f"{fnname}({src(pat)}, ...) is not an exact full match: '$' also matches before a trailing newline, so \"a\\n\" in (str.to_re \"a\") is judged true",
                  "anchored with \\Z")
    # child order: string is child 0, regex child 1
    ctx.check(pat is not None and subj is not None and nsrc(pat).find(f"{p}[1]") >= 0 and nsrc(subj) == f"{p}[0]",
              "R5-child-order", construct, "pattern=child 1, subject=child 0", site(rc),
              f"str.in_re has the string as child 0 and the regex as child 1; found pattern={src(pat)} subject={src(subj)}", "child order as in Z3")
    if emits_dot:
        ctx.check("DOTALL" in flags or "re.S" in flags.split(), "R5-dotall", construct, f"'.' emitted by {','.join(sorted(emits_dot))}", site(rc),
                  f"producers {emits_dot} emit '.', which excludes newline unless the match uses re.DOTALL: \"a\\nb\" in re.all is judged false",
                  "DOTALL set")
    # result must be the match outcome `is not None`
    body = ctor_return_exprs(ctor)[0]
    okform = isinstance(body, ast.Compare) and isinstance(body.ops[0], ast.IsNot) and is_none(body.comparators[0]) and body.left is rc
    ctx.check(okform, "R5-result", construct, "match(...) is not None", site(rc),
              f"membership verdict must be `<match> is not None`, found {nsrc(body)}", "verdict is match success")


def is_none(n):
    return isinstance(n, ast.Constant) and n.value is None


# ---------------------------------------------------------------------------
# R6 guard / body agreement

CMP = {ast.Lt: "<", ast.LtE: "<=", ast.Gt: ">", ast.GtE: ">=", ast.Eq: "==", ast.NotEq: "!="}
EXPECT_CMP = {
    "z3pred:z3.is_lt": "<",
    "z3pred:z3.is_le": "<=",
    "z3pred:z3.is_gt": ">",
    "z3pred:z3.is_ge": ">=",
    "z3pred:z3.is_eq": "==",
}
RECOGNISED_BAD_FOR_PRED = {
    "z3.is_idiv": (
        {"int(float(A[0]) / float(A[1]))", "A[0] // A[1]", "int(A[0] / A[1])"},
        "SMT-LIB integer `div` rounds so that the remainder is non-negative and is total (Z3 answers for a zero divisor); float division truncates towards zero "
        "((div (- 7) 2) = -4, not -3) and raises ZeroDivisionError",
    ),
}
EXPECT_TEXT = {
    "z3pred:z3.is_not": {"not A[0]"},
    "z3pred:z3.is_and": {"reduce(operator.and_, A)", "all(A)"},
    "z3pred:z3.is_or": {"reduce(operator.or_, A)", "any(A)"},
    "z3pred:z3.is_add": {"sum", "sum(A)", "reduce(operator.add, A)"},
    "z3pred:z3.is_mul": {"prod", "prod(A)", "math.prod", "reduce(operator.mul, A)"},
    "z3pred:z3.is_sub": {"A[0] - A[1]", "reduce(operator.sub, A)"},
    "z3pred:z3.is_mod": {"A[0] % abs(A[1])"},
    "z3kind:z3.Z3_OP_POWER": {"A[0] ** A[1]"},
    "z3kind:z3.Z3_OP_SEQ_LENGTH": {"len(A[0])"},
    "z3kind:z3.Z3_OP_SEQ_CONCAT": {"A[0] + A[1]", "''.join(A)"},
    "z3kind:z3.Z3_OP_SEQ_AT": {"A[0][A[1]:A[1] + 1] if A[1] >= 0 else ''", "A[0][A[1]:A[1] + 1] if 0 <= A[1] else ''", "A[0][A[1]] if 0 <= A[1] < len(A[0]) else ''"},
    "z3kind:z3.Z3_OP_SEQ_EXTRACT": {"A[0][A[1]:A[1] + A[2]] if A[1] >= 0 and A[2] > 0 else ''"},
    "z3kind:z3.Z3_OP_STR_TO_CODE": {"ord(A[0]) if len(A[0]) == 1 else -1"},
}
BINARY_SWAPPED = {"A[1] - A[0]", "A[1] + A[0]", "A[1] ** A[0]", "A[1] % abs(A[0])", "A[1] % A[0]", "len(A[1])", "not A[1]"}


def rule_r6(ctx):
    fn, t, handlers = handlers_table_cached(ctx)
    module = module_of(fn)
    n = 0
    for name, h in handlers[:-1]:
        g = first_guard(h)
        if g is None:
            continue
        key = f"{g.kind}:{','.join(g.values)}"
        for pred, (bad_bodies, why_bad) in RECOGNISED_BAD_FOR_PRED.items():
            if g.kind == "z3pred" and pred in g.values:
                ctors_ = constructors_of(h, module)
                for call_, ctor_ in ctors_:
                    p_ = ctor_param(ctor_)
                    rets_ = ctor_return_exprs(ctor_)
                    btxt = _re.sub(rf"\b{_re.escape(p_)}\b", "A", nsrc(rets_[0])) if p_ and len(rets_) == 1 else src(ctor_)
                    if btxt in bad_bodies:
                        ctx.viol("R6-guard-body", f"{Z3H}:{name}", f"{pred} -> SMT-LIB definition", site(call_), f"guard now also selects {pred} but the body is {btxt}: {why_bad}")
                    else:
                        raise Unrecognised("C05.R6", f"{Z3H}:{name}", f"body {btxt} for {pred} is not a recognised implementation shape")
                    n += 1
        if key not in EXPECT_CMP and key not in EXPECT_TEXT:
            continue
        ctors = constructors_of(h, module)
        if len(ctors) != 1:
            raise Unrecognised("C05.R6", f"{Z3H}:{name}", "expected exactly one construct_result call")
        call, ctor = ctors[0]
        construct = f"{Z3H}:{name}"
        p = ctor_param(ctor)
        if p is None:
            body_txt = src(ctor)
        else:
            rets = ctor_return_exprs(ctor)
            if len(rets) != 1:
                raise Unrecognised("C05.R6", construct, "constructor with several returns")
            body_txt = _re.sub(rf"\b{_re.escape(p)}\b", "A", nsrc(rets[0]))
        n += 1
        if key in EXPECT_CMP:
            body = strip_casts(ctor_return_exprs(ctor)[0]) if p else None
            if not (isinstance(body, ast.Compare) and len(body.ops) == 1 and type(body.ops[0]) in CMP):
                raise Unrecognised("C05.R6", construct, f"comparison handler body {body_txt} is not a single comparison")
            l, r = _re.sub(rf"\b{p}\b", "A", src(body.left)), _re.sub(rf"\b{p}\b", "A", src(body.comparators[0]))
            op = CMP[type(body.ops[0])]
            flip = {"<": ">", "<=": ">=", ">": "<", ">=": "<=", "==": "==", "!=": "!="}
            if (l, r) == ("A[1]", "A[0]"):
                op = flip[op]
            elif (l, r) != ("A[0]", "A[1]"):
                raise Unrecognised("C05.R6", construct, f"comparison operands {l}, {r} not understood")
            ctx.check(op == EXPECT_CMP[key], "R6-guard-body", construct, f"{key} -> {EXPECT_CMP[key]}", site(call),
                      f"guard {g.values[0]} selects SMT-LIB '{EXPECT_CMP[key]}' over (child0, child1) but the body computes child0 {op} child1 ({body_txt})",
                      f"body computes child0 {op} child1")
            continue
        if body_txt in EXPECT_TEXT[key]:
            ctx.ok("R6-guard-body", construct, f"{key} -> {body_txt}", site(call), "body is the SMT-LIB definition of the guarded operator")
        elif body_txt in BINARY_SWAPPED or any(body_txt == e.replace("A[0]", "A[9]").replace("A[1]", "A[0]").replace("A[9]", "A[1]") for e in EXPECT_TEXT[key]):
            ctx.viol("R6-guard-body", construct, f"{key} -> {sorted(EXPECT_TEXT[key])[0]}", site(call),
                     f"operands are swapped with respect to Z3's child order: body is {body_txt}")
        else:
            # recognised-bad shapes: same operator family with a different operator / missing guard
            exp = sorted(EXPECT_TEXT[key])[0]
            known_bad = {
                "z3pred:z3.is_mod": {"A[0] % A[1]": "Python % takes the sign of the divisor; SMT-LIB mod is non-negative ((mod 7 (- 2)) = 1)",
                                     "operator.mod(*A)": "operator.mod is Python's %, which takes the sign of the divisor; SMT-LIB mod is non-negative ((mod 7 (- 2)) = 1)",
                                     "operator.mod(A[0], A[1])": "operator.mod is Python's %, which takes the sign of the divisor; SMT-LIB mod is non-negative"},
                "z3kind:z3.Z3_OP_SEQ_AT": {"A[0][A[1]]": "IndexError / wraparound outside [0, len)"},
                "z3kind:z3.Z3_OP_SEQ_EXTRACT": {"A[0][A[1]:A[1] + A[2]]": "negative offset or length wraps around in Python, SMT-LIB yields ''"},
                "z3kind:z3.Z3_OP_STR_TO_CODE": {"ord(A[0])": "TypeError unless exactly one character; SMT-LIB: -1"},
            }
            if body_txt in known_bad.get(key, {}):
                ctx.viol("R6-guard-body", construct, f"{key} -> {exp}", site(call), f"body {body_txt}: {known_bad[key][body_txt]}")
            else:
                same_family = _binop_family(body_txt, EXPECT_TEXT[key])
                if same_family is not None:
                    ctx.viol("R6-guard-body", construct, f"{key} -> {exp}", site(call), f"body {body_txt} applies a different operator than the guarded one ({same_family})")
                else:
                    raise Unrecognised("C05.R6", construct, f"body {body_txt} is not a recognised implementation shape for {key}")
    if n < 15:
        raise Unrecognised("C05.R6", f"{Z3H}:evaluate_z3_expression", f"only {n} guard/body pairs checked (expected >= 15)")


def _binop_family(body: str, expected) -> Optional[str]:
    m = _re.fullmatch(r"A\[0\] (\S+) A\[1\]", body)
    if m:
        for e in expected:
            m2 = _re.fullmatch(r"A\[0\] (\S+) (?:abs\()?A\[1\]\)?", e)
            if m2 and m2.group(1) != m.group(1):
                return f"expected '{m2.group(1)}', found '{m.group(1)}'"
    m = _re.fullmatch(r"reduce\(operator\.(\w+), A\)", body)
    if m:
        for e in expected:
            m2 = _re.fullmatch(r"reduce\(operator\.(\w+), A\)", e)
            if m2 and m2.group(1) != m.group(1):
                return f"expected operator.{m2.group(1)}, found operator.{m.group(1)}"
    if body in ("sum", "prod", "all(A)", "any(A)", "min", "max"):
        return f"found {body}"
    return None


def rule_r7(ctx):
    """Verdict caches must not be keyed by the *printed* form of a Z3 expression (the printer elides deep / wide terms)."""
    n = 0
    for rel in (Z3H, EVAL, LANG):
        m = ctx.repo.module(rel, "C05.R7")
        module_names = set(m.constants())
        for q, fn in m.functions():
            z3_params = {a.arg for a in fn.args.args if a.annotation is not None and "z3." in src(a.annotation)}
            if not z3_params:
                continue
            # local names assigned from str(<z3 param>) / repr(..) / f-strings over it
            lossy = set()
            for node in walk_local(fn):
                if isinstance(node, ast.Assign) and len(node.targets) == 1 and isinstance(node.targets[0], ast.Name) and _lossy_print(node.value, z3_params, lossy):
                    lossy.add(node.targets[0].id)
            for node in walk_local(fn):
                key = None
                if isinstance(node, ast.Subscript) and isinstance(node.value, ast.Name) and node.value.id in module_names:
                    key = node.slice
                elif isinstance(node, ast.Call) and isinstance(node.func, ast.Attribute) and node.func.attr in ("get", "setdefault", "pop") and isinstance(node.func.value, ast.Name) and node.func.value.id in module_names and node.args:
                    key = node.args[0]
                if key is None:
                    continue
                n += 1
                bad = _lossy_print(key, z3_params, lossy)
                ctx.check(not bad, "R7-lossy-cache-key", f"{rel}:{q}", f"{src(node)[:60]}", site(node),
                          "a module-level cache of verdicts is keyed by the printed form (str()/repr()) of a Z3 expression; Z3's pretty printer replaces sub-terms beyond "
                          "depth 20 / 128 arguments by '...', so two different formulas share a key and the second one gets the first one's verdict",
                          "key is not a printed Z3 term")
    ctx.inventory["module_level_cache_accesses_in_verdict_functions"] = n
    # positive fixture
    fx = ast.parse("C = {}\ndef f(formula: z3.BoolRef, t: int):\n    k = (str(formula), t)\n    return C.get(k)\n")
    fn = fx.body[1]
    lossy = set()
    for node in ast.walk(fn):
        if isinstance(node, ast.Assign) and _lossy_print(node.value, {"formula"}, lossy):
            lossy.add(node.targets[0].id)
    if "k" not in lossy:
        raise Unrecognised("C05.R7", "fixture", "positive fixture did not fire")


def _lossy_print(e: ast.AST, z3_params, lossy_names) -> bool:
    for x in ast.walk(e):
        if isinstance(x, ast.Call) and call_name(x) in ("str", "repr") and x.args and any(isinstance(y, ast.Name) and y.id in z3_params for y in ast.walk(x.args[0])):
            return True
        if isinstance(x, ast.FormattedValue) and any(isinstance(y, ast.Name) and y.id in z3_params for y in ast.walk(x.value)):
            return True
        if isinstance(x, ast.Name) and x.id in lossy_names:
            return True
    return False


def rule_r9(ctx, prefix="R9", only_functions=None):
    """Parameters of a Z3 declaration (`decl.params()`): `(_ re.loop lo hi)` has an OPTIONAL upper bound and `(_ re.^ n)` one parameter, so
    `params()[k]` for k >= 1 needs a length fact; index 0 is always present for the parameterised regex operators."""
    import re as _re2

    m = ctx.repo.module(Z3H, f"C05.{prefix}")
    n = 0
    for q, fn in m.functions():
        if only_functions is not None and q.split(".")[0] not in only_functions:
            continue
        if not isinstance(fn, (ast.FunctionDef, ast.Lambda)) or "." in q and not isinstance(fn, ast.FunctionDef):
            continue
        aliases = {}
        for a in ast.walk(fn):
            if isinstance(a, ast.Assign) and len(a.targets) == 1 and isinstance(a.targets[0], ast.Name) and isinstance(a.value, ast.Call) and isinstance(a.value.func, ast.Attribute) and a.value.func.attr == "params" and not a.value.args:
                aliases[a.targets[0].id] = src(a.value)
        for sub in ast.walk(fn):
            if not (isinstance(sub, ast.Subscript) and isinstance(sub.ctx, ast.Load) and isinstance(sub.slice, ast.Constant) and isinstance(sub.slice.value, int)):
                continue
            base = sub.value
            is_params = (isinstance(base, ast.Call) and isinstance(base.func, ast.Attribute) and base.func.attr == "params" and not base.args) or (isinstance(base, ast.Name) and base.id in aliases)
            if not is_params:
                continue
            if enclosing_function_of(sub) is not fn and not isinstance(enclosing_function_of(sub), ast.Lambda):
                continue
            n += 1
            k = sub.slice.value
            construct = f"{Z3H}:{q}"
            if k == 0:
                ctx.ok(f"{prefix}-decl-params", construct, f"{src(sub)}", site(sub), "first parameter of a parameterised operator always exists")
                continue
            b = src(base)
            fs = facts(sub)
            ok = False
            for f_ in fs:
                t = f_.text
                mm = _re2.fullmatch(r"len\((.+)\) (>|>=|==) (\d+)", t)
                if mm and mm.group(1) == b and f_.positive:
                    lim = int(mm.group(3))
                    ok = ok or (mm.group(2) == ">" and lim >= k) or (mm.group(2) == ">=" and lim >= k + 1) or (mm.group(2) == "==" and lim >= k + 1)
            ctx.check(ok, f"{prefix}-decl-params", construct, f"IndexError: {src(sub)}", site(sub),
                      f"`{src(sub)}` assumes the declaration has {k + 1} parameters; `((_ re.loop 2) r)` (no upper bound), which Z3 and the ISLa parser accept, has one: IndexError instead of an answer",
                      f"guarded by len({b}) > {k}")
    ctx.inventory[f"{prefix}_decl_param_sites"] = n
    if n < 2 and only_functions is None:
        raise Unrecognised(f"C05.{prefix}", Z3H, f"only {n} params() index sites found (expected >= 2)")


def rule_r10(ctx):
    """str.to.int: SMT-LIB (and Z3) map every string that is not a non-empty sequence of ASCII digits to -1 - also signed numerals such as "-5" or "+1",
    which the property does NOT exclude. The handler must not hand such strings to Python's int()."""
    f = ctx.repo.func(Z3H, "evaluate_z3_str_to_int", "C05.R10")
    c = f"{Z3H}:evaluate_z3_str_to_int"
    ctor = next((n for n in ast.walk(f) if isinstance(n, ast.FunctionDef) and n is not f), None)
    if ctor is None:
        raise Unrecognised("C05.R10", c, "constructor closure not found")
    convs = [x for x in calls_in(ctor) if call_name(x) == "int" and len(x.args) == 1 and isinstance(x.args[0], ast.Name)]
    if not convs:
        raise Unrecognised("C05.R10", c, "int(<string>) conversion not found")
    for x in convs:
        a = x.args[0].id
        fs = facts(x)
        digit_guard = any(f_.positive and (f_.text in (f"{a}.isdigit()", f"{a}.isdecimal()", f"{a}.isascii() and {a}.isdigit()") or ("fullmatch" in f_.text and a in f_.text)) for f_ in fs)
        ctx.check(digit_guard, "R10-str-to-int-numerals", c, f"int({a}) only for digit strings", site(x),
                  f"`int({a})` converts signed numerals by value: (= (str.to.int \"-5\") (- 5)) is judged TRUE and (= (str.to.int \"+1\") 1) TRUE, while Z3 (SMT-LIB: -1 for every string that is not "
                  "a sequence of digits) judges both false; signed numerals are inside the property's fragment", "guarded by a digits-only test, -1 otherwise")


def rule_r11(ctx):
    """re.loop: Python's `{m,n}` quantifier raises re.error for m > n (SMT-LIB: empty language) - the quantifier may only be emitted when the bounds are ordered."""
    f = ctx.repo.func(Z3H, "evaluate_z3_re_loop", "C05.R11")
    c = f"{Z3H}:evaluate_z3_re_loop"
    n = 0
    for lam in [x for x in ast.walk(f) if isinstance(x, ast.Lambda)]:
        js = [j for j in ast.walk(lam.body) if isinstance(j, ast.JoinedStr)]
        text = "".join(p.value for j in js for p in j.values if isinstance(p, ast.Constant) and isinstance(p.value, str))
        if "{" not in text:
            continue
        n += 1
        fs = facts(lam)
        ordered = any((not f_.positive and "params[1] < params[0]" in f_.text) or (f_.positive and ("params[0] <= params[1]" in f_.text or "params[1] >= params[0]" in f_.text)) for f_ in fs)
        ctx.check(ordered, "R11-loop-bounds-ordered", c, "{m,n} quantifier only for m <= n", site(lam),
                  "the fragment `(...){lo,hi}` is emitted without excluding hi < lo: `((_ re.loop 2 1) r)` (empty language in SMT-LIB) makes re.compile raise 'min repeat greater than max repeat' "
                  "instead of the atom being answered", "dominated by not (params[1] < params[0])")
    if n != 1:
        raise Unrecognised("C05.R11", c, f"expected one quantifier-emitting constructor (found {n})")
    # the bounds text: upper bound present exactly when the declaration has two parameters (an explicit upper bound 0 means 'at most zero', not 'unbounded')
    bv = single_assignment_in(f, "bounds")
    if bv is None:
        raise Unrecognised("C05.R11", c, "`bounds` text not found")

    def tst(e, nparams, hi_zero):
        t = " ".join(src(e).split())
        if t in ("len(params) > 1", "len(params) >= 2", "len(params) == 2"):
            return nparams == 2
        if t in ("len(params) == 1", "len(params) < 2"):
            return nparams == 1
        if t in ("params[1]", "params[1] != 0", "params[1] > 0"):
            if nparams < 2:
                raise Unrecognised("C05.R11", c, "params[1] tested without a length test first")
            return not hi_zero
        if isinstance(e, ast.UnaryOp) and isinstance(e.op, ast.Not):
            return not tst(e.operand, nparams, hi_zero)
        if isinstance(e, ast.BoolOp):
            if isinstance(e.op, ast.And):
                for v in e.values:
                    if not tst(v, nparams, hi_zero):
                        return False
                return True
            for v in e.values:
                if tst(v, nparams, hi_zero):
                    return True
            return False
        raise Unrecognised("C05.R11", c, f"test `{t}` in the bounds text not understood")

    def pick(e, nparams, hi_zero):
        while isinstance(e, ast.IfExp):
            e = e.body if tst(e.test, nparams, hi_zero) else e.orelse
        return e

    for nparams, hi_zero, label in ((1, False, "(_ re.loop lo)"), (2, True, "(_ re.loop lo 0)"), (2, False, "(_ re.loop lo hi)")):
        e = pick(bv, nparams, hi_zero)
        if not isinstance(e, ast.JoinedStr):
            raise Unrecognised("C05.R11", c, f"bounds text for {label} is not an f-string")
        parts = [src(v.value) for v in e.values if isinstance(v, ast.FormattedValue)]
        has_hi = "params[1]" in parts
        ctx.check(parts[:1] == ["params[0]"] and has_hi == (nparams == 2), "R11-loop-bounds-text", c, f"{label}: upper bound {'present' if nparams == 2 else 'absent'}", site(bv),
                  f"for {label} the quantifier text is built from {parts}: an explicit upper bound must always be written (`(_ re.loop 0 0)` denotes exactly the empty word, `{{0,}}` is r*), and a missing one must be left out",
                  "{lo,hi} for two parameters, {lo,} for one")


def rule_r12(ctx, prefix="R12"):
    """Verdicts taken from a Z3 satisfiability query: TRUE needs `not f` unsat (validity); FALSE may come from `f` unsat or (as is_valid does) from `not f` sat.
    `f` sat -> TRUE is wrong: for under-specified terms (division by zero) both f and not f are satisfiable."""
    total = 0
    for rel in (Z3H, "src/isla/evaluator.py"):
        m = ctx.repo.module(rel, f"C05.{prefix}")
        for q, fn in m.functions():
            if not isinstance(fn, ast.FunctionDef):
                continue
            queries = {}
            for a in walk_local(fn):
                if isinstance(a, ast.Assign) and isinstance(a.value, ast.Call) and call_name(a.value) == "z3_solve" and a.value.args:
                    tgt = a.targets[0]
                    name = tgt.elts[0].id if isinstance(tgt, ast.Tuple) and isinstance(tgt.elts[0], ast.Name) else (tgt.id if isinstance(tgt, ast.Name) else None)
                    arg = a.value.args[0]
                    if name is None:
                        continue
                    negated = None
                    if isinstance(arg, ast.List) and len(arg.elts) == 1:
                        negated = isinstance(arg.elts[0], ast.Call) and call_name(arg.elts[0]) == "z3.Not"
                    queries[name] = (negated, a)
            if not queries:
                continue
            for r in [x for x in walk_local(fn) if isinstance(x, ast.Return)]:
                v = src(r.value)
                verdict = "TRUE" if v.endswith("ThreeValuedTruth.true()") or v.endswith("ThreeValuedTruth.true())") else ("FALSE" if "ThreeValuedTruth.false()" in v else None)
                if verdict is None:
                    continue
                for name, (negated, a) in queries.items():
                    for f_ in facts(r):
                        if not f_.positive:
                            continue
                        mm = _re.fullmatch(rf"{name} == z3\.(sat|unsat)", f_.text)
                        if not mm:
                            continue
                        total += 1
                        outcome = mm.group(1)
                        construct = f"{rel}:{q}"
                        if negated is None:
                            raise Unrecognised(f"C05.{prefix}", construct, f"query `{src(a)[:60]}` is not a single formula / its negation")
                        okc = (negated and ((outcome == "unsat" and verdict == "TRUE") or (outcome == "sat" and verdict == "FALSE"))) or ((not negated) and outcome == "unsat" and verdict == "FALSE")
                        ctx.check(okc, f"{prefix}-z3-verdict-mapping", construct, f"{'not f' if negated else 'f'} {outcome} -> {verdict}", site(r),
                                  f"the verdict {verdict} is derived from `{'not f' if negated else 'f'}` being {outcome}: satisfiability of a ground formula is not its truth - for under-specified terms "
                                  "((div 7 0), (mod x 0)) Z3 finds both the atom and its negation satisfiable, so the atom AND its negation are judged TRUE", "TRUE only from `not f` unsat; FALSE from `f` unsat or `not f` sat")
    if total < 2:
        raise Unrecognised(f"C05.{prefix}", Z3H, f"only {total} verdicts derived from z3_solve found (expected is_valid's two)")


def rule_r13(ctx):
    """construct_result: each child closure is called with ITS OWN parameters in ITS OWN order (looked up by name in the parent's tuple); the parent's
    instantiation tuple must never be handed to a child as it is - parent and child orders both come from set iteration and need not agree."""
    from ..core import whole_origins

    f = ctx.repo.func(Z3H, "construct_result", "C05.R13")
    c = f"{Z3H}:construct_result"
    clo = next((n for n in ast.walk(f) if isinstance(n, ast.FunctionDef) and n.name == "closure"), None)
    if clo is None:
        raise Unrecognised("C05.R13", c, "closure not found")
    vp = clo.args.args[0].arg
    calls = [x for x in calls_in(clo) if isinstance(x.func, ast.Name) and x.func.id == "child_result" and len(x.args) == 1]
    if len(calls) != 1:
        raise Unrecognised("C05.R13", c, f"expected one call child_result(<instantiations>) (found {len(calls)})")
    arg = calls[0].args[0]
    wo = whole_origins(clo, arg)
    whole = (vp, True) in wo
    ctx.check(not whole, "R13-child-params-by-name", c, "child gets its own parameters, looked up by name", site(calls[0]),
              f"the parent's instantiation tuple `{vp}` can reach `child_result(...)` unchanged: the child's parameter order (its own set iteration order) need not be the parent's, so two "
              "variables are swapped for that sub-term (depends on the variable names' hashes)", f"elements `{vp}[<index of the child's parameter>]` only")
    idx = [x for x in ast.walk(clo) if isinstance(x, ast.Subscript) and src(x.value) == vp]
    if not idx:
        raise Unrecognised("C05.R13", c, f"no indexed read of {vp} found")
    for x in idx:
        t = src(x.slice)
        ok = t.startswith("params.index(") or _re.fullmatch(r"\w+", t) is not None
        by_name = t == "params.index(str(child_param))"
        if by_name:
            ctx.ok("R13-child-params-by-name", c, f"{src(x)}", site(x), "position of the child's parameter name in the parent's parameter tuple")
        elif not ok:
            raise Unrecognised("C05.R13", c, f"index expression {t} not understood")
    ps = [a for a in walk_local(f) if isinstance(a, (ast.Assign, ast.AnnAssign)) and src(a.targets[0] if isinstance(a, ast.Assign) else a.target) == "params"]
    ok = len(ps) == 1 and "for child_params, _ in children_results for param in child_params" in " ".join(src(ps[0].value).split())
    ctx.check(ok, "R13-child-params-by-name", c, "parent parameters = union of the children's parameters", site(f), "params must collect every child's parameters", "union")


def enclosing_function_of(node):
    cur = getattr(node, "_parent", None)
    while cur is not None and not isinstance(cur, (ast.FunctionDef, ast.AsyncFunctionDef, ast.Lambda)):
        cur = getattr(cur, "_parent", None)
    return cur


def run(ctx) -> str:
    _cache.clear()
    ctx.guarded("R9", lambda: rule_r9(ctx))
    ctx.guarded("R10", lambda: rule_r10(ctx))
    ctx.guarded("R11", lambda: rule_r11(ctx))
    ctx.guarded("R12", lambda: rule_r12(ctx))
    ctx.guarded("R13", lambda: rule_r13(ctx))
    ctx.guarded("R7", lambda: rule_r7(ctx))
    from . import c17

    ctx.guarded("R8", lambda: c17.rule_s5(ctx, "R8", with_escape_char=False))
    ctx.guarded("R1", lambda: rule_r1(ctx))
    ctx.guarded("R2", lambda: rule_r2(ctx))
    ctx.guarded("R3", lambda: rule_r3(ctx))
    ctx.guarded("R4R5", lambda: rule_r4_r5(ctx))
    ctx.guarded("R6", lambda: rule_r6(ctx))
    ctx.assume("Z3's own verdict is the reference; operator arities are those of SMT-LIB (args[k] on the children tuple is in range)")
    ctx.assume("str.to.int on non-numerals (DomainError) is excluded by the property")
    return EXPLANATION
