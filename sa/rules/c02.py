"""C02 — solve() only returns solutions or signals exhaustion/timeout, then stays so."""

from __future__ import annotations

import ast
from typing import List, Set

from ..callgraph import CallGraph, SRC_ISLA
from ..core import (
    Unrecognised,
    attr_writes,
    call_name,
    calls_in,
    dotted,
    enclosing_def,
    facts,
    has_fact,
    module_of,
    qual,
    site,
    src,
    walk_local,
    parent,
)
from ..dispatch import check_flow_arity, find_flow_tables
from . import c05

SOLVER = "src/isla/solver.py"

EXPLANATION = (
    "Static necessary conditions for C02 over src/isla/solver.py and every dispatch table reachable from ISLaSolver.solve: "
    "decided: (R1) every handler/fallback of every flow(...) dispatch table reachable from solve() in the call graph accepts the "
    "arguments it is dispatched with (the TypeError-instead-of-fallback class of crashes); (R2) the only lexical raise exits of "
    "solve() are TimeoutError under the timeout test and StopIteration after the loop under 'no solution left'; (R3) stickiness as "
    "typestate: the timeout test precedes every consumption of queue/solutions in the loop, start_time is only initialised once, "
    "nothing writes queue/solutions between loop exit and the StopIteration raise, and the re-entrant solve() call of the "
    "unsatisfiability probe saves/restores solver state in a finally block and handles both documented exits of solve(); "
    "(R4) pops in solve() are dominated by non-emptiness tests; (R5) no IndexError/ZeroDivisionError/TypeError escapes a constructor of the SMT fast path, "
    "which solve() reaches without any handler (shared with C05). NOT decided: asserts / NotImplementedError / RuntimeError raised "
    "deeper in the elimination chain for particular formulas (inventoried in the evidence)."
)


def rule_r1(ctx):
    cg = CallGraph(ctx.repo, SRC_ISLA)
    roots = [f"{SOLVER}:ISLaSolver.solve"]
    if roots[0] not in cg.funcs:
        raise Unrecognised("C02.R1", roots[0], "entry point not found")
    reach = cg.reachable(roots)
    ctx.inventory["functions_in_callgraph"] = len(cg.funcs)
    ctx.inventory["reachable_from_solve"] = len(reach)
    n_tables = 0
    reachable_tables = []
    for fid, fn in sorted(cg.funcs.items()):
        if not isinstance(fn, ast.FunctionDef):
            continue
        # only tables lexically owned by this function (not nested defs' tables twice)
        tables = [t for t in find_flow_tables(fn) if enclosing_def(t.call) is fn]
        if not tables:
            continue
        n_tables += len(tables)
        is_reach = fid in reach
        if is_reach:
            reachable_tables.append(fid)
        check_flow_arity(ctx, "R1-arity", fn, min_handlers=2, as_note=not is_reach)
    ctx.inventory["dispatch_tables"] = n_tables
    ctx.inventory["dispatch_tables_reachable_from_solve"] = reachable_tables
    must = {f"{SOLVER}:ISLaSolver.solve", "src/isla/z3_helpers.py:evaluate_z3_expression", "src/isla/evaluator.py:evaluate_legacy", "src/isla/language.py:convert_to_nnf"}
    missing = must - set(reachable_tables)
    if missing:
        raise Unrecognised("C02.R1", "reachability", f"tables expected to be reachable from solve() were not found reachable: {sorted(missing)}")
    ctx.floor("R1-arity", 60)
    # the elimination chain: bind target accepts the list
    solve = ctx.repo.func(SOLVER, "ISLaSolver.solve", "C02.R1")
    t = [t for t in find_flow_tables(solve)]
    if not t:
        raise Unrecognised("C02.R1", f"{SOLVER}:ISLaSolver.solve", "elimination chain not found")
    if len(t[0].handlers) < 8:
        raise Unrecognised("C02.R1", f"{SOLVER}:ISLaSolver.solve", "elimination chain has fewer than 8 handlers")


def _raise_name(r: ast.Raise) -> str:
    if r.exc is None:
        return "<re-raise>"
    if isinstance(r.exc, ast.Call):
        return dotted(r.exc.func) or src(r.exc)
    return dotted(r.exc) or src(r.exc)


def rule_r2_r3_r4(ctx):
    solve = ctx.repo.func(SOLVER, "ISLaSolver.solve", "C02.R2")
    construct = f"{SOLVER}:ISLaSolver.solve"
    raises = [n for n in walk_local(solve) if isinstance(n, ast.Raise)]
    kinds = sorted(_raise_name(r) for r in raises)
    if "StopIteration" not in kinds:
        raise Unrecognised("C02.R2", construct, f"no `raise StopIteration` in solve() (found {kinds})")
    loops = [n for n in solve.body if isinstance(n, ast.While)]
    if len(loops) != 1 or src(loops[0].test) != "self.queue":
        raise Unrecognised("C02.R2", construct, "main loop `while self.queue:` not found as a top-level statement of solve()")
    loop = loops[0]
    for r in raises:
        name = _raise_name(r)
        fs = facts(r)
        if name == "TimeoutError":
            ok = has_fact(fs, "self.timeout_seconds is not None") and any("time.time()" in f.text and "self.timeout_seconds" in f.text and f.positive for f in fs)
            ctx.check(ok, "R2-exits", construct, "raise TimeoutError", site(r),
                      "TimeoutError must only be raised under 'a timeout is configured and has expired'", "raised only under the timeout test")
        elif name == "StopIteration":
            in_loop = any(a is loop for a in _anc(r))
            ok = (not in_loop) and has_fact(fs, "self.solutions", False)
            ctx.check(ok, "R2-exits", construct, "raise StopIteration", site(r),
                      "StopIteration must only be raised after the main loop ended (queue empty) and with no solution left",
                      "raised after the loop under `not self.solutions`")
        else:
            ctx.viol("R2-exits", construct, f"raise {name}", site(r), f"solve() raises {name}; only TimeoutError and StopIteration are part of its contract")
    # returns: value provenance solutions.pop(0)
    for ret in [n for n in walk_local(solve) if isinstance(n, ast.Return)]:
        v = ret.value
        ok = False
        if isinstance(v, ast.Name):
            # assigned from self.solutions.pop(0) in the same block
            blk = parent(ret)
            for st in getattr(blk, "body", []) + getattr(blk, "orelse", []):
                if isinstance(st, ast.Assign) and len(st.targets) == 1 and dotted(st.targets[0]) == v.id and src(st.value) == "self.solutions.pop(0)":
                    ok = True
        elif v is not None and src(v) == "self.solutions.pop(0)":
            ok = True
        ctx.check(ok, "R2-return-provenance", construct, f"return {src(v)}", site(ret),
                  "solve() must return only trees popped from self.solutions (which only process_new_states fills)", "returns self.solutions.pop(0)")
        ctx.check(has_fact(facts(ret), "self.solutions"), "R4-pop-guard", construct, f"pop before return {src(v)}", site(ret),
                  "self.solutions.pop(0) without a dominating `if self.solutions` raises IndexError", "dominated by `if self.solutions`")

    # R3 (a): in the loop body the timeout test comes before any consumption of queue / solutions
    body = loop.body
    idx_timeout = None
    for i, st in enumerate(body):
        if any(isinstance(n, ast.Raise) and _raise_name(n) == "TimeoutError" for n in ast.walk(st)):
            idx_timeout = i
            break
    if idx_timeout is None:
        raise Unrecognised("C02.R3", construct, "timeout test not found in the loop body")
    bad = []
    for st in body[:idx_timeout]:
        for path in ("self.queue", "self.solutions", "self.start_time"):
            bad += [(n, k, path) for n, k in attr_writes(st, path)]
        for c in calls_in(st):
            if call_name(c) and call_name(c).startswith("self.") and call_name(c) not in ("self.logger.debug", "self.logger.info"):
                bad.append((c, "call", call_name(c)))
    ctx.check(not bad, "R3-sticky-timeout", construct, "timeout test first in loop", site(body[idx_timeout]),
              f"statements before the timeout test mutate solver state ({[(k, p) for _, k, p in bad]}): after a TimeoutError the next call would not re-raise it from the same state",
              "the timeout test precedes every state change of an iteration")
    # the statement containing the raise must not itself mutate state before raising
    tm = body[idx_timeout]
    w = [k for p in ("self.queue", "self.solutions", "self.start_time", "self.timeout_seconds") for _, k in attr_writes(tm, p)]
    ctx.check(not w, "R3-sticky-timeout", construct, "timeout branch is pure", site(tm),
              f"the timeout branch writes solver state ({w})", "the timeout branch only logs and raises")

    # R3 (b): start_time writers
    cls_methods = [(q, f) for q, f in module_of(solve).functions() if q.startswith("ISLaSolver.")]
    for q, f in cls_methods:
        if "." in q[len("ISLaSolver.") :]:
            continue
        for n, kind in attr_writes(f, "self.start_time"):
            c = f"{SOLVER}:{q}"
            if q == "ISLaSolver.__init__":
                ctx.check(isinstance(n, ast.AnnAssign) and src(n.value) == "None" or (isinstance(n, ast.Assign) and src(n.value) == "None"),
                          "R3-start-time", c, "init", site(n), "start_time must start as None", "initialised to None")
            elif q == "ISLaSolver.solve":
                ctx.check(has_fact(facts(n), "self.start_time is None"), "R3-start-time", c, "set once", site(n),
                          "solve() re-arms start_time on a later call: an expired timeout would stop being reported (TimeoutError not sticky)",
                          "set only when still None")
            else:
                # must be part of a save/restore pair
                ok = _is_save_restore(f, n, "self.start_time")
                ctx.check(ok, "R3-start-time", c, src(n), site(n),
                          "start_time is overwritten outside solve()/__init__ without a save + finally-restore pair",
                          "temporary override restored in finally")
    # R3 (c): between loop end and StopIteration nothing writes queue; queue writers elsewhere are fine (they run inside the loop)
    after = solve.body[solve.body.index(loop) + 1 :]
    wq = [k for st in after for _, k in attr_writes(st, "self.queue")]
    ctx.check(not wq, "R3-sticky-stop", construct, "no queue write after loop", site(loop),
              f"self.queue is written after the main loop ({wq}): a later call could find work again after StopIteration", "queue untouched after the loop")
    ws = [(n, k) for st in after for n, k in attr_writes(st, "self.solutions")]
    ok = all(k == "call .pop" and has_fact(facts(n), "self.solutions") for n, k in ws)
    ctx.check(ok, "R3-sticky-stop", construct, "solutions only popped after loop", site(loop),
              "self.solutions is written after the main loop other than by the guarded pop", "only the guarded pop touches solutions after the loop")
    # loop must not be left by break (then queue could be non-empty at the StopIteration)
    brk = [n for n in walk_local(loop) if isinstance(n, ast.Break) and _innermost_loop(n) is loop]
    ctx.check(not brk, "R3-sticky-stop", construct, "no break out of main loop", site(loop),
              "a `break` leaves the main loop with a non-empty queue; StopIteration would not be sticky", "loop ends only when the queue is empty")

    # R3 (d): re-entrant self.solve() calls
    n_reentrant = 0
    for q, f in cls_methods:
        for c in calls_in(f, include_nested=False):
            if call_name(c) == "self.solve":
                n_reentrant += 1
                cstr = f"{SOLVER}:{q}"
                tr = None
                for a in _anc(c):
                    if isinstance(a, ast.Try) and any(c is x or c in list(ast.walk(x)) for x in a.body):
                        tr = a
                        break
                if tr is None:
                    ctx.viol("R3-reentrant", cstr, "self.solve()", site(c), "re-entrant solve() call without try/finally state restoration")
                    continue
                restored = {dotted(t) for st in tr.finalbody if isinstance(st, ast.Assign) for t in st.targets}
                need = {"self.queue", "self.solutions", "self.start_time", "self.timeout_seconds"}
                ctx.check(need <= restored, "R3-reentrant", cstr, "finally restores state", site(tr),
                          f"the finally block of the re-entrant solve() does not restore {sorted(need - restored)}", "queue, solutions, start_time, timeout_seconds restored in finally")
                handled = set()
                for h in tr.handlers:
                    if h.type is None:
                        handled |= {"StopIteration", "TimeoutError"}
                    else:
                        for e in h.type.elts if isinstance(h.type, ast.Tuple) else [h.type]:
                            d = dotted(e)
                            handled.add(d)
                            if d in ("Exception", "BaseException"):
                                handled |= {"StopIteration", "TimeoutError"}
                            if d == "OSError":
                                handled.add("TimeoutError")
                for exc in ("StopIteration", "TimeoutError"):
                    ctx.check(exc in handled, "R3-reentrant", cstr, f"handles {exc}", site(tr),
                              f"the probe calls solve() with its own 2 s timeout but does not handle {exc}: it escapes the outer solve() although "
                              "the outer call has no expired timeout, and the next outer call then returns solutions again (not sticky)",
                              f"{exc} of the probe handled")
    ctx.inventory["reentrant_solve_calls"] = n_reentrant
    # R4: heappop under while self.queue
    for c in calls_in(solve, include_nested=False):
        if call_name(c) == "heapq.heappop":
            ctx.check(has_fact(facts(c), "self.queue"), "R4-pop-guard", construct, src(c), site(c),
                      "heappop on a possibly empty queue raises IndexError", "dominated by `while self.queue`")


def _anc(n):
    cur = parent(n)
    while cur is not None:
        yield cur
        cur = parent(cur)


def _innermost_loop(n):
    for a in _anc(n):
        if isinstance(a, (ast.While, ast.For)):
            return a
    return None


def _is_save_restore(fn, write: ast.AST, path: str) -> bool:
    """`old = self.x` before, the write, and `self.x = old` in a finally block of a try that follows."""
    saved = None
    for n in ast.walk(fn):
        if isinstance(n, ast.Assign) and len(n.targets) == 1 and isinstance(n.targets[0], ast.Name) and dotted(n.value) == path:
            saved = n.targets[0].id
    if saved is None:
        return False
    for n in ast.walk(fn):
        if isinstance(n, ast.Try):
            for st in n.finalbody:
                if isinstance(st, ast.Assign) and dotted(st.targets[0]) == path and isinstance(st.value, ast.Name) and st.value.id == saved:
                    # the write is either this restore or precedes the try in the same block
                    if st is write:
                        return True
                    blk = parent(n)
                    for name in ("body", "orelse"):
                        b = getattr(blk, name, None)
                        if isinstance(b, list) and n in b and write in b and b.index(write) < b.index(n):
                            return True
    return False


def inventory_raises(ctx):
    """Informational: raise sites by class in functions reachable from solve()."""
    cg = CallGraph(ctx.repo, SRC_ISLA)
    reach = cg.reachable([f"{SOLVER}:ISLaSolver.solve"])
    counts = {}
    for fid in reach:
        fn = cg.funcs[fid]
        for n in walk_local(fn):
            if isinstance(n, ast.Raise):
                k = _raise_name(n)
                counts[k] = counts.get(k, 0) + 1
            elif isinstance(n, ast.Assert):
                counts["assert"] = counts.get("assert", 0) + 1
    ctx.inventory["raise_sites_reachable_from_solve (not decided)"] = dict(sorted(counts.items()))


def rule_r7(ctx):
    """Optimised length handling: Z3 chooses a value for str.len(x) knowing nothing about the grammar; when no tree of that length exists the attempt must be
    discarded (the branch is unsatisfiable for that length) - raising out of solve() breaks 'solutions, StopIteration or TimeoutError only'."""
    f = ctx.repo.func(SOLVER, "ISLaSolver.safe_create_fixed_length_tree", "C02.R7")
    c = f"{SOLVER}:ISLaSolver.safe_create_fixed_length_tree"
    raises = [r for r in walk_local(f) if isinstance(r, ast.Raise)]
    under_none = [r for r in raises if has_fact(facts(r), "fixed_length_tree is None")]
    if not raises:
        ctx.ok("R7-unrealisable-length", c, "no exception for a length the grammar cannot realise", site(f), "failure is reported to the caller as a value")
        return
    if len(under_none) != len(raises):
        raise Unrecognised("C02.R7", c, "raise sites other than the `fixed_length_tree is None` case")
    # is there a handler between this method and solve()?  (callers: extract_model_value_length_var <- extract_model_value <- solve_smt_formulas_with_language_constraints ...)
    m = ctx.repo.module(SOLVER, "C02.R7")
    handlers = []
    for q, fn in m.functions():
        if not q.startswith("ISLaSolver."):
            continue
        for t in [x for x in walk_local(fn) if isinstance(x, ast.Try)]:
            for h in t.handlers:
                names = {"BaseException"} if h.type is None else {dotted(e) for e in (h.type.elts if isinstance(h.type, ast.Tuple) else [h.type])}
                if names & {"RuntimeError", "Exception", "BaseException"} and any(call_name(x) in ("self.extract_model_value", "self.solve_smt_formulas_with_language_constraints", "self.solve_quantifier_free_formula", "self.safe_create_fixed_length_tree") for x in calls_in(t)):
                    handlers.append(h)
    ctx.check(bool(handlers), "R7-unrealisable-length", c, "RuntimeError for an unrealisable length is handled before it reaches solve()'s caller", site(under_none[0]),
              "when Z3's model assigns str.len(x) a length that no tree of x's nonterminal has, safe_create_fixed_length_tree raises RuntimeError and nothing between it and solve() handles it: "
              "`(exists <digit> d in start: str.len(d) > 1) or (forall <assgn> a=\"{<var> l} := {<rhs> r}\" in start: before(l, r))` is satisfiable through its second disjunct, yet solve() raises", "handled / reported as a value")


def rule_r8(ctx):
    """Existential elimination with a match expression: tree insertion may fill an open leaf of the inserted tree to which the match expression binds a variable;
    such a candidate has to be skipped - asserting that it cannot happen lets AssertionError escape solve() (and, without asserts, a variable without a node continue)."""
    f = ctx.repo.func(SOLVER, "ISLaSolver.eliminate_existential_formula", "C02.R8")
    c = f"{SOLVER}:ISLaSolver.eliminate_existential_formula"
    dv = [a for a in ast.walk(f) if isinstance(a, ast.Assign) and src(a.targets[0]) == "dangling_bind_expr_vars"]
    if len(dv) != 1:
        raise Unrecognised("C02.R8", c, "computation of the dangling match-expression variables not found")
    asserts = [a for a in ast.walk(f) if isinstance(a, ast.Assert) and "dangling_bind_expr_vars" in src(a.test)]
    skips = [i for i in ast.walk(f) if isinstance(i, ast.If) and src(i.test) == "dangling_bind_expr_vars" and any(isinstance(x, ast.Continue) for x in i.body)]
    only_with_asserts = has_fact(facts(dv[0]), "assertions_activated()")
    if skips and not asserts and not only_with_asserts:
        ctx.ok("R8-dangling-mexpr-vars", c, "candidates with a dangling bound element are skipped", site(skips[0]), "if dangling_bind_expr_vars: continue")
    elif asserts:
        ctx.viol("R8-dangling-mexpr-vars", c, "candidates with a dangling bound element are skipped", site(asserts[0]),
                 "an insertion result in which a variable of the match expression has no node is treated as impossible (assert): `exists <stmt> q=\"{<assgn> m1} ; {<stmt> m2}\" in start: (m1 = \"a := 1\")` "
                 "makes solve() raise AssertionError, because context addition fills the open <stmt> leaf that m2 is bound to")
    else:
        raise Unrecognised("C02.R8", c, "handling of dangling match-expression variables not understood")


def run(ctx) -> str:
    ctx.guarded("R8", lambda: rule_r8(ctx))
    ctx.guarded("R7", lambda: rule_r7(ctx))
    ctx.guarded("R1", lambda: rule_r1(ctx))
    ctx.guarded("R2R3R4", lambda: rule_r2_r3_r4(ctx))
    # exceptions escaping the SMT fast path escape solve() (no handler in between): same may-raise analysis as C05
    ctx.guarded("R5-fastpath", lambda: (c05._cache.clear(), c05.rule_r3(ctx)))
    ctx.guarded("R5-declparams", lambda: c05.rule_r9(ctx, "R5"))
    ctx.guarded("R5-loopbounds", lambda: c05.rule_r11(ctx))
    from . import c03

    ctx.guarded("R6-mexpr-placeholder", lambda: c03.rule_e10(ctx, "R6"))
    from ..generic import check_optional_path_truthiness

    ctx.guarded("R9", lambda: ctx.inventory.__setitem__("find_node_calls", check_optional_path_truthiness(ctx, "R9-root-path-falsy", ["src/isla/language.py", "src/isla/evaluator.py", "src/isla/solver.py", "src/isla/existential_helpers.py", "src/isla/derivation_tree.py"], min_sources=20)))
    ctx.guarded("inventory", lambda: inventory_raises(ctx))
    ctx.assume("constraint in the supported fragment; asserts are developer contracts")
    ctx.assume("call-graph resolution is name based (over-approximate reachability)")
    return EXPLANATION
