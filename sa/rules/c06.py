"""C06 — Three-valued verdicts on partial trees never contradict any completion."""

from __future__ import annotations

import ast
from typing import List, Optional

from ..core import Unrecognised, call_name, calls_in, close_facts, dotted, facts, has_fact, module_of, parent, qual, site, src, walk_local
from . import c03

EVAL = "src/isla/evaluator.py"
TVT = "src/isla/three_valued_truth.py"

EXPLANATION = (
    "Static necessary conditions for C06 over src/isla/evaluator.py (gate-only level): decided: (G1) in evaluate_smt_formula every site that produces a "
    "definite verdict (fast-path value, Z3 fallback) is dominated by 'all free variables assigned', 'no substituted tree is open' and 'no instantiation is "
    "open' - including the nested Z3 fallback; (G2) evaluate_quantified_formula returns the universal aggregate only under 'no open leaf can still match', "
    "turns a non-TRUE existential aggregate into UNKNOWN when there are potential matches, and computes potential matches over ALL open leaves of the "
    "reference tree; (G3) quantified_formula_might_match returns a falsy answer for an open leaf inside the in-tree only when the quantified nonterminal is "
    "not reachable from the leaf's nonterminal (or defers to the match-expression prefix check); (G4) semantic predicates yield definite verdicts only from "
    "eval_res.true()/false(); (G5) the second strategy drops a quantifier (or replaces it by its vacuous value) only when no open leaf of its in-tree reaches "
    "the bound nonterminal; (G6) the three-valued aggregators are Kleene's strong connectives (shape of ThreeValuedTruth.all/any/not_). "
    "NOT decided: completeness of the match-expression prefix oracle (can_extend_leaf_to_make_quantifier_match_parent), grammar-graph reachability itself."
)


def rule_g1(ctx):
    f = ctx.repo.func(EVAL, "evaluate_smt_formula", "C06.G1")
    construct = f"{EVAL}:evaluate_smt_formula"
    # early return
    early = None
    for st in f.body:
        if isinstance(st, ast.If) and len(st.body) == 1 and isinstance(st.body[0], ast.Return) and src(st.body[0].value) == "Some(ThreeValuedTruth.unknown())":
            early = st
    if early is None:
        raise Unrecognised("C06.G1", construct, "early `return Some(ThreeValuedTruth.unknown())` not found")
    t = src(early.test).replace("\n", " ")
    ok1 = "formula.free_variables().difference(assignments)" in t
    ok2 = "any((tree.is_open() for tree in formula.substitutions.values()))" in t
    ctx.check(ok1, "G1-smt-open", construct, "UNKNOWN while a free variable is unassigned", site(early), f"early gate is `{t}`", "gate present")
    ctx.check(ok2, "G1-smt-open", construct, "UNKNOWN while a substituted tree is open", site(early), f"early gate is `{t}`", "gate present")
    ctx.check(isinstance(early.test, ast.BoolOp) and isinstance(early.test.op, ast.Or), "G1-smt-open", construct, "either condition suffices", site(early), "the two openness conditions must be combined with `or`", "or")
    # definite verdict producers inside nested functions
    producers = []
    for n in ast.walk(f):
        if isinstance(n, ast.Call) and call_name(n) in ("is_valid", "ThreeValuedTruth.from_bool"):
            producers.append(n)
    if len(producers) < 2:
        raise Unrecognised("C06.G1", construct, f"only {len(producers)} verdict producers found")
    for p in producers:
        fs = facts(p)
        texts = [(f_.text, f_.positive) for f_ in fs]
        # the early return covers substituted trees; instantiations of the free variables (the assignments) need their own test
        opened = [t_ for t_, pos in texts if not pos and ".is_open()" in t_ and t_.startswith("any(") and "formula.substitutions" not in t_]
        owner = qual(p)
        ctx.check(bool(opened), "G1-smt-open", f"{EVAL}:{owner}", f"{call_name(p)} only on closed instantiations", site(p),
                  f"{call_name(p)}(...) produces a definite verdict in {owner.split('.')[-1]} without a dominating 'no instantiation is open' test: an open tree's string is its "
                  "nonterminal name, so the atom is decided on text that no completion will have",
                  f"dominated by `not {opened[0][:70]}`" if opened else "")
    # DomainError -> FALSE only inside process_translation's try
    # (kept as an inventory item; excluded by the property for non-numerals)


def rule_g2(ctx):
    f = ctx.repo.func(EVAL, "evaluate_quantified_formula", "C06.G2")
    construct = f"{EVAL}:evaluate_quantified_formula"
    hp = [n for n in walk_local(f) if isinstance(n, ast.Assign) and src(n.targets[0]) == "has_potential_matches"]
    if len(hp) != 1:
        raise Unrecognised("C06.G2", construct, "has_potential_matches not found")
    v = hp[0].value
    ok = isinstance(v, ast.Call) and call_name(v) == "any" and isinstance(v.args[0], ast.GeneratorExp)
    if not ok:
        raise Unrecognised("C06.G2", construct, "has_potential_matches is not any(<generator>)")
    g = v.args[0]
    ctx.check(src(g.generators[0].iter) == "reference_tree.open_leaves()" and not g.generators[0].ifs and len(g.generators) == 1, "G2-quantifier-open", construct,
              "potential matches over ALL open leaves", site(hp[0]),
              f"potential matches must be checked for every open leaf of the reference tree; iterates {src(g.generators[0].iter)} with filters {[src(i) for i in g.generators[0].ifs]}", "all open leaves")
    ctx.check(call_name(g.elt) == "quantified_formula_might_match", "G2-quantifier-open", construct, "uses quantified_formula_might_match", site(hp[0]), f"found {call_name(g.elt)}", "might-match oracle")
    a = g.elt.args
    ok = len(a) >= 5 and src(a[1]) == src(g.generators[0].target.elts[0]) and src(a[2]) == "reference_tree" and src(a[3]) == "grammar" and src(a[4]) == "graph.reachable"
    ctx.check(ok, "G2-quantifier-open", construct, "oracle asked about (leaf path, reference tree, grammar reachability)", site(hp[0]), f"arguments {[src(x)[:30] for x in a[1:]]}", "leaf path in the reference tree")
    # forall
    for n in walk_local(f):
        if isinstance(n, ast.Call) and call_name(n) == "ThreeValuedTruth.all":
            ok = has_fact(facts(n), "has_potential_matches", False) and has_fact(facts(n), "isinstance(formula, ForallFormula)")
            ctx.check(ok, "G2-quantifier-open", construct, "forall verdict only without potential matches", site(n),
                      "a universal verdict computed from today's instances is returned although an open leaf can still produce an instance", "dominated by `not has_potential_matches`")
    # the early unknown for forall
    found = False
    for n in walk_local(f):
        if isinstance(n, ast.If) and src(n.test) == "has_potential_matches" and len(n.body) == 1 and isinstance(n.body[0], ast.Return) and src(n.body[0].value) == "Some(ThreeValuedTruth.unknown())":
            found = has_fact(facts(n), "isinstance(formula, ForallFormula)")
    ctx.check(found, "G2-quantifier-open", construct, "forall: potential matches -> UNKNOWN", site(f), "`if has_potential_matches: return Some(unknown)` not found in the forall branch", "UNKNOWN")
    # exists
    rets = [r for r in walk_local(f) if isinstance(r, ast.Return) and has_fact(facts(r), "isinstance(formula, ExistsFormula)")]
    ok = len(rets) == 1 and src(rets[0].value).replace("\n", " ") == "Some(ThreeValuedTruth.unknown() if not result.is_true() and has_potential_matches else result)"
    ctx.check(ok, "G2-quantifier-open", construct, "exists: non-TRUE aggregate + potential matches -> UNKNOWN", site(rets[0]) if rets else site(f),
              f"found {src(rets[0].value) if rets else None}", "FALSE is only returned when no open leaf can produce a witness")


def rule_g3(ctx):
    f = ctx.repo.func(EVAL, "quantified_formula_might_match", "C06.G3")
    construct = f"{EVAL}:quantified_formula_might_match"
    rets = [r for r in walk_local(f) if isinstance(r, ast.Return)]
    if len(rets) < 5:
        raise Unrecognised("C06.G3", construct, f"only {len(rets)} returns found")
    for r in rets:
        v = r.value
        s = src(v).replace("\n", " ")
        fs = close_facts(facts(r))
        if s == "True":
            ctx.ok("G3-might-match", construct, "return True", site(r), "over-approximation is safe")
            continue
        if isinstance(v, ast.Call) and call_name(v) == "can_extend_leaf_to_make_quantifier_match_parent":
            ok = has_fact(fs, "qfd_formula.bind_expression is None", False)
            ctx.check(ok, "G3-might-match", construct, "defers to the match-expression prefix oracle", site(r), "prefix oracle consulted without a match expression", "only with a match expression")
            continue
        outside = has_fact(fs, "qfd_formula.in_variable.find_node(node) is None")
        mentions_reach = "reachable(node.value, qfd_nonterminal)" in s
        not_reach = any((f_.text == "reachable(node.value, qfd_nonterminal)" and not f_.positive) for f_ in fs)
        ok = outside or mentions_reach or not_reach
        ctx.check(ok, "G3-might-match", construct, f"return {s[:60]}", site(r),
                  f"`return {s[:80]}` can answer 'no potential match' for an open leaf inside the in-tree although nothing establishes that the quantified nonterminal is "
                  "unreachable from the leaf (e.g. a recursive nonterminal: the leaf itself is an instance, and expanding it creates more instances below it)",
                  "falsy only if outside the in-tree or the nonterminal is unreachable from the leaf")
    # the open-leaf precondition
    asserts = [n for n in walk_local(f) if isinstance(n, ast.Assert)]
    ctx.check(any(src(a.test) == "node.children is None" for a in asserts), "G3-might-match", construct, "only asked about open leaves", site(f), "assert node.children is None missing", "precondition asserted")


def rule_g4(ctx):
    f = ctx.repo.func(EVAL, "evaluate_semantic_predicate_formula", "C06.G4")
    construct = f"{EVAL}:evaluate_semantic_predicate_formula"
    n_true = 0
    for r in [r for r in walk_local(f) if isinstance(r, ast.Return)]:
        s = src(r.value)
        fs = close_facts(facts(r))
        if s == "Some(ThreeValuedTruth.true())":
            n_true += 1
            if has_fact(fs, "eval_res.true()"):
                ctx.ok("G4-semantic-predicate", construct, "TRUE from eval_res.true()", site(r), "the predicate's own verdict")
                continue
            # binding case: the predicate answered with an assignment; only bindings of CONSTANTS make the atom true as it stands -
            # a binding of a tree is a proposed tree update ("satisfiable after changing the argument"), i.e. not yet true
            ready = has_fact(fs, "eval_res.ready()") or has_fact(fs, "not eval_res.ready()", False)
            consts = any(f_.positive and f_.text.replace("\n", " ") == "all((isinstance(key, Constant) for key in eval_res.result))" for f_ in fs)
            ctx.check(ready, "G4-semantic-predicate", construct, "binding TRUE only for a ready result", site(r), "TRUE returned for a result that may not be ready", "dominated by eval_res.ready()")
            ctx.check(consts, "G4-semantic-predicate", construct, "binding TRUE only when every bound key is a Constant", site(r),
                      "TRUE is returned for a binding whose keys may be trees: such a result proposes a tree UPDATE (e.g. count on a tree that does not have the requested number of needles yet), "
                      "so the atom is not true of the tree as it stands and a completion can falsify it", "dominated by all(isinstance(key, Constant) for key in eval_res.result)")
        elif s == "Some(ThreeValuedTruth.false())":
            ctx.check(has_fact(fs, "eval_res.false()"), "G4-semantic-predicate", construct, "FALSE only from eval_res.false()", site(r), "FALSE returned without the predicate reporting it", "from the predicate's result")
        elif s == "Some(ThreeValuedTruth.unknown())":
            ctx.ok("G4-semantic-predicate", construct, "UNKNOWN for not-ready / tree-updating results", site(r), "conservative")
        elif s in ("Some(ThreeValuedTruth.from_bool(eval_res.true()))", "Some(ThreeValuedTruth.from_bool(not eval_res.false()))"):
            ok = has_fact(fs, "eval_res.is_boolean()") or has_fact(fs, "eval_res.true() or eval_res.false()")
            ctx.check(ok, "G4-semantic-predicate", construct, "from_bool only for a Boolean result", site(r), "from_bool(eval_res.true()) turns a binding / not-ready result into FALSE", "dominated by eval_res.is_boolean()")
        elif s != "Nothing":
            raise Unrecognised("C06.G4", construct, f"return {s}")
    if n_true == 0:
        raise Unrecognised("C06.G4", construct, "no TRUE return found")


def rule_g5(ctx):
    f = ctx.repo.func(EVAL, "eliminate_quantifiers_in_quantified_formula", "C06.G5")
    construct = f"{EVAL}:eliminate_quantifiers_in_quantified_formula"
    ko = [n for n in walk_local(f) if isinstance(n, ast.Assign) and src(n.targets[0]) == "keep_orig_formula"]
    if len(ko) != 1:
        raise Unrecognised("C06.G5", construct, "keep_orig_formula not found")
    s = src(ko[0].value).replace("\n", " ")
    ok = s == "keep_existential_quantifiers or any((graph.reachable(leaf.value, quantified_formula.bound_variable.n_type) for _, leaf in quantified_formula.in_variable.open_leaves()))"
    ctx.check(ok, "G5-elimination-open", construct, "quantifier kept while an open leaf of the in-tree reaches the bound nonterminal", site(ko[0]),
              f"keep_orig_formula = {s}", "reachability from every open leaf of the in-tree")
    # replacement without the original only under not keep_orig_formula
    for c in calls_in(f):
        if call_name(c) == "smt_atom":
            ctx.check(has_fact(facts(c), "keep_orig_formula", False), "G5-elimination-open", construct, "vacuous value only if the quantifier may be dropped", site(c),
                      "the quantifier is replaced by its vacuous truth value although open leaves may still produce instances", "dominated by `not keep_orig_formula`")
    asg = [n for n in walk_local(f) if isinstance(n, ast.Assign) and src(n.targets[0]) == "replacement" and "reduce_op(quantified_formula, replacement)" in src(n.value)]
    ok = len(asg) == 1 and has_fact(facts(asg[0]), "keep_orig_formula")
    ctx.check(ok, "G5-elimination-open", construct, "original kept next to its instantiations when open", site(f), "`replacement = reduce_op(quantified_formula, replacement)` under keep_orig_formula not found", "kept")
    # final fall-through returns the context unchanged (quantifier stays)
    last = f.body[-1]
    ctx.check(isinstance(last, ast.Return) and src(last.value) == "context_formula", "G5-elimination-open", construct, "otherwise unchanged", site(last), "fall-through must leave the quantifier in place", "unchanged")


class _NotFold(Exception):
    pass


def _fold_verdict(f: ast.FunctionDef, name: str):
    """A loop-shaped Kleene connective `for elem in args: ...` is a finite automaton over the three truth values: the local variables hold truth values, the loop body maps
    (state, element) to a new state or a returned value.  Explore the product with the specification automaton (all: F dominates, then U, else T; any: T dominates, then U,
    else F) over ALL input sequences (reachable state pairs - finitely many) and return None if they agree or (input sequence, got, want) for a shortest disagreement."""
    V = ("F", "T", "U")
    param = f.args.args[-1].arg
    body = [s_ for s_ in f.body if not (isinstance(s_, ast.Expr) and isinstance(s_.value, ast.Constant))]
    loops = [s_ for s_ in body if isinstance(s_, ast.For)]
    if len(loops) != 1 or not isinstance(loops[0].target, ast.Name) or loops[0].orelse:
        raise _NotFold("no single for loop")
    loop = loops[0]
    it = loop.iter
    if not (isinstance(it, ast.Name) and it.id == param):
        raise _NotFold("loop does not iterate the argument")
    elem = loop.target.id
    pre, post = body[: body.index(loop)], body[body.index(loop) + 1:]

    def const(e):
        if isinstance(e, ast.Call) and isinstance(e.func, ast.Attribute) and src(e.func.value) == "ThreeValuedTruth" and e.func.attr in ("true", "false", "unknown") and not e.args:
            return {"true": "T", "false": "F", "unknown": "U"}[e.func.attr]
        return None

    def val(e, env):
        c_ = const(e)
        if c_:
            return c_
        if isinstance(e, ast.Name) and e.id in env:
            return env[e.id]
        raise _NotFold(f"value {src(e)[:40]}")

    def test(e, env):
        if isinstance(e, ast.UnaryOp) and isinstance(e.op, ast.Not):
            return not test(e.operand, env)
        if isinstance(e, ast.BoolOp):
            vs = [test(x, env) for x in e.values]
            return all(vs) if isinstance(e.op, ast.And) else any(vs)
        if isinstance(e, ast.Call) and isinstance(e.func, ast.Attribute) and e.func.attr in ("is_true", "is_false", "is_unknown") and not e.args:
            return val(e.func.value, env) == {"is_true": "T", "is_false": "F", "is_unknown": "U"}[e.func.attr]
        raise _NotFold(f"test {src(e)[:40]}")

    def run(stmts, env):
        """returns ('ret', value) or ('go', env)"""
        for st in stmts:
            if isinstance(st, ast.Return) and st.value is not None:
                return "ret", val(st.value, env)
            if isinstance(st, ast.Assign) and len(st.targets) == 1 and isinstance(st.targets[0], ast.Name):
                env = dict(env, **{st.targets[0].id: val(st.value, env)})
            elif isinstance(st, ast.If):
                k, r = run(st.body if test(st.test, env) else st.orelse, env)
                if k in ("ret", "brk", "cnt"):
                    return k, r
                env = r
            elif isinstance(st, ast.Break):
                return "brk", env
            elif isinstance(st, ast.Continue):
                return "cnt", env
            elif isinstance(st, ast.Pass):
                pass
            else:
                raise _NotFold(f"statement {src(st)[:40]}")
        return "go", env

    k, env0 = run(pre, {})
    if k != "go":
        raise _NotFold("return before the loop")
    dom, neutral = ("F", "T") if name == "all" else ("T", "F")

    def spec_step(sp, x):
        if sp == dom or x == dom:
            return dom
        return "U" if "U" in (sp, x) else neutral

    def finish(env):
        k_, r_ = run(post, env)
        if k_ != "ret":
            raise _NotFold("no return after the loop")
        return r_

    start = (tuple(sorted(env0.items())), neutral)
    seen = {start: ()}
    todo = [start]
    while todo:
        cur = todo.pop(0)
        env, sp = dict(cur[0]), cur[1]
        got = finish(env)
        if got != sp:
            return seen[cur], got, sp
        for x in V:
            k_, r_ = run(loop.body, dict(env, **{elem: x}))
            sp2 = spec_step(sp, x)
            if k_ == "ret":
                # an early return is final: it must be right for EVERY continuation, i.e. the spec state must be absorbing and equal
                if not (r_ == sp2 and sp2 == dom):
                    return seen[cur] + (x,), r_, (sp2 if sp2 != dom else sp2) if r_ != sp2 else f"{sp2} so far, but later elements can still change it"
                continue
            if k_ == "brk":
                got2 = finish({k2: v2 for k2, v2 in r_.items() if k2 != elem})
                if not (got2 == sp2 and sp2 == dom):
                    return seen[cur] + (x,), got2, sp2
                continue
            nxt = (tuple(sorted((k2, v2) for k2, v2 in r_.items() if k2 != elem)), sp2)
            if nxt not in seen:
                seen[nxt] = seen[cur] + (x,)
                todo.append(nxt)
    return None


def rule_g6(ctx):
    """Kleene connectives in three_valued_truth.py."""
    m = ctx.repo.module(TVT, "C06.G6")
    for name, first, second, default in (("all", "is_false", "false", "true"), ("any", "is_true", "true", "false")):
        f = ctx.repo.func(TVT, f"ThreeValuedTruth.{name}", "C06.G6")
        ifs = [s for s in f.body if isinstance(s, ast.If)]
        if any(isinstance(s_, ast.For) for s_ in f.body):
            try:
                bad = _fold_verdict(f, name)
            except _NotFold as e:
                raise Unrecognised("C06.G6", f"{TVT}:ThreeValuedTruth.{name}", f"loop-shaped connective not understood ({e})")
            full = {"F": "FALSE", "T": "TRUE", "U": "UNKNOWN"}
            if bad is None:
                ctx.ok("G6-kleene", f"{TVT}:ThreeValuedTruth.{name}", "Kleene fold over all operand sequences", site(f), "agrees with the specification automaton on every reachable state")
            else:
                seq, got, want = bad
                ctx.viol("G6-kleene", f"{TVT}:ThreeValuedTruth.{name}", "Kleene fold over all operand sequences", site(f),
                         f"ThreeValuedTruth.{name}([{', '.join(full[x] for x in seq)}]) yields {full.get(got, got)}, Kleene's {name} yields {full.get(want, want)}: "
                         "an UNKNOWN operand is forgotten, so a verdict on an open tree no longer waits for the open leaves")
            continue
        if len(ifs) != 2:
            raise Unrecognised("C06.G6", f"{TVT}:ThreeValuedTruth.{name}", "expected two guarded returns")
        t1, r1 = src(ifs[0].test), src(ifs[0].body[0])
        t2, r2 = src(ifs[1].test), src(ifs[1].body[0])
        ok = t1 == f"any((elem.{first}() for elem in args))" and r1 == f"return ThreeValuedTruth.{second}()"
        ctx.check(ok, "G6-kleene", f"{TVT}:ThreeValuedTruth.{name}", f"dominant value first ({second})", site(ifs[0]), f"found `{t1}` -> `{r1}`", "dominant value wins")
        ok = t2 == "any((elem.is_unknown() for elem in args))" and r2 == "return ThreeValuedTruth.unknown()"
        ctx.check(ok, "G6-kleene", f"{TVT}:ThreeValuedTruth.{name}", "then UNKNOWN if any operand is unknown", site(ifs[1]), f"found `{t2}` -> `{r2}`", "unknown propagates")
        last = f.body[-1]
        ctx.check(src(last) == f"return ThreeValuedTruth.{default}()", "G6-kleene", f"{TVT}:ThreeValuedTruth.{name}", f"otherwise {default}", site(last), f"found {src(last)}", "neutral value")
    f = ctx.repo.func(TVT, "ThreeValuedTruth.not_", "C06.G6")
    body = " ; ".join(src(s).replace("\n", " ") for s in f.body)
    ok = "if arg.is_true(): return ThreeValuedTruth.false()" in " ".join(body.split()) and "if arg.is_false(): return ThreeValuedTruth.true()" in " ".join(body.split()) and body.strip().endswith("return ThreeValuedTruth.unknown()")
    ctx.check(ok, "G6-kleene", f"{TVT}:ThreeValuedTruth.not_", "true<->false, unknown fixed", site(f), f"found {body[:120]}", "Kleene negation")
    # constants
    cls = m.get("ThreeValuedTruth")
    vals = {}
    for st in cls.body:
        if isinstance(st, ast.Assign) and isinstance(st.value, ast.Constant):
            vals[src(st.targets[0])] = st.value.value
    ctx.check(len({vals.get("FALSE"), vals.get("TRUE"), vals.get("UNKNOWN")}) == 3 and vals.get("FALSE") == 0 and vals.get("TRUE") == 1, "G6-kleene", f"{TVT}:ThreeValuedTruth", "three distinct values, FALSE=0, TRUE=1", site(cls),
              f"found {vals}", "distinct encodings compatible with from_bool(int(b))")
    for meth, const in (("is_true", "TRUE"), ("is_false", "FALSE"), ("is_unknown", "UNKNOWN")):
        f = ctx.repo.func(TVT, f"ThreeValuedTruth.{meth}", "C06.G6")
        ctx.check(src(f.body[-1]) == f"return self.val == ThreeValuedTruth.{const}", "G6-kleene", f"{TVT}:ThreeValuedTruth.{meth}", f"tests {const}", site(f), f"found {src(f.body[-1])}", "tests its own constant")
    for meth, const in (("true", "TRUE"), ("false", "FALSE"), ("unknown", "UNKNOWN")):
        f = ctx.repo.func(TVT, f"ThreeValuedTruth.{meth}", "C06.G6")
        ctx.check(src(f.body[-1]) == f"return ThreeValuedTruth(ThreeValuedTruth.{const})", "G6-kleene", f"{TVT}:ThreeValuedTruth.{meth}", f"builds {const}", site(f), f"found {src(f.body[-1])}", "builds its own constant")


def rule_g7(ctx):
    """The match-expression prefix oracle tries every ancestor of the open leaf, including the root of the reference tree."""
    f = ctx.repo.func(EVAL, "can_extend_leaf_to_make_quantifier_match_parent", "C06.G7")
    c = f"{EVAL}:can_extend_leaf_to_make_quantifier_match_parent"
    loops = [n for n in walk_local(f) if isinstance(n, ast.For) and isinstance(n.target, ast.Name) and n.target.id == "idx"]
    if len(loops) != 1:
        raise Unrecognised("C06.G7", c, "ancestor loop `for idx in ...` not found")
    it = " ".join(src(loops[0].iter).split())
    good = {"reversed(range(len(path_to_nonterminal)))", "range(len(path_to_nonterminal) - 1, -1, -1)", "range(len(path_to_nonterminal))"}
    if it in good:
        ctx.ok("G7-ancestors", c, "every proper prefix incl. the empty path (root)", site(loops[0]), "all ancestors are candidates")
    else:
        import re as _re2

        m = _re2.fullmatch(r"(?:reversed\()?range\((.*)\)\)?", it)
        if m is None:
            raise Unrecognised("C06.G7", c, f"ancestor iteration `{it}` not understood")
        ctx.viol("G7-ancestors", c, "every proper prefix incl. the empty path (root)", site(loops[0]),
                 f"the ancestor loop iterates `{it}`, which does not cover all prefix lengths 0..len(path)-1: an ancestor (e.g. the root of the reference tree) that could still "
                 "come to match the quantifier's match expression is never tried, so the leaf is reported as 'cannot matter' and a definite verdict is returned")
    sub = [n for n in walk_local(f) if isinstance(n, ast.Assign) and src(n.targets[0]) == "subtree"]
    ok = len(sub) == 1 and src(sub[0].value) == "tree.get_subtree(path_to_nonterminal[:idx])"
    ctx.check(ok, "G7-ancestors", c, "candidate = ancestor at the prefix path", site(f), f"found {src(sub[0].value) if sub else None}", "prefix path")
    # count(): more needles possible from ALL open leaves
    cf = ctx.repo.func("src/isla/isla_predicates.py", "count", "C06.G7")
    ln = [n for n in walk_local(cf) if isinstance(n, ast.Assign) and src(n.targets[0]) == "leaf_nonterminals"]
    mp = [n for n in walk_local(cf) if isinstance(n, ast.Assign) and src(n.targets[0]) == "more_needles_possible"]
    ok = len(ln) == 1 and src(ln[0].value) == "[node.value for _, node in in_tree.open_leaves()]" and len(mp) == 1 and " ".join(src(mp[0].value).split()) == "any((reachable(graph, leaf_nonterminal, needle) for leaf_nonterminal in leaf_nonterminals))"
    ctx.check(ok, "G7-count-open", "src/isla/isla_predicates.py:count", "more needles possible = some open leaf (any label) reaches the needle", site(cf),
              f"found leaf_nonterminals={src(ln[0].value) if ln else None}; more_needles_possible={src(mp[0].value)[:90] if mp else None}: filtering open leaves lets count answer definitely although an "
              "open leaf (e.g. one labelled with a recursive needle) can still produce occurrences", "all open leaves considered")


def rule_g9(ctx):
    """evaluate(), path for numeric quantifiers / assumptions: quantifiers over OPEN trees (and other untranslatable parts) are abstracted by uninterpreted placeholder
    predicates and the result is handed to is_valid.  `valid` -> TRUE is sound for every completion; `not valid` only says that SOME interpretation of the placeholders
    falsifies the formula - FALSE additionally needs the negation to be valid (no interpretation satisfies it), otherwise the verdict is UNKNOWN."""
    f = ctx.repo.func(EVAL, "evaluate", "C06.G9")
    c = f"{EVAL}:evaluate"
    def tgt(a):
        t = a.targets[0] if isinstance(a, ast.Assign) and len(a.targets) == 1 else (a.target if isinstance(a, ast.AnnAssign) else None)
        return t.id if isinstance(t, ast.Name) else None

    approx = [a for a in walk_local(f) if isinstance(a, (ast.Assign, ast.AnnAssign)) and isinstance(a.value, ast.Call) and call_name(a.value) == "approximate_isla_to_smt_formula" and tgt(a)]
    if len(approx) != 1:
        raise Unrecognised("C06.G9", c, "smt_formula = approximate_isla_to_smt_formula(...) not found")
    v = tgt(approx[0])
    abstracted = any(k.arg == "replace_untranslatable_with_predicate" and src(k.value) == "True" for k in approx[0].value.keywords) or (len(approx[0].value.args) > 1 and src(approx[0].value.args[1]) == "True")
    res = [a for a in walk_local(f) if isinstance(a, (ast.Assign, ast.AnnAssign)) and isinstance(a.value, ast.Call) and call_name(a.value) == "is_valid" and src(a.value.args[0]) == v and tgt(a)]
    if len(res) != 1:
        raise Unrecognised("C06.G9", c, f"<result> = is_valid({v}) not found")
    r = tgt(res[0])
    loop = parent(approx[0])
    rets = [x for x in ast.walk(loop) if isinstance(x, ast.Return) and x.value is not None and src(x.value) in ("ThreeValuedTruth.false()", "ThreeValuedTruth.true()")] if isinstance(loop, (ast.For, ast.While)) else []
    falses = [x for x in rets if src(x.value) == "ThreeValuedTruth.false()"]
    if not falses:
        raise Unrecognised("C06.G9", c, "no `return ThreeValuedTruth.false()` after the validity query")
    if not abstracted:
        ctx.ok("G9-not-valid-is-not-false", c, "no placeholder abstraction", site(approx[0]), "formula translated exactly")
        return
    for x in falses:
        fs = facts(x)
        neg_valid = [t for t in fs if t.positive and "is_valid(" in t.text and (f"z3.Not({v})" in t.text or f"Not({v})" in t.text) and ".is_true()" in t.text]
        if neg_valid:
            ctx.ok("G9-not-valid-is-not-false", c, "FALSE only when the negation is valid", site(x), neg_valid[0].text[:80])
        elif any(t.positive and t.text == f"{r}.is_false()" for t in fs) or any((not t.positive) and t.text in (f"{r}.is_true()", f"{r}.is_unknown()") for t in fs):
            ctx.viol("G9-not-valid-is-not-false", c, "FALSE only when the negation is valid", site(x),
                     f"FALSE is returned as soon as is_valid({v}) fails, but {v} abstracts quantifiers over open trees by uninterpreted predicates "
                     "(replace_untranslatable_with_predicate=True): 'not valid' only means that SOME interpretation falsifies it.  "
                     "`exists int n: (str.to.int(n) = 1 and exists <var> v in start: v = \"a\")` on the open tree `<var> := 1` is FALSE, its completion `a := 1` is TRUE")
        else:
            raise Unrecognised("C06.G9", c, f"conditions of `return ThreeValuedTruth.false()` not understood: {[str(t)[:60] for t in fs]}")
    trues = [x for x in ast.walk(f) if isinstance(x, ast.Return) and x.value is not None and src(x.value) == "ThreeValuedTruth.true()"]
    ctx.check(len(trues) == 1 and trues[0] in f.body, "G9-not-valid-is-not-false", c, "TRUE only after every assumption set was proven valid", site(trues[0] if trues else f),
              "ThreeValuedTruth.true() must be the fall-through after the loop over the assumption sets", "after the loop")


def rule_g8(ctx):
    """approximate_isla_to_smt_formula abstracts every untranslatable sub-formula by a placeholder predicate recorded in ONE mapping shared by the whole recursion:
    different sub-formulas must get different placeholders, or `P_1 or not P_1` is reported valid for two unrelated operands (TRUE on an open tree whose completions are FALSE)."""
    from ..generic import check_shared_accumulators

    n = check_shared_accumulators(ctx, "G8-placeholder-mapping-shared", ["src/isla/evaluator.py"])
    if n < 1:
        raise Unrecognised("C06.G8", "src/isla/evaluator.py:approximate_isla_to_smt_formula", "the shared placeholder mapping (accumulator parameter with in-body default) was not found")


def run(ctx) -> str:
    ctx.guarded("G7", lambda: rule_g7(ctx))
    ctx.guarded("G8", lambda: rule_g8(ctx))
    ctx.guarded("G9", lambda: rule_g9(ctx))
    ctx.guarded("G1", lambda: rule_g1(ctx))
    ctx.guarded("G2", lambda: rule_g2(ctx))
    ctx.guarded("G3", lambda: rule_g3(ctx))
    ctx.guarded("G4", lambda: rule_g4(ctx))
    ctx.guarded("G5", lambda: rule_g5(ctx))
    ctx.guarded("G6", lambda: rule_g6(ctx))
    # connectives are Kleene-monotone: the aggregator table of C03
    ctx.guarded("E3", lambda: c03.rule_e3(ctx))
    ctx.assume("grammar-graph reachability (graph.reachable) is correct; the match-expression prefix oracle is complete")
    ctx.assume("closures inherit the facts of their definition site (they are only called after it)")
    return EXPLANATION
