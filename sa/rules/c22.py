"""C22 — Solving is reproducible for a fixed random seed (nondeterminism-source analysis)."""

from __future__ import annotations

import ast
import re as _re
from typing import Dict, List, Optional, Set

from ..callgraph import CallGraph, SRC_ISLA
from ..core import Unrecognised, call_name, calls_in, dotted, enclosing_def, facts, has_fact, origins, parent, qual, site, src, walk_local

SOLVER = "src/isla/solver.py"

EXPLANATION = (
    "Static necessary conditions for C22 over every module the solver can reach (src/isla except performance_evaluator.py / optimizer.py, whose exclusion "
    "is verified by import reachability): decided: (S1) every random choice uses a function of Python's module-level generator `random.<fn>` (seeded by the "
    "user); constructing own generators (random.Random / SystemRandom), secrets, uuid, os.urandom, numpy.random, or re-seeding the global generator from a "
    "non-constant are violations; (S2) Z3's seeds/parameters are only set from values drawn from `random.*` or constants; (S3) wall-clock values "
    "(time.time etc.) only flow into the timeout test / start_time, never into a choice; os.getpid, datetime.now, builtin id(), object addresses as sort "
    "keys are violations; (S4) classes of the solver's own modules that are hashed (`hash(x)`, set/dict keys) define __hash__ together with __eq__ (no "
    "address-based identity hash feeding set iteration order); imports of threading / multiprocessing in solver-reachable modules are inventoried. "
    "NOT decided: Z3's internal nondeterminism under its 500 ms timeouts and parallel.enable retries, iteration order of sets of third-party objects."
)

ALLOWED_RANDOM = {"choice", "choices", "randint", "randrange", "shuffle", "random", "sample", "uniform", "getrandbits", "gauss", "betavariate", "expovariate", "triangular"}
FORBIDDEN_CALLS = {
    "random.Random": "own generator (not seeded by the user's random.seed)",
    "random.SystemRandom": "OS entropy",
    "secrets.choice": "OS entropy",
    "secrets.randbelow": "OS entropy",
    "secrets.token_hex": "OS entropy",
    "secrets.token_bytes": "OS entropy",
    "uuid.uuid1": "time/MAC based",
    "uuid.uuid4": "OS entropy",
    "os.urandom": "OS entropy",
    "os.getpid": "process id",
    "datetime.now": "wall clock",
    "datetime.datetime.now": "wall clock",
    "datetime.utcnow": "wall clock",
    "time.time_ns": "wall clock",
    "time.perf_counter": "wall clock",
    "time.monotonic": "wall clock",
    "time.process_time": "cpu clock",
}


def solver_modules(ctx) -> List[str]:
    """Modules under src/isla reachable from solver.py through imports (computed)."""
    todo = [SOLVER]
    seen: Set[str] = set()
    while todo:
        rel = todo.pop()
        if rel in seen:
            continue
        seen.add(rel)
        m = ctx.repo.module(rel, "C22")
        for n in ast.walk(m.tree):
            names = []
            if isinstance(n, ast.Import):
                names = [a.name for a in n.names]
            elif isinstance(n, ast.ImportFrom) and n.module:
                names = [n.module] + [f"{n.module}.{a.name}" for a in n.names]
            for nm in names:
                if nm.startswith("isla.") or nm == "isla":
                    cand = "src/" + nm.replace(".", "/") + ".py"
                    import os

                    if os.path.isfile(os.path.join(ctx.repo.root, cand)):
                        todo.append(cand)
    return sorted(seen)


def is_builtin_name(call: ast.Call, name: str) -> bool:
    """`name(...)` refers to the builtin (not a parameter/local of an enclosing function)."""
    if not (isinstance(call.func, ast.Name) and call.func.id == name):
        return False
    fn = enclosing_def(call)
    while fn is not None:
        params = [a.arg for a in fn.args.args + fn.args.kwonlyargs + fn.args.posonlyargs]
        if name in params:
            return False
        for n in walk_local(fn):
            if isinstance(n, ast.Name) and n.id == name and isinstance(n.ctx, ast.Store):
                return False
        fn = enclosing_def(fn)
    return True


def rule_s(ctx):
    mods = solver_modules(ctx)
    ctx.inventory["solver_reachable_modules"] = mods
    for excl in ("src/isla/performance_evaluator.py", "src/isla/optimizer.py"):
        ctx.check(excl not in mods, "S0-scope", excl, "not imported by the solver", f"{excl}:0", f"{excl} is reachable from solver.py through imports; its timing/multiprocessing code would then matter", "outside the solver's import closure")
    if len(mods) < 10:
        raise Unrecognised("C22.S0", SOLVER, f"only {len(mods)} modules reachable through imports")
    n_random = n_time = n_hash = 0
    hash_inventory: Dict[str, int] = {}
    # classes whose instances are hashed as a component of some explicit __hash__ in the closure (attribute typed by an __init__ parameter annotation)
    hash_reachable = set()
    for rel in mods:
        m0 = ctx.repo.module(rel, "C22")
        for q0, cls0 in m0.classes():
            hf0 = m0.get(f"{q0}.__hash__")
            init0 = m0.get(f"{q0}.__init__")
            if hf0 is None:
                continue
            hashed_attrs = {x.attr for c0 in calls_in(hf0) if is_builtin_name(c0, "hash") for x in ast.walk(c0) if isinstance(x, ast.Attribute) and isinstance(x.value, ast.Name) and x.value.id == "self"}
            ann = {}
            if isinstance(init0, ast.FunctionDef):
                pann = {a.arg: src(a.annotation) for a in init0.args.args + init0.args.kwonlyargs if a.annotation is not None}
                for st in ast.walk(init0):
                    if isinstance(st, (ast.Assign, ast.AnnAssign)):
                        tg = st.targets[0] if isinstance(st, ast.Assign) else st.target
                        if isinstance(tg, ast.Attribute) and isinstance(tg.value, ast.Name) and tg.value.id == "self":
                            t_ = src(st.annotation) if isinstance(st, ast.AnnAssign) else ""
                            if isinstance(st.value, ast.Name) and st.value.id in pann:
                                t_ += " " + pann[st.value.id]
                            ann[tg.attr] = t_
            for st in cls0.body:
                if isinstance(st, ast.AnnAssign) and isinstance(st.target, ast.Name):
                    ann.setdefault(st.target.id, src(st.annotation))
            for a_ in hashed_attrs:
                for w in _re.findall(r"[A-Za-z_][A-Za-z_0-9]*", ann.get(a_, "")):
                    hash_reachable.add(w)
    ctx.inventory["classes_hashed_as_components"] = sorted(hash_reachable)
    for rel in mods:
        m = ctx.repo.module(rel, "C22")
        for c in calls_in(m.tree):
            nm = call_name(c) or ""
            construct = f"{rel}:{qual(c)}"
            # --- S1 random
            if nm.startswith("random."):
                fn = nm.split(".", 1)[1]
                if fn in ALLOWED_RANDOM:
                    n_random += 1
                    ctx.ok("S1-random-source", construct, src(c)[:50], site(c), "module-level generator (seeded by the user)")
                elif fn == "seed":
                    const = all(isinstance(a, ast.Constant) for a in c.args) and bool(c.args)
                    ctx.check(const, "S1-random-source", construct, src(c)[:50], site(c), "the library re-seeds the global generator from a non-constant: the user's seed no longer determines the run", "constant re-seed")
                elif fn in ("Random", "SystemRandom"):
                    ctx.viol("S1-random-source", construct, src(c)[:50], site(c), f"{nm}: {FORBIDDEN_CALLS.get(nm, 'own generator')} - choices made with it do not depend on the user's random.seed")
                else:
                    raise Unrecognised("C22.S1", construct, f"unknown random function {nm}")
                continue
            if nm in FORBIDDEN_CALLS or nm.startswith("numpy.random") or nm.startswith("np.random") or nm.startswith("secrets.") or nm.startswith("uuid."):
                ctx.viol("S1-random-source", construct, src(c)[:50], site(c), f"{nm}: {FORBIDDEN_CALLS.get(nm, 'entropy source outside the seeded generator')}")
                continue
            # --- S3 time
            if nm == "time.time":
                n_time += 1
                ok, why = _time_use_ok(c)
                ctx.check(ok, "S3-clock", construct, src(_stmt(c))[:60], site(c), f"a wall-clock value is used outside the timeout bookkeeping ({why}): it can steer the search", "only timeout bookkeeping")
                continue
            if is_builtin_name(c, "id"):
                ctx.viol("S3-address", construct, src(c)[:50], site(c), "builtin id(): object addresses differ between processes; if they order or select anything the solution sequence is not reproducible")
                continue
            for k in c.keywords:
                if k.arg == "key" and isinstance(k.value, ast.Name) and k.value.id in ("id", "hash") and nm in ("sorted", "min", "max") or (k.arg == "key" and isinstance(c.func, ast.Attribute) and c.func.attr == "sort" and isinstance(k.value, ast.Name) and k.value.id == "id"):
                    if k.value.id == "id":
                        ctx.viol("S3-address", construct, src(c)[:50], site(c), "ordering by object address")
            # --- S2 z3 seeds
            if nm == "z3.set_param" and len(c.args) == 2 and isinstance(c.args[0], ast.Constant) and "seed" in str(c.args[0].value):
                _check_seed_value(ctx, c, c.args[1], construct)
                continue
            if isinstance(c.func, ast.Attribute) and c.func.attr == "set" and c.args and isinstance(c.args[0], ast.Constant) and "seed" in str(c.args[0].value) and len(c.args) == 2:
                _check_seed_value(ctx, c, c.args[1], construct)
                continue
            for k in c.keywords:
                if k.arg and "seed" in k.arg and nm.startswith("z3."):
                    _check_seed_value(ctx, c, k.value, construct)
            if is_builtin_name(c, "hash"):
                n_hash += 1
                hash_inventory[rel] = hash_inventory.get(rel, 0) + 1
        # --- S4 classes: __hash__ with __eq__
        for q, cls in m.classes():
            has_eq = m.get(f"{q}.__eq__") is not None
            has_hash = m.get(f"{q}.__hash__") is not None
            is_dc = any("dataclass" in src(d) for d in cls.decorator_list)
            if has_eq and not has_hash and not is_dc:
                # Python sets __hash__ = None: unhashable (loud), not nondeterministic
                ctx.ok("S4-hash-eq", f"{rel}:{q}", "__eq__ without __hash__ -> unhashable", site(cls), "cannot silently fall back to the address hash")
            elif has_hash:
                hf = m.get(f"{q}.__hash__")
                bad = [x for x in calls_in(hf) if is_builtin_name(x, "id") or (call_name(x) or "").endswith("object.__hash__")]
                ctx.check(not bad, "S4-hash-eq", f"{rel}:{q}.__hash__", "hash does not use the object address", site(hf), "__hash__ is derived from id()/object.__hash__ (address): set iteration order differs between processes", "value-based hash")
                # class objects and functions hash by address: `type(self)` / `self.__class__` as a hashed component (their __name__ is fine)
                addr = _address_hashed_components(hf)
                ctx.check(not addr, "S4-hash-eq", f"{rel}:{q}.__hash__", "no class object / function among the hashed components", site(hf),
                          f"__hash__ hashes {addr}: a class object (or function) hashes by its address, which differs between processes, so hash(state)-based tie breaking and set iteration "
                          "order - and with them the sequence of solutions - are not reproducible (use type(self).__name__)", "hash of names/values only")
            elif is_dc:
                # dataclass-generated __hash__: (eq and frozen) or unsafe_hash -> hash of ALL fields (compare=True); a Callable field hashes by address
                deco = next(d for d in cls.decorator_list if "dataclass" in src(d))
                kw = {k.arg: src(k.value) for k in deco.keywords} if isinstance(deco, ast.Call) else {}
                generated = kw.get("unsafe_hash") == "True" or (kw.get("eq", "True") == "True" and kw.get("frozen") == "True")
                if kw.get("eq") == "False" and kw.get("unsafe_hash") != "True":
                    ctx.note("S4-hash-eq", f"{rel}:{q}", "dataclass(eq=False): identity hash", site(cls), "instances hash by address (inventory; a violation only if such instances are ordered or used as set elements)")
                elif generated:
                    callable_fields = [src(st.target) for st in cls.body if isinstance(st, ast.AnnAssign) and _is_callable_annotation(st.annotation) and not _field_excluded_from_hash(st.value)]
                    if callable_fields and q not in hash_reachable:
                        ctx.note("S4-hash-eq", f"{rel}:{q}", "generated dataclass hash includes a function field", site(cls),
                                 f"fields {callable_fields} hash by address, but no __hash__ in the solver's modules hashes an attribute of type {q} (inventory only)")
                        continue
                    ctx.check(not callable_fields, "S4-hash-eq", f"{rel}:{q}", "generated dataclass hash covers value fields only", site(cls),
                              f"the dataclass-generated __hash__ (frozen/eq) includes the field(s) {callable_fields} of function type: functions hash by address, so hash(<formula containing this "
                              "predicate>) differs between processes and with it heap tie-breaking by hash(state) and set iteration order", "explicit value-based __hash__ or field(hash=False)")
                else:
                    ctx.ok("S4-hash-eq", f"{rel}:{q}", "dataclass without generated hash -> unhashable", site(cls), "eq without frozen: __hash__ is None")
        for n in ast.walk(m.tree):
            if isinstance(n, (ast.Import, ast.ImportFrom)):
                names = [a.name for a in n.names] if isinstance(n, ast.Import) else [n.module or ""]
                for nmx in names:
                    if nmx.split(".")[0] in ("threading", "multiprocessing", "concurrent", "pathos", "asyncio"):
                        ctx.note("S4-concurrency", rel, f"import {nmx}", site(n), "concurrency module imported in a solver-reachable module (inventory)")
    ctx.inventory["random_call_sites"] = n_random
    ctx.inventory["time_call_sites"] = n_time
    ctx.inventory["hash_call_sites_by_module"] = hash_inventory
    if n_random < 15:
        raise Unrecognised("C22.S1", "src/isla", f"only {n_random} random.* call sites found (expected >= 15)")
    if n_time < 2:
        raise Unrecognised("C22.S3", "src/isla", f"only {n_time} time.time() sites found (expected the solver's timeout bookkeeping)")
    # positive fixture: the zero-expected rules must be able to fire
    fx = ast.parse("import random, time\ndef f(xs):\n    r = random.Random(time.time())\n    return sorted(xs, key=id)[0], id(xs), r.choice(xs)\n")
    for n in ast.walk(fx):
        for ch in ast.iter_child_nodes(n):
            ch._parent = n
    hits = 0
    for c in [x for x in ast.walk(fx) if isinstance(x, ast.Call)]:
        nm = call_name(c) or ""
        if nm == "random.Random":
            hits += 1
        if is_builtin_name(c, "id"):
            hits += 1
        if nm == "time.time" and not _time_use_ok(c)[0]:
            hits += 1
    if hits != 3:
        raise Unrecognised("C22", "fixture", f"positive fixture fired {hits}/3 times")


def _stmt(n: ast.AST) -> ast.AST:
    cur = n
    while parent(cur) is not None and not isinstance(cur, ast.stmt):
        cur = parent(cur)
    return cur


def _time_use_ok(c: ast.Call):
    """time.time() is fine when its value is stored in *.start_time or compared in a test guarding a TimeoutError."""
    st = _stmt(c)
    if isinstance(st, (ast.Assign, ast.AnnAssign)):
        tg = st.targets if isinstance(st, ast.Assign) else [st.target]
        if all((dotted(t) or "").endswith(".start_time") or (dotted(t) or "") in ("start_time", "old_start_time") for t in tg):
            return True, "start_time"
        return False, f"assigned to {[src(t) for t in tg]}"
    if isinstance(st, ast.If):
        cmp_ = None
        cur = c
        while cur is not st:
            if isinstance(cur, ast.Compare):
                cmp_ = cur
            cur = parent(cur)
        raises = [x for x in ast.walk(st) if isinstance(x, ast.Raise) and "TimeoutError" in src(x)]
        if cmp_ is not None and raises and len(st.body) <= 3:
            return True, "timeout test"
        return False, "used in a condition that is not the timeout test"
    return False, f"used in {type(st).__name__}"


def _check_seed_value(ctx, call, value, construct):
    fn = enclosing_def(call)
    ok = False
    why = src(value)
    if isinstance(value, ast.Constant):
        ok = True
    else:
        names = {call_name(x) or "" for x in ast.walk(value) if isinstance(x, ast.Call)}
        if names and all(n.startswith("random.") and n.split(".")[1] in ALLOWED_RANDOM for n in names):
            ok = True
        elif fn is not None:
            o = origins(fn, value)
            ok = any(x.startswith("random.") for x in o) and not any(x.startswith("time.") or x.startswith("os.") for x in o)
            why = f"{src(value)} <- {sorted(o)[:6]}"
    ctx.check(ok, "S2-z3-seed", construct, src(call)[:60], site(call),
              f"Z3 is seeded from `{why}`, which is neither a constant nor drawn from the user-seeded `random` module: two runs with the same random.seed diverge", "seed derived from random.* / constant")


def _address_hashed_components(hf: ast.AST):
    out = []
    for c in calls_in(hf):
        if not is_builtin_name(c, "hash") or not c.args:
            continue
        comps = c.args[0].elts if isinstance(c.args[0], ast.Tuple) else [c.args[0]]
        for e in comps:
            t = src(e)
            if (isinstance(e, ast.Call) and call_name(e) == "type" and len(e.args) == 1) or t.endswith(".__class__") or t in ("self.eval_fun", "self.evaluate"):
                out.append(t)
            # raw Z3 handles: `.ast` / `.as_ast()` / `.ctx.ref()` are ctypes pointers, `.value` of one is the address of the native node
            elif t.endswith(".ast.value") or t.endswith(".ast") or t.endswith(".as_ast()") or t.endswith(".as_ast().value") or ".ctx.ref()" in t:
                out.append(f"{t} (address of a native Z3 node)")
    return out


def _is_callable_annotation(a: ast.AST) -> bool:
    t = src(a)
    return t.startswith("Callable") or t.startswith("typing.Callable") or t.startswith("collections.abc.Callable") or "Callable[" in t.split("|")[0]


def _field_excluded_from_hash(v) -> bool:
    if isinstance(v, ast.Call) and call_name(v) in ("field", "dataclasses.field"):
        kw = {k.arg: src(k.value) for k in v.keywords}
        return kw.get("hash") == "False" or kw.get("compare") == "False"
    return False


def run(ctx) -> str:
    ctx.guarded("S", lambda: rule_s(ctx))
    ctx.assume("fresh interpreter with fixed PYTHONHASHSEED (str hashes fixed), as the property states; DerivationTree ids come from a process-local counter")
    ctx.assume("Z3's own behaviour under equal seeds/parameters is deterministic up to its timeouts - NOT decided")
    return EXPLANATION
