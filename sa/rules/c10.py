"""C10 — The parser accepts exactly the grammar's language and returns faithful trees (gate-only: rejection is total)."""

from __future__ import annotations

import ast

from ..core import Unrecognised, call_name, calls_in, close_facts, facts, has_fact, parent, site, src, walk_local
from . import c18

PARSER = "src/isla/parser.py"

EXPLANATION = (
    "Weakest level (gate only) for C10 over src/isla/parser.py and ISLaSolver.parse: decided: (R1) rejection is total - in EarleyParser.parse every yield "
    "is dominated by 'the whole text was consumed' (not cursor < len(text)) and by 'a finished start item was found', in Parser.parse the return likewise; "
    "the trees yielded are extracted from the forest rooted at that finished start item and pruned; (R2) the start symbol handed to chart_parse has exactly "
    "one alternative (chart_parse unpacks the alternatives with tuple(*alts)): a start symbol with several alternatives is redirected to the auxiliary "
    "single-rule symbol which prune_tree strips again; (R3) coalescing only merges adjacent terminal children and keeps nonterminal children in order; "
    "(R4) ISLaSolver.parse builds the parser from a copy of its grammar, unwraps the <start> wrapper exactly when another nonterminal was requested and "
    "re-raises SyntaxError unchanged (shared with C18); (R5) the nullable set is the least fixed point over all productions; (R6) scan / complete / predict "
    "(incl. the nullable skip), the chart driver and the item operations have their textbook shape (any other shape is an ANALYSIS-ERROR, three recognised "
    "wrong shapes are violations). NOT decided: that the textbook algorithm as a whole is complete for every grammar, and forest extraction - these are "
    "properties of chart contents per (grammar, string)."
)


def rule_r1(ctx):
    f = ctx.repo.func(PARSER, "EarleyParser.parse", "C10.R1")
    c = f"{PARSER}:EarleyParser.parse"
    ys = [n for n in walk_local(f) if isinstance(n, (ast.Yield, ast.YieldFrom))]
    if not ys:
        raise Unrecognised("C10.R1", c, "no yield found")
    for y in ys:
        fs = close_facts(facts(y))
        ok1 = has_fact(fs, "cursor < len(text)", False)
        ok2 = has_fact(fs, "start") or has_fact(fs, "not start", False)
        ctx.check(ok1, "R1-rejection-total", c, "yield only if the whole text was consumed", site(y), "a tree is yielded although the longest parsed prefix is shorter than the text", "dominated by not (cursor < len(text))")
        ctx.check(ok2, "R1-rejection-total", c, "yield only if a finished start item exists", site(y), "a tree is yielded without a finished item of the start symbol in the final column", "dominated by `start`")
        v = y.value
        ctx.check(src(v) == "self.prune_tree(tree)", "R1-tree-provenance", c, "yields pruned trees of the forest", site(y), f"yields {src(v)}", "prune_tree(tree)")
    st = [n for n in walk_local(f) if isinstance(n, ast.Assign) and src(n.targets[0]) == "start"]
    ok = len(st) == 1 and src(st[0].value) == "next((s for s in states if s.finished()), None)"
    ctx.check(ok, "R1-rejection-total", c, "start = first FINISHED start item", site(f), f"found {src(st[0].value) if st else None}", "finished items only")
    fo = [n for n in walk_local(f) if isinstance(n, ast.Assign) and src(n.targets[0]) == "forest"]
    ok = len(fo) == 1 and src(fo[0].value) == "self.parse_forest(self.table, start)"
    ctx.check(ok, "R1-tree-provenance", c, "forest rooted at the finished start item", site(f), f"found {src(fo[0].value) if fo else None}", "parse_forest(self.table, start)")
    rs = [n for n in walk_local(f) if isinstance(n, ast.Raise)]
    ok = len(rs) == 1 and call_name(rs[0].exc) == "SyntaxError" and isinstance(parent(rs[0]), ast.If) and src(parent(rs[0]).test) == "cursor < len(text) or not start"
    ctx.check(ok, "R1-rejection-total", c, "SyntaxError iff incomplete or no finished start item", site(f), "rejection condition changed", "cursor < len(text) or not start")
    pp = ctx.repo.func(PARSER, "EarleyParser.parse_prefix", "C10.R1")
    comps = [n for n in ast.walk(pp) if isinstance(n, ast.ListComp) and len(n.generators) == 1 and src(n.generators[0].iter) == "col.states" and src(n.elt) == src(n.generators[0].target)]
    scan = any(isinstance(n, ast.For) and src(n.iter) == "reversed(self.table)" for n in walk_local(pp))
    if len(comps) != 1 or not scan:
        single = [x for x in ast.walk(pp) if isinstance(x, ast.Call) and call_name(x) == "next" and x.args and isinstance(x.args[0], ast.GeneratorExp) and "col.states" in src(x.args[0].generators[0].iter)]
        if single and scan:
            ctx.viol("R1-rejection-total", f"{PARSER}:EarleyParser.parse_prefix", "ALL start-symbol items of the column are handed to parse()", site(single[0]),
                     "only one start item per column is returned (the first of `" + src(single[0].args[0].generators[0].iter)[:40] + "`): parse() looks for a FINISHED item among the returned ones; "
                     "with a nullable tail (<start> ::= <word><suffix>, <suffix> ::= \"\" | \"a\") the finished item is not the most recently added one and a member of the language is rejected")
            return
        raise Unrecognised("C10.R1", f"{PARSER}:EarleyParser.parse_prefix", "selection of the start-symbol items (reversed table scan) not found")
    conds = " and ".join(" ".join(src(i).split()) for i in comps[0].generators[0].ifs)
    v = src(comps[0].generators[0].target)
    ctx.check(f"{v}.name == self.start_symbol()" in conds, "R1-rejection-total", f"{PARSER}:EarleyParser.parse_prefix", "only items of the start symbol are candidates", site(comps[0]), f"filter is `{conds}`", "st.name == self.start_symbol()")
    ctx.check(f"{v}.s_col.index == 0" in conds, "R1-whole-span", f"{PARSER}:EarleyParser.parse_prefix", "start items must begin at position 0", site(comps[0]),
              f"any item of the start symbol in the last column is accepted (`{conds}`): when the start symbol is reachable from itself (<start> ::= \"a\"<B>, <B> ::= <start> | \"\") there are finished "
              "start items for suffixes only, and parse(\"aa\") returns the tree of \"a\" - the yielded tree's string is not the input", "st.s_col.index == 0")
    g = ctx.repo.func(PARSER, "Parser.parse", "C10.R1")
    for r in [n for n in walk_local(g) if isinstance(n, ast.Return)]:
        ctx.check(has_fact(facts(r), "cursor < len(text)", False), "R1-rejection-total", f"{PARSER}:Parser.parse", "returns only if the whole text was consumed", site(r), "returns trees for a proper prefix", "dominated")


def rule_r2(ctx):
    cp = ctx.repo.func(PARSER, "EarleyParser.chart_parse", "C10.R2")
    unp = [c for c in calls_in(cp) if call_name(c) == "tuple" and c.args and isinstance(c.args[0], ast.Starred)]
    if not unp:
        ctx.ok("R2-single-start-rule", f"{PARSER}:EarleyParser.chart_parse", "no star-unpacking of the alternatives", site(cp), "start alternatives are not unpacked")
        return
    init = ctx.repo.func(PARSER, "Parser.__init__", "C10.R2")
    redirected = False
    for n in walk_local(init):
        if isinstance(n, ast.If) and "len(grammar.get(self._start_symbol, [])) != 1" in src(n.test):
            adds = any(isinstance(s, ast.Assign) and src(s.targets[0]) == "self.cgrammar['<>']" and src(s.value) == "[[self._start_symbol]]" for s in n.body)
            sets = any(isinstance(s, ast.Assign) and src(s.targets[0]) == "self._start_symbol" and src(s.value) == "'<>'" for s in n.body)
            order_ok = True
            if adds and sets:
                ia = next(i for i, s in enumerate(n.body) if isinstance(s, ast.Assign) and src(s.targets[0]) == "self.cgrammar['<>']")
                is_ = next(i for i, s in enumerate(n.body) if isinstance(s, ast.Assign) and src(s.targets[0]) == "self._start_symbol")
                order_ok = ia < is_
            redirected = adds and sets and order_ok
    ctx.check(redirected, "R2-single-start-rule", f"{PARSER}:Parser.__init__", "several start alternatives -> auxiliary single-rule start symbol", site(init),
              "chart_parse unpacks the start symbol's alternatives with tuple(*alts), which needs exactly one alternative; for a start symbol with several alternatives the "
              "constructor adds the auxiliary rule '<>' but keeps parsing from the original symbol: EarleyParser(g).parse(...) raises TypeError for {'<start>': ['a', 'b']}",
              "start symbol redirected to '<>'")
    pt = ctx.repo.func(PARSER, "Parser.prune_tree", "C10.R2")
    ok = any(isinstance(n, ast.If) and src(n.test) == "name == '<>'" and any(isinstance(s, ast.Return) and src(s.value) == "self.prune_tree(children[0])" for s in n.body) for n in walk_local(pt))
    ctx.check(ok, "R2-single-start-rule", f"{PARSER}:Parser.prune_tree", "auxiliary root stripped", site(pt), "the auxiliary '<>' root must be removed from returned trees", "stripped")


def rule_r3(ctx):
    f = ctx.repo.func(PARSER, "Parser.coalesce", "C10.R3")
    c = f"{PARSER}:Parser.coalesce"
    aug = [n for n in walk_local(f) if isinstance(n, ast.AugAssign) and src(n.target) == "last"]
    ok = len(aug) == 1 and src(aug[0].value) == "cn" and has_fact(facts(aug[0]), "cn in self._grammar", False)
    ctx.check(ok, "R3-coalesce", c, "only terminal children are merged", site(f), "text is merged from children that may be nonterminals", "merge under `cn not in self._grammar`")
    app = [x for x in calls_in(f) if isinstance(x.func, ast.Attribute) and x.func.attr == "append"]
    texts = [src(a.args[0]) for a in app]
    ctx.check(texts.count("(last, [])") == 2 and "(cn, cc)" in texts, "R3-coalesce", c, "pending text flushed before a nonterminal and at the end", site(f), f"appends {texts}", "flush + keep order")
    loops = [n for n in walk_local(f) if isinstance(n, ast.For)]
    ctx.check(len(loops) == 1 and src(loops[0].iter) == "children", "R3-coalesce", c, "children visited in order", site(f), "iteration over children changed", "in order")


def rule_r5(ctx):
    """Shape of the nullable-set computation (the chart's nullable prediction depends on it): least fixed point of
    'A is nullable if some production of A consists of nullable symbols only'."""
    f = ctx.repo.func(PARSER, "nullable", "C10.R5")
    c = f"{PARSER}:nullable"
    inner = next((n for n in ast.walk(f) if isinstance(n, ast.FunctionDef) and n is not f), None)
    fix = inner is not None and any(src(d) == "fixpoint" for d in inner.decorator_list)
    body_ok = inner is not None and any(isinstance(n, ast.If) and src(n.test) == "nullable_expr(expr, nullables)" for n in ast.walk(inner)) and any(isinstance(n, ast.AugAssign) and src(n.target) == "nullables" and src(n.value) == "{A}" for n in ast.walk(inner))
    start = any(isinstance(r, ast.Return) and src(r.value).endswith("({EPSILON})") for r in walk_local(f))
    single_pass = inner is None and not any(isinstance(n, ast.While) for n in ast.walk(f)) and any(isinstance(n, ast.For) and "rules(grammar)" in src(n.iter) or (isinstance(n, ast.For) and src(n.iter) == "productions") for n in walk_local(f))
    if single_pass:
        ctx.viol("R5-nullable-fixpoint", c, "least fixed point over all productions", site(f),
                 "nullable() makes a single pass over the productions: a nonterminal whose nullable parts are declared AFTER it (<a> ::= <b> before <b> ::= \"\") is not recognised as nullable, "
                 "the prediction shortcut for nullable nonterminals is skipped and members of the language are rejected with SyntaxError")
        return
    if not (fix and body_ok and start):
        raise Unrecognised("C10.R5", c, "nullable() is no longer the recognised fixed-point iteration over all productions; its correctness (e.g. productions that repeat a nullable symbol) must be re-established")
    ctx.ok("R5-nullable-fixpoint", c, "least fixed point over all productions", site(f), "fixpoint iteration of nullable_expr")
    ne = ctx.repo.func(PARSER, "nullable_expr", "C10.R5")
    ctx.check(src(ne.body[-1]) == "return all((token in nullables for token in expr))", "R5-nullable-fixpoint", f"{PARSER}:nullable_expr", "all symbols of the production nullable", site(ne), f"found {src(ne.body[-1])}", "all()")
    fp = ctx.repo.func(PARSER, "fixpoint", "C10.R5")
    t = " ".join(src(fp).split())
    ctx.check("while True" in t and "if str(arg_) == sarg: return arg" in t.replace("\n", " "), "R5-nullable-fixpoint", f"{PARSER}:fixpoint", "iterate until unchanged", site(fp), "fixpoint helper changed", "until stable")


def _norm(node) -> str:
    return " ".join(src(node).split())


def rule_r6(ctx):
    """The three Earley operations and the chart driver have their textbook shape (necessary for 'accepts exactly the language'):
    scan advances only over the matching input letter, complete advances exactly the items waiting for the completed nonterminal in its start column,
    predict adds every alternative at dot 0 in the current column and skips nullable nonterminals, the driver picks the operation by the symbol after the dot."""
    def fn(name):
        return ctx.repo.func(PARSER, name, "C10.R6")

    # scan
    f = fn("EarleyParser.scan")
    c = f"{PARSER}:EarleyParser.scan"
    adds = [x for x in calls_in(f) if call_name(x) == "col.add"]
    if len(adds) != 1 or src(adds[0].args[0]) != "state.advance()":
        raise Unrecognised("C10.R6", c, "scan does not add state.advance() exactly once")
    if has_fact(facts(adds[0]), "letter == col.letter") or has_fact(facts(adds[0]), "col.letter == letter"):
        ctx.ok("R6-scan", c, "advance only over the matching letter", site(adds[0]), "letter == col.letter")
    elif not facts(adds[0]):
        ctx.viol("R6-scan", c, "advance only over the matching letter", site(adds[0]), "scan advances the item without comparing the expected terminal with the input letter: every string of the right length is accepted")
    else:
        raise Unrecognised("C10.R6", c, f"scan guard {[x.text for x in facts(adds[0])]} not understood")
    # complete
    f = fn("EarleyParser.earley_complete")
    c = f"{PARSER}:EarleyParser.earley_complete"
    ps = [a for a in walk_local(f) if isinstance(a, ast.Assign) and src(a.targets[0]) == "parent_states"]
    if len(ps) != 1 or not isinstance(ps[0].value, ast.ListComp) or len(ps[0].value.generators) != 1:
        raise Unrecognised("C10.R6", c, "parent_states comprehension not found")
    g = ps[0].value.generators[0]
    ctx.check(src(g.iter) == "state.s_col.states", "R6-complete", c, "parents are looked up in the START column of the completed item", site(g.iter), f"parents taken from `{src(g.iter)}`", "state.s_col.states")
    conds = [_norm(i) for i in g.ifs]
    if conds == ["st.at_dot() == state.name"] or conds == ["state.name == st.at_dot()"]:
        ctx.ok("R6-complete", c, "only items waiting for the completed nonterminal advance", site(g), conds[0])
    elif not conds:
        ctx.viol("R6-complete", c, "only items waiting for the completed nonterminal advance", site(g), "every item of the start column is advanced on completion, whatever symbol it waits for")
    else:
        raise Unrecognised("C10.R6", c, f"completion filter {conds} not understood")
    loops = [n for n in walk_local(f) if isinstance(n, ast.For) and src(n.iter) == "parent_states"]
    ok = len(loops) == 1 and [_norm(x) for x in loops[0].body] == ["col.add(st.advance())"]
    ctx.check(ok, "R6-complete", c, "each waiting parent is advanced into the current column", site(f), "loop over parent_states must add st.advance() to col", "col.add(st.advance())")
    dl = fn("EarleyParser.complete")
    ctx.check(_norm(dl.body[-1]) == "return self.earley_complete(col, state)", "R6-complete", f"{PARSER}:EarleyParser.complete", "complete delegates with (col, state)", site(dl), f"found {_norm(dl.body[-1])}", "delegation")
    # predict
    f = fn("EarleyParser.predict")
    c = f"{PARSER}:EarleyParser.predict"
    loops = [n for n in walk_local(f) if isinstance(n, ast.For)]
    ok = len(loops) == 1 and src(loops[0].iter) == "self.cgrammar[sym]" and [_norm(x) for x in loops[0].body] == [f"col.add(State(sym, tuple({src(loops[0].target)}), 0, col))"]
    if not ok:
        raise Unrecognised("C10.R6", c, "prediction loop not in the recognised shape (every alternative of sym at dot 0, started in the current column)")
    ctx.ok("R6-predict", c, "every alternative predicted at dot 0 in the current column", site(loops[0]), "State(sym, tuple(alt), 0, col)")
    eps = [n for n in f.body if isinstance(n, ast.If) and _norm(n.test) == "sym in self.epsilon"]
    if len(eps) == 1 and [_norm(x) for x in eps[0].body] == ["col.add(state.advance())"] and not eps[0].orelse:
        ctx.ok("R6-predict", c, "a nullable nonterminal is skipped at prediction time", site(eps[0]), "if sym in self.epsilon: col.add(state.advance())")
    elif not [n for n in f.body if isinstance(n, ast.If)]:
        ctx.viol("R6-predict", c, "a nullable nonterminal is skipped at prediction time", site(f),
                 "predict no longer advances the predicting item over a nullable nonterminal: a completion of the empty derivation that happened earlier in the same column is missed and words that need it are rejected")
    else:
        raise Unrecognised("C10.R6", c, "nullable handling in predict not understood")
    init = fn("EarleyParser.__init__")
    ok = any(_norm(x) == "self.epsilon = nullable(self.cgrammar)" for x in init.body)
    ctx.check(ok, "R6-predict", f"{PARSER}:EarleyParser.__init__", "epsilon = nullable set of the canonical grammar", site(init), "self.epsilon must be nullable(self.cgrammar)", "nullable(self.cgrammar)")
    # driver
    f = fn("EarleyParser.fill_chart")
    c = f"{PARSER}:EarleyParser.fill_chart"
    t = _norm(f)
    want = ("for i, col in enumerate(chart): for state in col.states: if state.finished(): self.complete(col, state) else: sym = state.at_dot() "
            "if sym in self.cgrammar: self.predict(col, sym, state) else: if i + 1 >= len(chart): continue self.scan(chart[i + 1], state, sym)")
    if want not in t:
        raise Unrecognised("C10.R6", c, "chart driver not in the recognised shape")
    ctx.ok("R6-driver", c, "finished -> complete; nonterminal -> predict; terminal -> scan into the next column", site(f), "recognised driver")
    f = fn("EarleyParser.chart_parse")
    c = f"{PARSER}:EarleyParser.chart_parse"
    t = _norm(f)
    ok = "chart = [Column(i, tok) for i, tok in enumerate([None, *words])]" in t and "chart[0].add(State(start, alt, 0, chart[0]))" in t and "return self.fill_chart(chart)" in t
    if not ok:
        raise Unrecognised("C10.R6", c, "chart initialisation not in the recognised shape")
    ctx.ok("R6-driver", c, "one column per input letter plus column 0 holding the start item", site(f), "recognised initialisation")
    # items
    for q, want_body in (("Item.finished", "return self.dot >= len(self.expr)"), ("Item.at_dot", "return self.expr[self.dot] if self.dot < len(self.expr) else None"),
                         ("State.advance", "return State(self.name, self.expr, self.dot + 1, self.s_col)"), ("State._t", "return (self.name, self.expr, self.dot, self.s_col.index)")):
        g_ = fn(q)
        ctx.check(_norm(g_.body[-1]) == want_body, "R6-items", f"{PARSER}:{q}", want_body, site(g_), f"found `{_norm(g_.body[-1])}`", "textbook item operation")
    add = fn("Column.add")
    t = _norm(add)
    ok = "if state in self._unique: return self._unique[state]" in t and "self.states.append(state)" in t and "state.e_col = self" in t
    ctx.check(ok, "R6-items", f"{PARSER}:Column.add", "items unique per column; end column recorded", site(add), "Column.add changed", "dedup + e_col")


def rule_r7(ctx):
    """Parser state: (a) the chart is rebuilt for every parse_prefix call (a reuse test would have to include the start symbol, which parse_on swaps);
    (b) forest nodes carry the chart they were built from, so the lazy generators returned by parse() do not read whatever chart the parser holds later."""
    pp = ctx.repo.func(PARSER, "EarleyParser.parse_prefix", "C10.R7")
    c = f"{PARSER}:EarleyParser.parse_prefix"
    asg = [a for a in walk_local(pp) if isinstance(a, ast.Assign) and src(a.targets[0]) == "self.table"]
    if len(asg) != 1 or "self.chart_parse(text, self.start_symbol())" not in " ".join(src(asg[0].value).split()):
        raise Unrecognised("C10.R7", c, "self.table = self.chart_parse(text, self.start_symbol()) not found")
    fs = facts(asg[0])
    if not fs:
        ctx.ok("R7-chart-per-call", c, "chart rebuilt on every call", site(asg[0]), "unconditional")
    else:
        mentions_start = any("start_symbol" in f_.text for f_ in fs)
        ctx.check(mentions_start, "R7-chart-per-call", c, "chart reuse depends on text AND start symbol", site(asg[0]),
                  f"the chart is only rebuilt under {[f_.text for f_ in fs]}: parse_on() swaps the start symbol, so asking the same parser about the same text for another nonterminal reuses the chart "
                  "of the previous start symbol - strings of the requested nonterminal are rejected and others accepted", "unconditional, or keyed by (text, start symbol)")
    fo = ctx.repo.func(PARSER, "EarleyParser.forest", "C10.R7")
    c2 = f"{PARSER}:EarleyParser.forest"
    t = " ".join(src(fo).split())
    params = [a.arg for a in fo.args.args]
    if "self.parse_forest(chart, s)" in t and "chart" in params:
        ctx.ok("R7-forest-carries-chart", c2, "sub-forests are resolved against the chart stored in the node", site(fo), "parse_forest(chart, s)")
    elif "self.parse_forest(self.table" in t:
        ctx.viol("R7-forest-carries-chart", c2, "sub-forests are resolved against the chart stored in the node", site(fo),
                 "sub-forests are resolved lazily against `self.table`, the parser's CURRENT chart: parse() returns a generator, so after `g = p.parse(a); next(g); p.parse(b)` the remaining trees of "
                 "`a` are built from b's chart (they unparse to b or raise IndexError)")
    else:
        raise Unrecognised("C10.R7", c2, "forest() not in the recognised shape")
    pf = ctx.repo.func(PARSER, "EarleyParser.parse_forest", "C10.R7")
    ok = "(v, k, chart) for v, k in reversed(pathexpr)" in " ".join(src(pf).split())
    if not ok and "self.parse_forest(self.table" not in t:
        raise Unrecognised("C10.R7", f"{PARSER}:EarleyParser.parse_forest", "forest entries (v, k, chart) not found")


def _module_globals_assigned(m):
    """names assigned by functions through a `global` declaration -> [function nodes]"""
    out = {}
    for q, fn in m.functions():
        for g in [n for n in walk_local(fn) if isinstance(n, ast.Global)]:
            for nm in g.names:
                if any(isinstance(x, ast.Name) and x.id == nm and isinstance(x.ctx, ast.Store) for x in walk_local(fn)):
                    out.setdefault(nm, []).append((q, fn))
    return out


def rule_r8(ctx):
    """One tokenisation of expansions: every module that splits an expansion into symbols uses the SAME pattern (helpers.RE_NONTERMINAL).  A parser with a pattern of its
    own reads `<e'>` as terminal text while the rest of the system (grammar graph, fuzzer, is_nonterminal) treats it as a nonterminal: the accepted language changes."""
    H = "src/isla/helpers.py"
    hm = ctx.repo.module(H, "C10.R8")
    ref = hm.constants().get("RE_NONTERMINAL")
    if not (isinstance(ref, ast.Call) and src(ref.func) == "re.compile" and ref.args and isinstance(ref.args[0], ast.Constant)):
        raise Unrecognised("C10.R8", f"{H}:RE_NONTERMINAL", "reference pattern is not re.compile(<constant>)")
    pattern = ref.args[0].value
    n = 0
    for rel in (PARSER, "src/isla/fuzzer.py", "src/isla/language.py", "src/isla/existential_helpers.py", "src/isla/mutator.py", "src/isla/solver.py", "src/isla/isla_predicates.py"):
        if not ctx.repo.exists(rel):
            continue
        m = ctx.repo.module(rel, "C10.R8")
        uses = [x for x in ast.walk(m.tree) if isinstance(x, ast.Name) and x.id == "RE_NONTERMINAL" and isinstance(x.ctx, ast.Load)]
        if not uses:
            continue
        n += 1
        local = m.constants().get("RE_NONTERMINAL")
        imported = any(isinstance(i, ast.ImportFrom) and (i.module or "").endswith("helpers") and any(a.name == "RE_NONTERMINAL" and a.asname in (None, "RE_NONTERMINAL") for a in i.names) for i in ast.walk(m.tree))
        if local is None and imported:
            ctx.ok("R8-one-tokenisation", f"{rel}:RE_NONTERMINAL", "pattern imported from helpers", site(uses[0]), f"{len(uses)} use(s)")
        elif local is not None and not (isinstance(local, ast.Call) and src(local.func) == "re.compile" and local.args and isinstance(local.args[0], ast.Constant)):
            if src(local).split(".")[-1] == "RE_NONTERMINAL" and "helpers" in src(local):
                ctx.ok("R8-one-tokenisation", f"{rel}:RE_NONTERMINAL", "alias of helpers.RE_NONTERMINAL", site(local), src(local))
            else:
                raise Unrecognised("C10.R8", f"{rel}:RE_NONTERMINAL", f"local definition `{src(local)[:60]}` is not a constant pattern")
        elif local is not None:
            same = isinstance(local, ast.Call) and src(local.func) == "re.compile" and local.args and isinstance(local.args[0], ast.Constant) and local.args[0].value == pattern and len(local.args) == 1
            ctx.check(same, "R8-one-tokenisation", f"{rel}:RE_NONTERMINAL", "local pattern identical to helpers.RE_NONTERMINAL", site(local),
                      f"{rel} splits expansions with its own pattern `{src(local)[:60]}` while helpers.RE_NONTERMINAL is {pattern!r}: a symbol such as <e'> or <cfg.entry> is a nonterminal "
                      "for the grammar graph, the fuzzer and is_nonterminal but terminal text for this module", "same pattern text")
        else:
            raise Unrecognised("C10.R8", f"{rel}:RE_NONTERMINAL", "origin of RE_NONTERMINAL not found")
    if n < 2:
        raise Unrecognised("C10.R8", PARSER, f"only {n} modules use RE_NONTERMINAL (expected parser.py and others)")
    can = ctx.repo.func(PARSER, "canonical", "C10.R8")
    sp = [x for x in calls_in(can) if isinstance(x.func, ast.Attribute) and x.func.attr == "split"]
    ok = len(sp) == 1 and src(sp[0].func.value) == "RE_NONTERMINAL" and len(sp[0].args) == 1 and isinstance(sp[0].args[0], ast.Name)
    if not ok:
        raise Unrecognised("C10.R8", f"{PARSER}:canonical", "RE_NONTERMINAL.split(expansion) not found")
    ctx.ok("R8-one-tokenisation", f"{PARSER}:canonical", "expansions split with RE_NONTERMINAL, unchanged", site(sp[0]), src(sp[0]))


def rule_r9(ctx):
    """Terminal text reaches the recogniser verbatim: single_char_tokens spreads each terminal into ITS characters; the input text is scanned character by character
    without any normalisation, so any transformation of the terminal (case folding, Unicode normalisation, stripping) makes the parser accept another language."""
    f = ctx.repo.func(PARSER, "single_char_tokens", "C10.R9")
    c = f"{PARSER}:single_char_tokens"
    ext = [x for x in calls_in(f) if isinstance(x.func, ast.Attribute) and x.func.attr in ("extend", "append")]
    loops = [n for n in walk_local(f) if isinstance(n, ast.For) and isinstance(n.target, ast.Name)]
    tok = loops[-1].target.id if loops else None
    spread = [x for x in ext if x.func.attr == "extend"]
    if len(spread) != 1 or tok is None or len(spread[0].args) != 1:
        raise Unrecognised("C10.R9", c, "terminal spreading `rule_.extend(token)` not found")
    a = spread[0].args[0]
    if isinstance(a, ast.Name) and a.id == tok:
        ctx.ok("R9-terminals-verbatim", c, "terminal characters taken as they are", site(spread[0]), src(spread[0]))
    elif isinstance(a, ast.Call) and call_name(a) in ("list", "tuple", "iter", "str") and len(a.args) == 1 and isinstance(a.args[0], ast.Name) and a.args[0].id == tok:
        ctx.ok("R9-terminals-verbatim", c, "terminal characters taken as they are", site(spread[0]), src(spread[0]))
    elif isinstance(a, ast.Call) and any(isinstance(x, ast.Name) and x.id == tok for x in ast.walk(a)) and (
            (call_name(a) or "").split(".")[-1] in ("normalize", "lower", "upper", "casefold", "strip", "lstrip", "rstrip", "replace", "translate", "swapcase", "title", "expandtabs", "encode", "decode", "sub")):
        ctx.viol("R9-terminals-verbatim", c, "terminal characters taken as they are", site(spread[0]),
                 f"the characters of a terminal are taken from `{' '.join(src(a).split())[:70]}`, not from the terminal itself, while the input is scanned unchanged: "
                 "a string the grammar spells out is rejected whenever the transformation changes it, and the transformed spelling is accepted instead")
    else:
        raise Unrecognised("C10.R9", c, f"spread argument `{src(a)[:60]}` not understood")
    keep = [x for x in ext if x.func.attr == "append" and x.args and isinstance(x.args[0], ast.Name) and x.args[0].id == tok]
    ok = any(has_fact(facts(k), f"{tok} in grammar") for k in keep)
    if not ok:
        raise Unrecognised("C10.R9", c, "nonterminal tokens `if token in grammar: rule_.append(token)` not found")
    ctx.ok("R9-terminals-verbatim", c, "nonterminal tokens kept whole", site(keep[0]), f"{tok} in grammar")


def rule_r10(ctx):
    """The grammar conversions of the parser (canonical, single_char_tokens, non_canonical, nullable, ...) are functions of their argument: none of them returns a value it
    loaded from module-level state that is assigned at run time (a 'last grammar' cache compared by object identity is stale after the dict was edited in place).
    Expected count on today's tree: zero run-time assigned globals in parser.py."""
    m = ctx.repo.module(PARSER, "C10.R10")
    assigned = _module_globals_assigned(m)
    ctx.inventory["parser_runtime_globals"] = sorted(assigned)
    n = 0
    for q, fn in m.functions():
        if not isinstance(fn, ast.FunctionDef):
            continue
        n += 1
        loads = sorted({x.id for x in walk_local(fn) if isinstance(x, ast.Name) and isinstance(x.ctx, ast.Load) and x.id in assigned})
        if not loads:
            continue
        rets = [r for r in walk_local(fn) if isinstance(r, ast.Return) and r.value is not None]
        from ..core import origins

        tainted = [r for r in rets if any(g in origins(fn, r.value) for g in loads)]
        dict_like = all(isinstance(getattr(x, "_parent", None), ast.Subscript) or (isinstance(getattr(x, "_parent", None), ast.Attribute) and x._parent.attr in ("get", "setdefault", "items", "keys"))
                        or isinstance(getattr(x, "_parent", None), ast.Compare)
                        for x in walk_local(fn) if isinstance(x, ast.Name) and x.id in loads and isinstance(x.ctx, ast.Load))
        idn = [x for x in walk_local(fn) if isinstance(x, ast.Compare) and any(isinstance(o, (ast.Is, ast.IsNot)) for o in x.ops) and not any(isinstance(c_, ast.Constant) and c_.value is None for c_ in [x.left] + x.comparators)]
        if tainted and dict_like and not idn:
            ctx.note("R10-no-hidden-state", f"{PARSER}:{q}", f"dict memo in {loads}", site(tainted[0]), "a keyed memo: judged by the memo-key rules, not here")
        elif tainted and not idn:
            raise Unrecognised("C10.R10", f"{PARSER}:{q}", f"returns run-time module state {loads} under a guard that is not understood")
        elif tainted:
            ctx.viol("R10-no-hidden-state", f"{PARSER}:{q}", f"result independent of earlier calls (globals {loads})", site(tainted[0]),
                     f"`{q}` returns a value taken from the module-level variable(s) {loads}, which are assigned at run time"
                     + (f" and guarded only by object identity (`{' '.join(src(idn[0]).split())[:50]}`)" if idn else "")
                     + ": after the grammar dict has been edited in place the old conversion is returned, so a new parser accepts the OLD language")
        else:
            ctx.note("R10-no-hidden-state", f"{PARSER}:{q}", f"reads run-time globals {loads}", site(fn), "does not flow into a return value")
    ctx.ok("R10-no-hidden-state", PARSER, "no conversion returns run-time module state", site(m.tree.body[0]), f"{n} functions, run-time assigned globals: {sorted(assigned) or 'none'}")


def run(ctx) -> str:
    ctx.guarded("R8", lambda: rule_r8(ctx))
    ctx.guarded("R9", lambda: rule_r9(ctx))
    ctx.guarded("R10", lambda: rule_r10(ctx))
    from ..memo import check_memo_keys

    ctx.guarded("R11", lambda: ctx.inventory.__setitem__("parser_dict_memos", check_memo_keys(ctx, "R11-memo-key", [PARSER], min_sites=0)))
    ctx.guarded("R7", lambda: rule_r7(ctx))
    ctx.guarded("R6", lambda: rule_r6(ctx))
    ctx.guarded("R5", lambda: rule_r5(ctx))
    ctx.guarded("R1", lambda: rule_r1(ctx))
    ctx.guarded("R2", lambda: rule_r2(ctx))
    ctx.guarded("R3", lambda: rule_r3(ctx))
    ctx.guarded("R4", lambda: c18.rule_k2(ctx))
    ctx.assume("the Earley chart itself (predict/scan/complete, nullable prediction) is correct - NOT decided")
    return EXPLANATION
