"""C11 — BNF grammars survive printing and re-parsing with the same language (escape tables, placeholder)."""

from __future__ import annotations

import ast
import os
import re as _re
import string
from typing import Dict, List, Optional, Tuple

from ..memo import check_memo_keys, check_cached_returns
from ..callgraph import SRC_ISLA
from ..core import Unrecognised, NotConstant, call_name, calls_in, facts, fold, has_fact, parent, site, src, walk_local

LANG = "src/isla/language.py"
HELPERS = "src/isla/helpers.py"
BNFG4 = "src/isla/bnf.g4"

EXPLANATION = (
    "Static necessary conditions for C11: decided: (B1) the writer's escape table (unparse_grammar.escape_char) and the reader's unescape algorithm "
    "(instantiate_escaped_symbols: backslash placeholder, sequential str.replace in table order, placeholder restore) are constant-folded, and the reader "
    "algorithm - re-stated over the folded tables - is checked to invert the writer on every single character of the writer's domain (all 256 code points "
    "below 256 plus printable ASCII) and on every ordered pair of characters from a hazard alphabet (cross-boundary matches of sequential replacement); "
    "(B2) the characters that are syntax in the reader's lexer (double quote, backslash) are in the writer's table and their escapes are ESC sequences of "
    "the bnf grammar's STRING token; (B3) the empty alternative is written as \"\"; nonterminals are written bare and terminals quoted; alternatives joined "
    "by ' | ' and rules by newline in the order of the grammar; (B4) the '<' placeholder: substituted only inside STRING tokens, a fresh 30-letter name, and "
    "the replacement nonterminal is chosen by a loop testing membership in all defined nonterminals; the helper rule is added only if reachable. "
    "NOT decided: same language from every nonterminal for every grammar (needs the BNF parser's semantics)."
)


def writer_table(ctx) -> Tuple[Dict[str, str], ast.AST]:
    f = ctx.repo.func(LANG, "unparse_grammar", "C11.B1")
    ec = next((n for n in ast.walk(f) if isinstance(n, ast.FunctionDef) and n.name == "escape_char"), None)
    if ec is None:
        raise Unrecognised("C11.B1", f"{LANG}:unparse_grammar", "escape_char not found")
    tab = None
    for n in walk_local(ec):
        if isinstance(n, ast.Assign) and src(n.targets[0]) == "subst_map":
            try:
                tab = fold(n.value)
            except NotConstant as exc:
                raise Unrecognised("C11.B1", f"{LANG}:unparse_grammar.escape_char", f"subst_map is not a constant table ({exc})")
    if not isinstance(tab, dict):
        raise Unrecognised("C11.B1", f"{LANG}:unparse_grammar.escape_char", "subst_map not found")
    r = [x for x in walk_local(ec) if isinstance(x, ast.Return)]
    if len(r) != 1 or src(r[0].value) != "subst_map.get(char, char)":
        raise Unrecognised("C11.B1", f"{LANG}:unparse_grammar.escape_char", f"return {src(r[0].value) if r else None} not `subst_map.get(char, char)`")
    return tab, ec


def reader_algorithm(ctx):
    """Re-state instantiate_escaped_symbols from its AST: (placeholder, table in order)."""
    f = ctx.repo.func(HELPERS, "instantiate_escaped_symbols", "C11.B1")
    c = f"{HELPERS}:instantiate_escaped_symbols"
    ph = None
    table = None
    fresh = None
    for n in walk_local(f):
        if isinstance(n, ast.Assign) and src(n.targets[0]) == "backslash_escape_placeholder":
            try:
                ph = fold(n.value)
                fresh = "constant"
            except NotConstant:
                v = n.value
                # next(chr(code) for code in range(a, b) if chr(code) not in text)
                if isinstance(v, ast.Call) and call_name(v) == "next" and isinstance(v.args[0], ast.GeneratorExp) and src(v.args[0].elt) == "chr(code)" and [src(i) for i in v.args[0].generators[0].ifs] == ["chr(code) not in text"]:
                    rng = fold(v.args[0].generators[0].iter)
                    ph = chr(rng[0])
                    fresh = "by-construction" if rng[0] >= 256 else "low-range"
                elif isinstance(v, ast.Call) and call_name(v) == "chr" and len(v.args) == 1:
                    # some computed code point: fresh w.r.t. the text perhaps, but is it outside what the escapes can produce (< 256)?
                    lowconst = [x.value for x in ast.walk(v.args[0]) if isinstance(x, ast.Constant) and isinstance(x.value, int)]
                    ph = "\ue000"
                    fresh = "by-construction" if (isinstance(v.args[0], ast.BinOp) and isinstance(v.args[0].op, ast.Add) and any(k >= 256 for k in lowconst)) else "computed-low"
                else:
                    raise Unrecognised("C11.B1", c, f"placeholder expression {src(v)[:60]} not understood")
        if isinstance(n, ast.Assign) and src(n.targets[0]) == "repl_map":
            try:
                table = fold(n.value)
            except NotConstant as exc:
                raise Unrecognised("C11.B1", c, f"repl_map not constant ({exc})")
    has_assert = any(isinstance(n, ast.Assert) and "backslash_escape_placeholder not in text" in src(n.test) for n in walk_local(f))
    has_loop = any(isinstance(n, ast.While) and src(n.test) == "backslash_escape_placeholder in text" for n in walk_local(f))
    ctx.check(fresh == "by-construction" and not has_assert, "B1-placeholder-fresh", c, "placeholder guaranteed absent from the text", site(f),
              ("the placeholder is a constant that is merely asserted to be absent: a terminal containing it makes parse_bnf raise AssertionError" if fresh == "constant" and not has_loop else
               "a multi-character placeholder extended in a loop can overlap with neighbouring text and be restored at the wrong position" if has_loop else
               "the placeholder is a computed character that can be below 256: an \\xNN escape in the same text can produce exactly that character, which is then turned into a backslash "
               "(e.g. the terminal '~\\x7f' comes back as '~\\\\')" if fresh == "computed-low" else
               "placeholder taken from a range the escape table itself can produce"),
              "single character outside the range of all escape sequences, chosen not to occur in the text")
    if ph is None or not isinstance(table, dict):
        raise Unrecognised("C11.B1", c, "placeholder / repl_map not found")
    # statement sequence: text = text.replace('\\\\', ph); for k in repl_map: text = text.replace(k, repl_map[k]); return text.replace(ph, '\\')
    from ..core import significant_body

    stmts = significant_body(f)
    seq = [src(s).replace("\n", " ") for s in stmts]
    want_tail = [
        "text = text.replace('\\\\\\\\', backslash_escape_placeholder)",
        "for escaped_char in repl_map:     text = text.replace(escaped_char, repl_map[escaped_char])",
        "return text.replace(backslash_escape_placeholder, '\\\\')",
    ]
    got_tail = [_re.sub(r"\s+", " ", s) for s in seq[-3:]]
    if got_tail != [_re.sub(r"\s+", " ", s) for s in want_tail]:
        raise Unrecognised("C11.B1", c, f"unescape algorithm has an unrecognised shape: {got_tail}")
    return ph, table, f


def unescape(text: str, ph: str, table: Dict[str, str]) -> str:
    """The reader's algorithm over the folded tables (sequential replacement in table order)."""
    text = text.replace("\\\\", ph)
    for k, v in table.items():
        text = text.replace(k, v)
    return text.replace(ph, "\\")


def rule_b1(ctx):
    W, ec = writer_table(ctx)
    ph, R, rf = reader_algorithm(ctx)
    ctx.inventory["writer_table_size"] = len(W)
    ctx.inventory["reader_table_size"] = len(R)
    domain = [chr(i) for i in range(256)]
    esc = lambda s: "".join(W.get(ch, ch) for ch in s)
    bad = [c for c in domain if unescape(esc(c), ph, R) != c]
    ctx.check(not bad, "B1-escape-inverse", f"{LANG}:unparse_grammar.escape_char", "reader(writer(c)) == c for every character < 256", site(ec),
              f"the reader does not restore {[repr(c) for c in bad[:8]]} ({len(bad)} characters): e.g. writer emits {esc(bad[0])!r} for {bad[0]!r} and the reader yields {unescape(esc(bad[0]), ph, R)!r}" if bad else "",
              "256 single-character round trips")
    # pairs over a hazard alphabet: every char whose escape differs from itself, plus the characters occurring in any escape sequence / table key
    hazard = sorted({c for c in domain if W.get(c, c) != c} | {ch for k in R for ch in k} | {ch for v in W.values() for ch in v} | set("x09afn\\\"<>$BESC "))
    hazard = [c for c in hazard if ord(c) < 256]
    badp = []
    for a in hazard:
        for b in hazard:
            s = a + b
            if unescape(esc(s), ph, R) != s:
                badp.append(s)
    ctx.check(not badp, "B1-escape-inverse", f"{HELPERS}:instantiate_escaped_symbols", f"reader(writer(ab)) == ab for {len(hazard)}^2 hazard pairs", site(rf),
              f"sequential replacement matches across a character boundary: {[repr(x) for x in badp[:6]]} ({len(badp)} pairs)" if badp else "", f"{len(hazard) ** 2} two-character round trips")
    ctx.inventory["hazard_alphabet_size"] = len(hazard)
    # every non-printable character is escaped by the writer (so control characters survive the lexer's WS/skip rules inside STRING? they are inside quotes; still: documented table)
    unesc = [c for c in domain if c not in string.printable and c not in W]
    ctx.check(not unesc, "B1-escape-coverage", f"{LANG}:unparse_grammar.escape_char", "all non-printable characters < 256 are escaped", site(ec),
              f"non-printable characters {[repr(c) for c in unesc[:6]]} are written raw", "escaped as \\xNN")
    # reader keys must not be produced by the writer for a different character (injectivity on the domain)
    inv: Dict[str, str] = {}
    clash = []
    for c in domain:
        e = W.get(c, c)
        if e in inv and inv[e] != c:
            clash.append((inv[e], c, e))
        inv[e] = c
    ctx.check(not clash, "B1-escape-inverse", f"{LANG}:unparse_grammar.escape_char", "writer table is injective", site(ec), f"two characters share an escape: {clash[:3]}", "injective")
    # the placeholder cannot be produced by the writer
    ctx.check(ph not in "".join(W.values()) and "\\" not in ph, "B1-escape-inverse", f"{HELPERS}:instantiate_escaped_symbols", "placeholder disjoint from writer output", site(rf), "placeholder collides with an escape sequence", "disjoint")


def rule_b2(ctx):
    W, ec = writer_table(ctx)
    p = os.path.join(ctx.repo.root, BNFG4)
    if not os.path.isfile(p):
        raise Unrecognised("C11.B2", BNFG4, "grammar not found")
    ctx.repo.consulted.add(BNFG4)
    g4 = open(p, encoding="utf-8").read()
    m = _re.search(r"ESC\s*:\s*'\\\\'\s*\[([^\]]+)\]", g4)
    s = _re.search(r"STRING\s*:\s*'\"'\s*\(ESC\|\.\)\s*\*\?\s*'\"'", g4)
    if m is None or s is None:
        raise Unrecognised("C11.B2", BNFG4, "STRING / ESC rules not in the recognised shape")
    esc_chars = set(m.group(1).replace("\\\\", "\\"))
    for ch in ('"', "\\"):
        ok = ch in W and W[ch] == "\\" + ch and ch in esc_chars
        ctx.check(ok, "B2-lexer-significant", f"{LANG}:unparse_grammar.escape_char", f"{ch!r} escaped as an ESC sequence of the STRING token", site(ec),
                  f"{ch!r} is syntax inside a quoted terminal; writer maps it to {W.get(ch)!r}, lexer ESC set is {sorted(esc_chars)}: the terminal would end early or swallow the closing quote", "escaped and lexed as ESC")
    # no other writer output contains a raw double quote
    raw = [c for c, e in W.items() if '"' in e and c != '"']
    ctx.check(not raw, "B2-lexer-significant", f"{LANG}:unparse_grammar.escape_char", "no escape sequence contains a raw quote", site(ec), f"escapes of {raw} contain a double quote", "none")


def rule_b3(ctx):
    f = ctx.repo.func(LANG, "unparse_grammar", "C11.B3")
    c = f"{LANG}:unparse_grammar"
    rets = [r for r in f.body if isinstance(r, ast.Return)]
    if len(rets) != 1:
        raise Unrecognised("C11.B3", c, "single return not found")
    t = _re.sub(r"\s+", " ", src(rets[0].value))
    ctx.check("'\"\"' if not expansion else" in t, "B3-layout", c, "empty alternative written as \"\"", site(rets[0]), "the empty alternative must be written as an empty quoted terminal", "written as \"\"")
    ctx.check("elem if is_nonterminal(elem) else f'\"{escape_string(elem)}\"'" in t, "B3-layout", c, "nonterminals bare, terminals quoted and escaped", site(rets[0]), "element layout changed", "bare / quoted+escaped")
    ctx.check("' | '.join(" in t and "'\\n'.join(" in t and "f'{symbol} ::= '" in t, "B3-layout", c, "rule layout `<nt> ::= alt | alt`", site(rets[0]), "rule layout changed", "BNF layout")
    ctx.check("for symbol, expansions in canonical(grammar).items()" in t and "for expansion in expansions" in t and "for elem in expansion" in t, "B3-layout", c, "every rule, alternative and element is written", site(rets[0]), "iteration changed", "complete iteration")
    es = next((n for n in ast.walk(f) if isinstance(n, ast.FunctionDef) and n.name == "escape_string"), None)
    ok = es is not None and any(isinstance(r, ast.Return) and src(r.value) == "''.join((escape_char(char) for char in elem))" for r in ast.walk(es))
    ctx.check(ok, "B3-layout", c, "terminals escaped character by character", site(f), "escape_string must map escape_char over every character", "per character")


def rule_b4(ctx):
    init = ctx.repo.func(LANG, "BnfEmitter.__init__", "C11.B4")
    ok = any(isinstance(n, ast.Assign) and src(n.targets[0]) == "self.langle_placeholder" and "random.choice(string.ascii_letters)" in src(n.value) and "range(30)" in src(n.value) for n in walk_local(init))
    ctx.check(ok, "B4-langle-placeholder", f"{LANG}:BnfEmitter.__init__", "fresh 30-letter placeholder", site(init), "placeholder generation changed", "30 random letters")
    alt = ctx.repo.func(LANG, "BnfEmitter.exitAlternative", "C11.B4")
    reps = [x for x in calls_in(alt) if isinstance(x.func, ast.Attribute) and x.func.attr == "replace" and src(x.args[0]) == "'<'"]
    ok = len(reps) == 1 and has_fact(facts(reps[0]), "child.symbol.type == bnfLexer.STRING")
    ctx.check(ok, "B4-langle-placeholder", f"{LANG}:BnfEmitter.exitAlternative", "'<' replaced only inside STRING tokens", site(alt), "'<' of a nonterminal token would be rewritten", "only in terminals")
    order = [call_name(x) or (x.func.attr if isinstance(x.func, ast.Attribute) else "") for x in calls_in(alt) if (call_name(x) == "instantiate_escaped_symbols") or (isinstance(x.func, ast.Attribute) and x.func.attr == "replace")]
    ctx.check(any(call_name(x) == "instantiate_escaped_symbols" for x in calls_in(alt)), "B4-langle-placeholder", f"{LANG}:BnfEmitter.exitAlternative", "terminal text unescaped", site(alt), "instantiate_escaped_symbols not applied", "unescaped")
    g = ctx.repo.func(LANG, "BnfEmitter.exitBnf_grammar", "C11.B4")
    loops = [n for n in walk_local(g) if isinstance(n, ast.While)]
    ok = len(loops) == 1 and src(loops[0].test) == "free_langle_nonterminal in all_defined_nonterminals"
    ctx.check(ok, "B4-langle-placeholder", f"{LANG}:BnfEmitter.exitBnf_grammar", "replacement nonterminal chosen free among ALL defined nonterminals", site(g), "freshness loop changed", "membership loop")
    ad = [n for n in walk_local(g) if isinstance(n, ast.Assign) and src(n.targets[0]) == "all_defined_nonterminals"]
    ok = len(ad) == 1 and src(ad[0].value).replace("\n", " ") == "[self.partial_results[rule_ctx][0] for rule_ctx in ctx.derivation_rule()]"
    ctx.check(ok, "B4-langle-placeholder", f"{LANG}:BnfEmitter.exitBnf_grammar", "all left-hand sides collected", site(g), "defined nonterminals list changed", "every rule")
    # the helper rule has to exist whenever some alternative mentions the helper nonterminal, whether or not that alternative is reachable from <start>
    adds = [n for n in walk_local(g) if isinstance(n, ast.Assign) and src(n.targets[0]) == "self.result[free_langle_nonterminal]" and src(n.value) == "['<']"]
    c = f"{LANG}:BnfEmitter.exitBnf_grammar"
    if len(adds) != 1:
        raise Unrecognised("C11.B4", c, "definition of the helper rule not found")
    if not facts(adds[0]):
        ctx.ok("B4-langle-rule-defined", c, "helper rule <langle> ::= '<' defined whenever it is used", site(adds[0]), "added unconditionally")
    else:
        conds = [n for n in walk_local(g) if isinstance(n, ast.If) and adds[0] in n.body]
        test = conds[0].test if conds else None
        t = " ".join(src(test).split()) if test is not None else ""
        uses = (isinstance(test, ast.Call) and call_name(test) == "any" and "free_langle_nonterminal in" in t and "self.result.values()" in t)
        if uses:
            ctx.ok("B4-langle-rule-defined", c, "helper rule <langle> ::= '<' defined whenever it is used", site(adds[0]), "added iff some alternative mentions it")
        elif "unreachable_nonterminals" in t or "reachable_nonterminals" in t:
            ctx.viol("B4-langle-rule-defined", c, "helper rule <langle> ::= '<' defined whenever it is used", site(adds[0]),
                     "the helper rule is only added when it is reachable from <start>: a '<' in a terminal of a rule that <start> does not reach is rewritten to a nonterminal that is never defined "
                     "(`<start> ::= \"\"`, `<A> ::= \"<\"` reads back with `<A> ::= <langle>` and no rule for <langle>), so the language from <A> is lost")
        else:
            raise Unrecognised("C11.B4", c, f"condition of the helper rule not understood: {t[:80]}")
    ok = any(isinstance(x, ast.Call) and isinstance(x.func, ast.Attribute) and x.func.attr == "replace" and src(x.args[0]) == "f'<{self.langle_placeholder}>'" and src(x.args[1]) == "free_langle_nonterminal" for x in ast.walk(g))
    ctx.check(ok, "B4-langle-placeholder", f"{LANG}:BnfEmitter.exitBnf_grammar", "placeholder instantiated by the free nonterminal in every alternative", site(g), "placeholder instantiation changed", "instantiated")


def rule_b5(ctx):
    """No memo in the BNF reader/writer path is keyed by a normalisation of its input."""
    n = check_memo_keys(ctx, "B5-memo-key", [LANG, HELPERS])
    ctx.inventory["memo_sites"] = n


HELPERS_ = "src/isla/helpers.py"


def rule_b7(ctx):
    """Symbol classification agrees with tokenisation: expansions are split with RE_NONTERMINAL (`<` non-blank... `>`), so is_nonterminal must use the same
    pattern - a terminal such as `<dir C:\\new>` (with a blank) is NOT a nonterminal and has to be printed as a quoted, escaped string."""
    f = ctx.repo.func(HELPERS_, "is_nonterminal", "C11.B7")
    c = f"{HELPERS_}:is_nonterminal"
    rets = [r for r in walk_local(f) if isinstance(r, ast.Return)]
    if len(rets) != 1:
        raise Unrecognised("C11.B7", c, "expected a single return")
    t = " ".join(src(rets[0].value).split())
    if t in ("RE_NONTERMINAL.match(s)", "RE_NONTERMINAL.fullmatch(s)", "bool(RE_NONTERMINAL.match(s))", "bool(RE_NONTERMINAL.fullmatch(s))", "RE_NONTERMINAL.match(s) is not None", "RE_NONTERMINAL.fullmatch(s) is not None"):
        ctx.ok("B7-symbol-classification", c, "classification by the tokenisation pattern", site(rets[0]), t)
    elif "RE_NONTERMINAL" not in t and ("'<'" in t or '"<"' in t or "startswith" in t):
        ctx.viol("B7-symbol-classification", c, "classification by the tokenisation pattern", site(rets[0]),
                 f"is_nonterminal is decided by delimiters only (`{t[:70]}`): a terminal that starts with '<', ends with '>' and contains a blank or another angle bracket is treated as a nonterminal, "
                 "so unparse_grammar prints it raw (unquoted, unescaped) and the re-parsed grammar has a different language")
    else:
        raise Unrecognised("C11.B7", c, f"classification `{t[:80]}` not understood")
    m = ctx.repo.module(HELPERS_, "C11.B7")
    consts = m.constants()
    if "RE_NONTERMINAL" not in consts or "(<[^<> ]*>)" not in src(consts["RE_NONTERMINAL"]):
        raise Unrecognised("C11.B7", f"{HELPERS_}:RE_NONTERMINAL", "nonterminal pattern changed")
    ctx.ok("B7-symbol-classification", f"{HELPERS_}:RE_NONTERMINAL", "pattern `<` non-blank non-bracket* `>`", site(consts["RE_NONTERMINAL"]), "(<[^<> ]*>)")


def rule_b8(ctx):
    """parse_bnf hands the text to the lexer unchanged (any pre-processing would have to respect the string-literal escapes of the grammar)."""
    f = ctx.repo.func(LANG, "parse_bnf", "C11.B8")
    c = f"{LANG}:parse_bnf"
    lx = [x for x in calls_in(f) if call_name(x) == "bnfLexer"]
    if not lx:
        # a wrapper around the function that does the work (a memoised inner parser): follow the single call that receives the text unchanged
        m = ctx.repo.module(LANG, "C11.B8")
        p_outer = f.args.args[0].arg
        inner = [x for x in calls_in(f) if isinstance(x.func, ast.Name) and isinstance(m.get(x.func.id), ast.FunctionDef) and len(x.args) == 1 and isinstance(x.args[0], ast.Name) and x.args[0].id == p_outer]
        rebound = [x for x in walk_local(f) if isinstance(x, (ast.Assign, ast.AugAssign)) and src(x.targets[0] if isinstance(x, ast.Assign) else x.target) == p_outer]
        if len(inner) == 1 and not rebound:
            f = m.get(inner[0].func.id)
            c = f"{LANG}:{f.name}"
            lx = [x for x in calls_in(f) if call_name(x) == "bnfLexer"]
    if len(lx) != 1:
        raise Unrecognised("C11.B8", c, "bnfLexer(...) call not found")
    a = " ".join(src(lx[0].args[0]).split())
    p0 = f.args.args[0].arg
    if a == f"InputStream({p0})":
        rebound = [x for x in walk_local(f) if isinstance(x, (ast.Assign, ast.AugAssign)) and src(x.targets[0] if isinstance(x, ast.Assign) else x.target) == p0]
        if rebound:
            raise Unrecognised("C11.B8", c, f"the input text is re-bound before lexing (`{src(rebound[0])[:60]}`): a pre-processing step must be shown to respect string-literal escapes")
        ctx.ok("B8-raw-text-lexed", c, "the lexer reads the text as given", site(lx[0]), a)
    else:
        raise Unrecognised("C11.B8", c, f"the lexer reads `{a[:60]}` instead of the given text: a pre-processing step (comment stripping, normalisation) must be shown to respect the string-literal escapes "
                           "(`\"`, `\\\\`) of the BNF syntax - this cannot be vouched for structurally")


def run(ctx) -> str:
    ctx.guarded("B7", lambda: rule_b7(ctx))
    ctx.guarded("B8", lambda: rule_b8(ctx))
    ctx.guarded("B5", lambda: rule_b5(ctx))
    ctx.guarded("B6", lambda: ctx.inventory.__setitem__("cached_result_bindings", check_cached_returns(ctx, "B6-cached-mutable", SRC_ISLA, SRC_ISLA)))
    ctx.guarded("B1", lambda: rule_b1(ctx))
    ctx.guarded("B2", lambda: rule_b2(ctx))
    ctx.guarded("B3", lambda: rule_b3(ctx))
    ctx.guarded("B4", lambda: rule_b4(ctx))
    ctx.assume("str.replace semantics; dict iteration order = insertion order (reader applies replacements in table order)")
    ctx.assume("the ANTLR STRING token `'\"' (ESC|.)*? '\"'` ends at the first unescaped quote")
    return EXPLANATION
