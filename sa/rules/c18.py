"""C18 — check, parse, repair and mutate agree with the constraint and with each other (plumbing)."""

from __future__ import annotations

import ast
from typing import List

from ..core import Unrecognised, call_name, calls_in, dotted, facts, has_fact, parent, site, src, walk_local

SOLVER = "src/isla/solver.py"

EXPLANATION = (
    "Plumbing between five methods of ISLaSolver in src/isla/solver.py (the truth of evaluate/solve is C03/C01): decided: (K1) check(str) returns True only "
    "after self.parse(inp) returned and False only in a handler for exactly (SyntaxError, SemanticError); check(tree) returns bool(evaluate(self.formula, "
    "inp, self.grammar)) and raises UnknownResultError on UNKNOWN; (K2) parse raises SemanticError iff `not skip_check and nonterminal == '<start>' and not "
    "self.check(tree)`, re-raises SyntaxError unchanged, builds the parser from a copy of self.grammar, and unwraps the <start> wrapper exactly when another "
    "nonterminal was requested; (K3) repair returns Some(inp) only under self.check(inp) (or no top constant), every other Some(x) comes from the pipeline "
    "ending in a copy of this solver (same formula/grammar) whose solve() result is returned; (K4) mutate returns only successful repair results and never "
    "the unchanged input. NOT decided: that repair/mutate find a result; ambiguity of grammars."
)


def M(ctx, name):
    return ctx.repo.func(SOLVER, f"ISLaSolver.{name}", "C18")


def rule_k1(ctx):
    f = M(ctx, "check")
    c = f"{SOLVER}:ISLaSolver.check"
    tr = [n for n in walk_local(f) if isinstance(n, ast.Try)]
    if len(tr) != 1:
        raise Unrecognised("C18.K1", c, "try around self.parse not found")
    t = tr[0]
    ok = has_fact(facts(t), "isinstance(inp, str)")
    ctx.check(ok, "K1-check-str", c, "string branch under isinstance(inp, str)", site(t), "string handling not under the str test", "str branch")
    body = [src(s) for s in t.body]
    ctx.check(body == ["self.parse(inp)", "return True"], "K1-check-str", c, "True only after self.parse(inp) returned", site(t),
              f"try body is {body}: True must be returned only after parse (which also checks the constraint) succeeded", "parse then True")
    hs = t.handlers
    ok = len(hs) == 1 and isinstance(hs[0].type, ast.Tuple) and sorted(src(e) for e in hs[0].type.elts) == ["SemanticError", "SyntaxError"] and [src(s) for s in hs[0].body] == ["return False"]
    ctx.check(ok, "K1-check-str", c, "False exactly for (SyntaxError, SemanticError)", site(t),
              f"handlers: {[(src(h.type) if h.type else 'bare', [src(s) for s in h.body]) for h in hs]}: other exceptions must propagate, and these two must yield False", "exact handler")
    ev = [x for x in calls_in(f) if call_name(x) == "evaluate"]
    ok = len(ev) == 1 and [src(a) for a in ev[0].args] == ["self.formula", "inp", "self.grammar"]
    ctx.check(ok, "K1-check-tree", c, "evaluate(self.formula, inp, self.grammar)", site(f), f"found {[src(a) for a in ev[0].args] if ev else None}", "the solver's own formula and grammar")
    rets = [r for r in walk_local(f) if isinstance(r, ast.Return) and src(r.value) == "bool(result)"]
    ok = len(rets) == 1 and has_fact(facts(rets[0]), "result.is_unknown()", False)
    ctx.check(ok, "K1-check-tree", c, "bool(result) only when not UNKNOWN", site(f), "bool(result) must be guarded by `not result.is_unknown()`", "guarded")
    rs = [r for r in walk_local(f) if isinstance(r, ast.Raise)]
    ok = len(rs) == 1 and src(rs[0].exc) == "UnknownResultError()" and has_fact(facts(rs[0]), "result.is_unknown()")
    ctx.check(ok, "K1-check-tree", c, "UNKNOWN -> UnknownResultError", site(f), "UNKNOWN must raise UnknownResultError", "raises")


def rule_k2(ctx):
    f = M(ctx, "parse")
    c = f"{SOLVER}:ISLaSolver.parse"
    raises = [r for r in walk_local(f) if isinstance(r, ast.Raise)]
    sem = [r for r in raises if src(r.exc) == "SemanticError()"]
    if len(sem) != 1:
        raise Unrecognised("C18.K2", c, "raise SemanticError() not found exactly once")
    p = parent(sem[0])
    ok = isinstance(p, ast.If) and src(p.test) == "not skip_check and nonterminal == '<start>' and (not self.check(tree))"
    ctx.check(ok, "K2-parse-semantic", c, "SemanticError iff not skip_check and <start> and not check(tree)", site(sem[0]), f"condition is `{src(p.test) if isinstance(p, ast.If) else None}`", "exact condition")
    rets = [r for r in walk_local(f) if isinstance(r, ast.Return)]
    ok = len(rets) == 1 and src(rets[0].value) == "tree" and rets[0] is f.body[-1]
    ctx.check(ok, "K2-parse-semantic", c, "returns the parsed tree after the check", site(f), "the tree must be returned after the semantic check", "returns tree")
    # the parser is applied to exactly the argument string (no trimmed / retried variants: they accept strings outside the language)
    pcalls = [x for x in calls_in(f) if call_name(x) == "parser.parse"]
    if not pcalls:
        raise Unrecognised("C18.K2", c, "parser.parse(...) call not found")
    for pc in pcalls:
        a0 = src(pc.args[0]) if pc.args else None
        ctx.check(a0 == "inp", "K2-parse-syntax", c, f"parser applied to the argument string itself ({src(pc)[:40]})", site(pc),
                  f"the parser is (also) run on `{a0}` instead of the given string `inp`: a string outside the grammar's language (e.g. one with an extra trailing newline) is then accepted, "
                  "parse returns the tree of a different string and check(str) answers True for it", "parser.parse(inp)")
    if len(pcalls) > 1:
        ctx.viol("K2-parse-syntax", c, "single parse attempt", site(pcalls[1]), f"{len(pcalls)} parse attempts: a SyntaxError of the first attempt is not final")
        return
    tr = [n for n in walk_local(f) if isinstance(n, ast.Try)]
    if len(tr) != 1:
        raise Unrecognised("C18.K2", c, "try not found")
    t = tr[0]
    hs = t.handlers
    ok = len(hs) == 1 and src(hs[0].type) == "SyntaxError" and isinstance(hs[0].body[-1], ast.Raise) and (hs[0].body[-1].exc is None or src(hs[0].body[-1].exc) == hs[0].name)
    ctx.check(ok, "K2-parse-syntax", c, "SyntaxError re-raised unchanged", site(t), "a SyntaxError of the parser must be re-raised as is", "re-raised")
    calls = [x for x in calls_in(t) if call_name(x) == "next"]
    ok = len(calls) == 1 and src(calls[0].args[0]) == "parser.parse(inp)"
    ctx.check(ok, "K2-parse-syntax", c, "first parse of the input", site(t), f"found {[src(x) for x in calls]}", "next(parser.parse(inp))")
    mk = [x for x in calls_in(f) if call_name(x) == "EarleyParser"]
    ok = len(mk) == 1 and src(mk[0].args[0]) == "grammar" and any(isinstance(n, ast.Assign) and src(n.targets[0]) == "grammar" and src(n.value) == "copy.deepcopy(self.grammar)" for n in walk_local(f))
    ctx.check(ok, "K2-parse-syntax", c, "parser over (a copy of) self.grammar", site(f), "the parser must be built from the solver's grammar", "copy of self.grammar")
    # wrapper handling
    upd = [n for n in walk_local(f) if isinstance(n, ast.AugAssign) and src(n.target) == "grammar"]
    ok = len(upd) == 1 and src(upd[0].value) == "{'<start>': [nonterminal]}" and has_fact(facts(upd[0]), "nonterminal == '<start>'", False)
    ctx.check(ok, "K2-parse-wrapper", c, "<start> redirected to the requested nonterminal", site(f), "wrapper rule not installed under nonterminal != '<start>'", "installed")
    unw = [n for n in walk_local(f) if isinstance(n, ast.Assign) and src(n.targets[0]) == "parse_tree" and src(n.value) == "parse_tree[1][0]"]
    ok = len(unw) == 1 and has_fact(facts(unw[0]), "nonterminal == '<start>'", False)
    ctx.check(ok, "K2-parse-wrapper", c, "wrapper unwrapped exactly when another nonterminal was requested", site(f), "the <start> wrapper must be removed iff nonterminal != '<start>'", "unwrapped")
    ft = [x for x in calls_in(f) if call_name(x) == "DerivationTree.from_parse_tree"]
    ctx.check(len(ft) == 1 and src(ft[0].args[0]) == "parse_tree", "K2-parse-wrapper", c, "tree built from the parse tree", site(f), "tree = DerivationTree.from_parse_tree(parse_tree)", "built")


def rule_k3(ctx):
    f = M(ctx, "repair")
    c = f"{SOLVER}:ISLaSolver.repair"
    rets = [r for r in ast.walk(f) if isinstance(r, ast.Return) and isinstance(r.value, ast.Call) and call_name(r.value) == "Some"]
    seen_inp = seen_completed = 0
    for r in rets:
        arg = src(r.value.args[0])
        if arg == "inp":
            seen_inp += 1
            p = parent(r)
            ok = isinstance(p, ast.If) and src(p.test) == "self.check(inp) or not is_successful(self.top_constant)"
            ctx.check(ok, "K3-repair", c, "unchanged input only if it already satisfies the constraint", site(r), f"guard is `{src(p.test) if isinstance(p, ast.If) else None}`", "guarded by self.check(inp)")
        elif arg == "completed":
            seen_completed += 1
            # bound by `case Some(completed)` of the match over the pipeline ending in .bind(do_complete)
            mt = None
            for a in _anc(r):
                if isinstance(a, ast.Match):
                    mt = a
            ok = mt is not None and src(mt.subject).replace("\n", "").replace(" ", "").endswith(".bind(do_complete)")
            ctx.check(ok, "K3-repair", c, "repaired tree comes from do_complete", site(r), "Some(completed) must be the result of the pipeline ending in do_complete", "from do_complete")
        elif arg in ("abstracted_tree", "tree"):
            continue  # inside lambdas / do_complete plumbing
        else:
            ctx.viol("K3-repair", c, f"return Some({arg})", site(r), "repair returns a tree that neither is the checked input nor comes from a constrained solver run")
    if not (seen_inp == 1 and seen_completed == 1):
        raise Unrecognised("C18.K3", c, f"expected one Some(inp) and one Some(completed) (found {seen_inp}, {seen_completed})")
    dc = next((n for n in ast.walk(f) if isinstance(n, ast.FunctionDef) and n.name == "do_complete"), None)
    if dc is None:
        raise Unrecognised("C18.K3", c, "do_complete not found")
    cq = [x for x in calls_in(dc) if call_name(x) == "self.copy_without_queue"]
    ok = len(cq) == 1 and {k.arg for k in cq[0].keywords} == {"initial_tree", "timeout_seconds"} and src(next(k.value for k in cq[0].keywords if k.arg == "initial_tree")) == "Some(tree)"
    ctx.check(ok, "K3-repair", c, "completion by a copy of this solver (same formula, grammar) from the abstracted tree", site(dc),
              f"copy_without_queue called with {[k.arg for k in cq[0].keywords] if cq else None}: overriding formula/grammar would repair against another constraint", "only initial_tree and timeout overridden")
    ok = any(isinstance(n, ast.Attribute) and n.attr == "solve" and isinstance(n.value, ast.Call) and call_name(n.value) == "self.copy_without_queue" for n in ast.walk(dc))
    ctx.check(ok, "K3-repair", c, "result is that solver's solve()", site(dc), "do_complete must return the copy's solve() result", "solve of the copy")
    # copy_without_queue passes formula and grammar through by default
    cw = M(ctx, "copy_without_queue")
    mk = [x for x in calls_in(cw) if call_name(x) == "ISLaSolver"]
    if len(mk) != 1:
        raise Unrecognised("C18.K3", f"{SOLVER}:ISLaSolver.copy_without_queue", "ISLaSolver(...) construction not found")
    kw = {k.arg: src(k.value) for k in mk[0].keywords}
    ctx.check(kw.get("grammar") == "grammar.value_or(self.grammar)" and kw.get("formula") == "formula.value_or(self.formula)", "K3-repair", f"{SOLVER}:ISLaSolver.copy_without_queue", "defaults: own grammar and formula", site(mk[0]),
              f"grammar={kw.get('grammar')}, formula={kw.get('formula')}", "copy keeps grammar and formula unless overridden")
    # the abstraction is only completed when its check is UNKNOWN
    ok = any(isinstance(n, ast.Lambda) and src(n.body).replace("\n", " ") == "Some(abstracted_tree) if isinstance(exc, UnknownResultError) else Nothing" for n in ast.walk(f))
    ctx.check(ok, "K3-repair", c, "only abstractions with UNKNOWN verdict are completed", site(f), "an abstracted tree must be completed only if its check raised UnknownResultError", "UNKNOWN only")


def _anc(n):
    cur = parent(n)
    while cur is not None:
        yield cur
        cur = parent(cur)


def rule_k4(ctx):
    f = M(ctx, "mutate")
    c = f"{SOLVER}:ISLaSolver.mutate"
    rets = [r for r in walk_local(f) if isinstance(r, ast.Return)]
    ok = len(rets) == 1 and src(rets[0].value) == "maybe_fixed.unwrap()" and has_fact(facts(rets[0]), "is_successful(maybe_fixed)")
    ctx.check(ok, "K4-mutate", c, "returns only successful repair results", site(f), f"returns {[src(r.value) for r in rets]}", "repair(...).unwrap() under is_successful")
    rp = [x for x in calls_in(f) if call_name(x) == "self.repair"]
    ok = len(rp) == 1 and src(rp[0].args[0]) == "mutated"
    ctx.check(ok, "K4-mutate", c, "the mutated tree is repaired", site(f), f"repair called with {[src(a) for a in rp[0].args] if rp else None}", "repair(mutated, ...)")
    ok = any(isinstance(n, ast.If) and src(n.test) == "mutated.structurally_equal(inp)" and isinstance(n.body[0], ast.Continue) for n in walk_local(f))
    ctx.check(ok, "K4-mutate", c, "unchanged mutants are skipped", site(f), "a mutant structurally equal to the input must be skipped", "skipped")
    mk = [x for x in calls_in(f) if call_name(x) == "Mutator"]
    ok = len(mk) == 1 and src(mk[0].args[0]) == "self.grammar"
    ctx.check(ok, "K4-mutate", c, "mutator over the solver's grammar", site(f), "Mutator must use self.grammar", "self.grammar")


def run(ctx) -> str:
    ctx.guarded("K1", lambda: rule_k1(ctx))
    ctx.guarded("K2", lambda: rule_k2(ctx))
    ctx.guarded("K3", lambda: rule_k3(ctx))
    ctx.guarded("K4", lambda: rule_k4(ctx))

    def shared():
        # clauses of C18 that other properties' rules decide: "parse raises SyntaxError for strings outside the grammar" needs the parser's rejection to be total (C10 R1),
        # and "check ... satisfies the constraint" for `level` needs all common ancestors as candidate scopes (C04 G6)
        from . import c10, c04

        c10.rule_r1(ctx)
        c04.rule_g6(ctx)

    ctx.guarded("K5", shared)
    ctx.assume("evaluate (C03) and solve (C01) are correct; returns.safe converts the listed exceptions into Failure")
    return EXPLANATION
