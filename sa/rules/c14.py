"""C14 — Solver helpers that build trees to a target meet that target (gate-only)."""

from __future__ import annotations

import ast

from ..core import Unrecognised, call_name, calls_in, close_facts, facts, has_fact, parent, site, src, walk_local

SOLVER = "src/isla/solver.py"
PRED = "src/isla/isla_predicates.py"

EXPLANATION = (
    "Weakest level (gate only) for C14: decided: (L1) create_fixed_length_tree returns a tree only under 'no open leaf left' and 'curr_len == target_length', "
    "and the length bookkeeping of a pushed state adds the terminal lengths of the new children plus one per non-nullable nonterminal child and subtracts "
    "the estimate of the expanded leaf; children are built from the expansion of the leaf's own nonterminal and placed at the leaf's path; (L2) count returns "
    "a replacement {in_tree: candidate} only under candidate_needle_occurrences == target_num_needle_occurrences and either no open leaf reaches the "
    "needle or every such leaf was replaced by an expansion without needle (for ... else), returns True only when the counted occurrences equal the target "
    "and no further needle is possible, and find_expansion_without_needle returns only trees with no needle leaf and no open leaf reaching the needle; "
    "(L3) extract_model_value_int_var returns only results of self.parse(<text>, <the variable's nonterminal>). NOT decided: the numeric bookkeeping for "
    "every grammar (nullable cycles), the search's completeness."
)


def rule_l1(ctx):
    f = ctx.repo.func(SOLVER, "create_fixed_length_tree", "C14.L1")
    c = f"{SOLVER}:create_fixed_length_tree"
    rets = [r for r in walk_local(f) if isinstance(r, ast.Return)]
    trees = [r for r in rets if src(r.value) == "tree"]
    if len(trees) != 1:
        raise Unrecognised("C14.L1", c, f"expected one `return tree` (found {len(trees)})")
    fs = facts(trees[0])
    ctx.check(has_fact(fs, "open_leaves", False), "L1-fixed-length", c, "tree returned only when no open leaf is left", site(trees[0]), "an open tree can be returned", "dominated by `not open_leaves`")
    ctx.check(has_fact(fs, "curr_len == target_length"), "L1-fixed-length", c, "tree returned only when curr_len == target_length", site(trees[0]),
              "a tree whose length differs from the requested one can be returned", "dominated by the length test")
    others = [r for r in rets if r is not trees[0]]
    ctx.check(all(src(r.value) == "None" for r in others), "L1-fixed-length", c, "otherwise None", site(f), f"other returns {[src(r.value) for r in others]}", "None")
    # bookkeeping of pushed states
    push = [x for x in calls_in(f) if isinstance(x.func, ast.Attribute) and x.func.attr == "append" and src(x.func.value) == "stack"]
    if len(push) != 1 or not isinstance(push[0].args[0], ast.Tuple) or len(push[0].args[0].elts) != 3:
        raise Unrecognised("C14.L1", c, "stack.append((tree, len, leaves)) not found")
    t, ln, lv = push[0].args[0].elts
    want_len = "curr_len + sum([len(child.value) if child.children == () else 1 if child.value not in nullable else 0 for child in new_children]) - int(leaf.value not in nullable)"
    ctx.check(src(ln).replace("\n", " ") == want_len, "L1-length-bookkeeping", c, "length estimate of the expanded tree", site(push[0]),
              f"bookkeeping is `{src(ln)}`; expected terminal lengths + 1 per non-nullable nonterminal child - estimate of the expanded leaf", "terminal lengths + non-nullable nonterminals - expanded leaf")
    ctx.check(src(t) == "expanded_tree", "L1-length-bookkeeping", c, "pushes the expanded tree", site(push[0]), f"pushes {src(t)}", "expanded_tree")
    want_lv = "open_leaves[:idx] + tuple([(path + (child_idx,), new_child) for child_idx, new_child in enumerate(new_children) if is_nonterminal(new_child.value)]) + open_leaves[idx + 1:]"
    ctx.check(src(lv).replace("\n", " ") == want_lv, "L1-length-bookkeeping", c, "open leaves: expanded leaf replaced by its nonterminal children", site(push[0]), f"found `{src(lv)[:120]}`", "leaf replaced by its open children, others kept")
    et = [n for n in walk_local(f) if isinstance(n, ast.Assign) and src(n.targets[0]) == "expanded_tree"]
    ok = len(et) == 1 and src(et[0].value).replace("\n", "").replace(" ", "") in ("tree.replace_path(path,DerivationTree(leaf.value,new_children,))", "tree.replace_path(path,DerivationTree(leaf.value,new_children))")
    ctx.check(ok, "L1-fixed-length", c, "leaf expanded in place with its own label", site(f), f"found {src(et[0].value)[:90] if et else None}", "replace_path(path, DerivationTree(leaf.value, new_children))")
    ge = [x for x in calls_in(f) if call_name(x) == "get_expansions"]
    ok = len(ge) == 1 and src(ge[0].args[0]) == "leaf.value"
    ctx.check(ok, "L1-fixed-length", c, "expansions of the leaf's own nonterminal", site(f), "expansions must be taken for leaf.value", "own alternatives")
    nc = [n for n in walk_local(f) if isinstance(n, ast.Assign) and src(n.targets[0]) == "new_children"]
    ok = len(nc) == 1 and "DerivationTree(elem, None if is_nonterminal(elem) else ())" in src(nc[0].value) and "for elem in expansion" in src(nc[0].value)
    ctx.check(ok, "L1-fixed-length", c, "children = one node per element of the expansion", site(f), f"found {src(nc[0].value)[:100] if nc else None}", "all elements, nonterminals open")
    init = [n for n in walk_local(f) if isinstance(n, (ast.Assign, ast.AnnAssign)) and src(getattr(n, 'target', None) or n.targets[0]) == "stack"]
    ok = bool(init) and "(start, int(start.value not in nullable), (((), start),))" in src(init[0].value).replace("\n", " ")
    ctx.check(ok, "L1-length-bookkeeping", c, "initial estimate of the start leaf", site(f), "initial stack entry changed", "int(start not nullable)")
    prune = [n for n in walk_local(f) if isinstance(n, ast.If) and src(n.test) == "curr_len > target_length" and isinstance(n.body[0], ast.Continue)]
    ctx.check(len(prune) == 1, "L1-fixed-length", c, "over-long candidates pruned (not returned)", site(f), "pruning test changed", "continue")


def rule_l2(ctx):
    f = ctx.repo.func(PRED, "count", "C14.L2")
    c = f"{PRED}:count"
    rets = [r for r in walk_local(f) if isinstance(r, ast.Return) and isinstance(r.value, ast.Call) and call_name(r.value) == "SemPredEvalResult"]
    n_repl = 0
    for r in rets:
        a = r.value.args[0]
        s = src(a)
        fs = close_facts(facts(r))
        if s == "{in_tree: candidate}":
            n_repl += 1
            ok = has_fact(fs, "candidate_needle_occurrences == target_num_needle_occurrences") and has_fact(fs, "leaves_reaching_needle", False)
            ctx.check(ok, "L2-count", c, "replacement only with the exact count and no leaf reaching the needle", site(r), "a candidate is proposed with a different needle count or with open leaves that can still produce a needle", "dominated")
        elif s == "{in_tree: expanded_node}":
            n_repl += 1
            ok = has_fact(fs, "candidate_needle_occurrences == target_num_needle_occurrences")
            p = parent(r)
            in_else = isinstance(p, ast.For) and r in p.orelse and src(p.iter) == "leaves_reaching_needle"
            brk = isinstance(p, ast.For) and any(isinstance(x, ast.If) and src(x.test) == "expansion is None" and isinstance(x.body[0], ast.Break) for x in p.body)
            ctx.check(ok and in_else and brk, "L2-count", c, "expanded replacement only if every needle-reaching leaf got a needle-free expansion", site(r),
                      "the expanded candidate is returned although some leaf that can reach the needle was not (or could not be) closed without a needle", "for ... else with break on failure")
        elif s == "True":
            ok = (has_fact(fs, "num_needle_occurrences == target_num_needle_occurrences") and has_fact(fs, "more_needles_possible", False)) or any(isinstance(a_, ast.ExceptHandler) for a_ in _anc(r))
            ctx.check(ok, "L2-count", c, "True only for the exact count with no further needle possible", site(r), "count answers True for a different number of occurrences or while more can appear", "dominated")
        elif s == "False":
            ctx.ok("L2-count", c, "return False", site(r), "rejecting is safe for a solver helper (no tree is proposed)")
        elif s == "None":
            ctx.ok("L2-count", c, "return not-ready", site(r), "not ready")
        elif s.startswith("{num:"):
            ok = has_fact(fs, "more_needles_possible", False) and has_fact(fs, "isinstance(num, Variable)")
            ctx.check(ok, "L2-count", c, "number bound only when no further needle is possible", site(r), "the occurrence number is bound while open leaves can still produce needles", "dominated")
        else:
            raise Unrecognised("C14.L2", c, f"return SemPredEvalResult({s[:40]}) not understood")
    if n_repl != 2:
        raise Unrecognised("C14.L2", c, f"expected two replacement returns, found {n_repl}")
    # counting function and needle-reaching test
    nn = [n for n in walk_local(f) if isinstance(n, ast.Assign) and src(n.targets[0]) == "num_needle_occurrences"]
    ok = len(nn) == 1 and src(nn[0].value) == "len(in_tree.filter(lambda t: t.value == needle))"
    ctx.check(ok, "L2-count", c, "occurrences = nodes labelled with the needle", site(f), f"found {src(nn[0].value) if nn else None}", "label count")
    lr = [n for n in walk_local(f) if isinstance(n, ast.Assign) and src(n.targets[0]) == "leaves_reaching_needle"]
    ok = len(lr) == 1 and "candidate.open_leaves()" in src(lr[0].value) and "reachable(graph, leaf_node.value, needle)" in src(lr[0].value)
    ctx.check(ok, "L2-count", c, "needle-reaching leaves = open leaves from which the needle is reachable", site(f), f"found {src(lr[0].value)[:90] if lr else None}", "all open leaves tested")
    g = ctx.repo.func(PRED, "find_expansion_without_needle", "C14.L2")
    c2 = f"{PRED}:find_expansion_without_needle"
    for r in [r for r in walk_local(g) if isinstance(r, ast.Return) and src(r.value) == "new_tree"]:
        fs = facts(r)
        ok1 = any(f_.positive and f_.text.replace("\n", " ") == "all((not reachable(graph, leaf_node.value, needle) for leaf_path, leaf_node in new_tree.open_leaves()))" for f_ in fs)
        ok2 = any((not f_.positive) and f_.text == "any((leaf.value == needle for _, leaf in new_tree.leaves()))" for f_ in fs)
        ctx.check(ok1, "L2-count", c2, "no open leaf reaches the needle", site(r), "an expansion is returned whose open leaves can still reach the needle", "dominated")
        ctx.check(ok2, "L2-count", c2, "no needle leaf in the expansion", site(r), "an expansion containing a needle leaf is returned", "dominated")
    # inventory: tuple used as a condition (always truthy)
    for n in ast.walk(f):
        if isinstance(n, ast.UnaryOp) and isinstance(n.op, ast.Not) and isinstance(n.operand, ast.Tuple):
            ctx.note("L2-tuple-condition", c, src(n)[:60], site(n), "`not (<expr>,)`: a one-element tuple is always truthy, so this filter never skips a candidate (over-target candidates are still discarded when popped); inventoried, no property violation shown")


def _anc(n):
    cur = parent(n)
    while cur is not None:
        yield cur
        cur = parent(cur)


def rule_l3(ctx):
    f = ctx.repo.func(SOLVER, "ISLaSolver.extract_model_value_int_var", "C14.L3")
    c = f"{SOLVER}:ISLaSolver.extract_model_value_int_var"
    rets = [r for r in walk_local(f) if isinstance(r, ast.Return)]
    n = 0
    for r in rets:
        v = r.value
        if isinstance(v, ast.Call) and call_name(v) == "fallback":
            ctx.check(has_fact(facts(r), "var in int_vars", False), "L3-model-value", c, "fallback only when not responsible", site(r), "fallback under the wrong condition", "var not in int_vars")
            continue
        n += 1
        ok = isinstance(v, ast.Call) and call_name(v) == "self.parse" and len(v.args) >= 2 and src(v.args[1]) in ("var_type", "var.n_type")
        ctx.check(ok, "L3-model-value", c, f"returns self.parse(<text>, the variable's nonterminal)", site(r),
                  f"a numeric model value is returned as {src(v)[:60]} instead of a tree parsed for the variable's nonterminal", "parsed for var.n_type")
    if n < 2:
        raise Unrecognised("C14.L3", c, "expected two parse returns")
    vt = [x for x in walk_local(f) if isinstance(x, ast.Assign) and src(x.targets[0]) == "var_type"]
    ctx.check(len(vt) == 1 and src(vt[0].value) == "var.n_type", "L3-model-value", c, "var_type = var.n_type", site(f), "var_type must be the variable's nonterminal", "own nonterminal")


def run(ctx) -> str:
    ctx.guarded("L1", lambda: rule_l1(ctx))
    ctx.guarded("L2", lambda: rule_l2(ctx))
    ctx.guarded("L3", lambda: rule_l3(ctx))
    ctx.assume("insert_tree results are valid trees containing the original nodes (C13 gates); self.parse returns a tree for the requested nonterminal (C10/C18)")
    return EXPLANATION
