"""C14 — Solver helpers that build trees to a target meet that target (gate-only)."""

from __future__ import annotations

import ast

from ..core import single_assignment_value, Unrecognised, call_name, calls_in, close_facts, facts, has_fact, parent, site, src, walk_local

SOLVER = "src/isla/solver.py"
PRED = "src/isla/isla_predicates.py"

EXPLANATION = (
    "Weakest level (gate only) for C14: decided: (L1) create_fixed_length_tree returns a tree only under 'no open leaf left' and 'curr_len == target_length', "
    "and the length bookkeeping of a pushed state adds the terminal lengths of the new children plus one per non-nullable nonterminal child and subtracts "
    "the estimate of the expanded leaf; children are built from the expansion of the leaf's own nonterminal and placed at the leaf's path; (L2) count returns "
    "a replacement {in_tree: candidate} only under candidate_needle_occurrences == target_num_needle_occurrences and either no open leaf reaches the "
    "needle or every such leaf was replaced by an expansion without needle (for ... else), returns True only when the counted occurrences equal the target "
    "and no further needle is possible, and find_expansion_without_needle returns only trees with no needle leaf and no open leaf reaching the needle; "
    "(L3) extract_model_value_int_var returns only results of self.parse(<text>, <the variable's nonterminal>). NOT decided: the numeric bookkeeping for "
    "every grammar (nullable cycles), the search's completeness."
)


def rule_l1(ctx):
    f = ctx.repo.func(SOLVER, "create_fixed_length_tree", "C14.L1")
    c = f"{SOLVER}:create_fixed_length_tree"
    rets = [r for r in walk_local(f) if isinstance(r, ast.Return)]
    trees = [r for r in rets if src(r.value) == "tree"]
    if len(trees) != 1:
        raise Unrecognised("C14.L1", c, f"expected one `return tree` (found {len(trees)})")
    fs = facts(trees[0])
    ctx.check(has_fact(fs, "open_leaves", False), "L1-fixed-length", c, "tree returned only when no open leaf is left", site(trees[0]), "an open tree can be returned", "dominated by `not open_leaves`")
    ctx.check(has_fact(fs, "curr_len == target_length"), "L1-fixed-length", c, "tree returned only when curr_len == target_length", site(trees[0]),
              "a tree whose length differs from the requested one can be returned", "dominated by the length test")
    others = [r for r in rets if r is not trees[0]]
    ctx.check(all(src(r.value) == "None" for r in others), "L1-fixed-length", c, "otherwise None", site(f), f"other returns {[src(r.value) for r in others]}", "None")
    # bookkeeping of pushed states
    push = [x for x in calls_in(f) if isinstance(x.func, ast.Attribute) and x.func.attr == "append" and src(x.func.value) == "stack"]
    if len(push) != 1 or not isinstance(push[0].args[0], ast.Tuple) or len(push[0].args[0].elts) != 3:
        raise Unrecognised("C14.L1", c, "stack.append((tree, len, leaves)) not found")
    t, ln, lv = push[0].args[0].elts
    want_len = "curr_len + sum([len(child.value) if child.children == () else 1 if child.value not in nullable else 0 for child in new_children]) - int(leaf.value not in nullable)"
    ctx.check(src(ln).replace("\n", " ") == want_len, "L1-length-bookkeeping", c, "length estimate of the expanded tree", site(push[0]),
              f"bookkeeping is `{src(ln)}`; expected terminal lengths + 1 per non-nullable nonterminal child - estimate of the expanded leaf", "terminal lengths + non-nullable nonterminals - expanded leaf")
    ctx.check(src(t) == "expanded_tree", "L1-length-bookkeeping", c, "pushes the expanded tree", site(push[0]), f"pushes {src(t)}", "expanded_tree")
    want_lv = "open_leaves[:idx] + tuple([(path + (child_idx,), new_child) for child_idx, new_child in enumerate(new_children) if is_nonterminal(new_child.value)]) + open_leaves[idx + 1:]"
    ctx.check(src(lv).replace("\n", " ") == want_lv, "L1-length-bookkeeping", c, "open leaves: expanded leaf replaced by its nonterminal children", site(push[0]), f"found `{src(lv)[:120]}`", "leaf replaced by its open children, others kept")
    et = [n for n in walk_local(f) if isinstance(n, ast.Assign) and src(n.targets[0]) == "expanded_tree"]
    ok = len(et) == 1 and src(et[0].value).replace("\n", "").replace(" ", "") in ("tree.replace_path(path,DerivationTree(leaf.value,new_children,))", "tree.replace_path(path,DerivationTree(leaf.value,new_children))")
    ctx.check(ok, "L1-fixed-length", c, "leaf expanded in place with its own label", site(f), f"found {src(et[0].value)[:90] if et else None}", "replace_path(path, DerivationTree(leaf.value, new_children))")
    ge = [x for x in calls_in(f) if call_name(x) == "get_expansions"]
    ok = len(ge) == 1 and src(ge[0].args[0]) == "leaf.value"
    ctx.check(ok, "L1-fixed-length", c, "expansions of the leaf's own nonterminal", site(f), "expansions must be taken for leaf.value", "own alternatives")
    nc = [n for n in walk_local(f) if isinstance(n, ast.Assign) and src(n.targets[0]) == "new_children"]
    ok = len(nc) == 1 and "DerivationTree(elem, None if is_nonterminal(elem) else ())" in src(nc[0].value) and "for elem in expansion" in src(nc[0].value)
    ctx.check(ok, "L1-fixed-length", c, "children = one node per element of the expansion", site(f), f"found {src(nc[0].value)[:100] if nc else None}", "all elements, nonterminals open")
    init = [n for n in walk_local(f) if isinstance(n, (ast.Assign, ast.AnnAssign)) and src(getattr(n, 'target', None) or n.targets[0]) == "stack"]
    ok = bool(init) and "(start, int(start.value not in nullable), (((), start),))" in src(init[0].value).replace("\n", " ")
    ctx.check(ok, "L1-length-bookkeeping", c, "initial estimate of the start leaf", site(f), "initial stack entry changed", "int(start not nullable)")
    prune = [n for n in walk_local(f) if isinstance(n, ast.If) and src(n.test) == "curr_len > target_length" and isinstance(n.body[0], ast.Continue)]
    ctx.check(len(prune) == 1, "L1-fixed-length", c, "over-long candidates pruned (not returned)", site(f), "pruning test changed", "continue")


def rule_l2(ctx):
    f = ctx.repo.func(PRED, "count", "C14.L2")
    c = f"{PRED}:count"
    rets = [r for r in walk_local(f) if isinstance(r, ast.Return) and isinstance(r.value, ast.Call) and call_name(r.value) == "SemPredEvalResult"]
    n_repl = 0
    for r in rets:
        a = r.value.args[0]
        s = src(a)
        fs = close_facts(facts(r))
        if s == "{in_tree: candidate}":
            n_repl += 1
            ok = has_fact(fs, "candidate_needle_occurrences == target_num_needle_occurrences") and has_fact(fs, "leaves_reaching_needle", False)
            ctx.check(ok, "L2-count", c, "replacement only with the exact count and no leaf reaching the needle", site(r), "a candidate is proposed with a different needle count or with open leaves that can still produce a needle", "dominated")
        elif s == "{in_tree: expanded_node}":
            n_repl += 1
            ok = has_fact(fs, "candidate_needle_occurrences == target_num_needle_occurrences")
            p = parent(r)
            in_else = isinstance(p, ast.For) and r in p.orelse and src(p.iter) == "leaves_reaching_needle"
            brk = isinstance(p, ast.For) and any(isinstance(x, ast.If) and src(x.test) == "expansion is None" and isinstance(x.body[0], ast.Break) for x in p.body)
            ctx.check(ok and in_else and brk, "L2-count", c, "expanded replacement only if every needle-reaching leaf got a needle-free expansion", site(r),
                      "the expanded candidate is returned although some leaf that can reach the needle was not (or could not be) closed without a needle", "for ... else with break on failure")
        elif s == "True":
            ok = (has_fact(fs, "num_needle_occurrences == target_num_needle_occurrences") and has_fact(fs, "more_needles_possible", False)) or any(isinstance(a_, ast.ExceptHandler) for a_ in _anc(r))
            ctx.check(ok, "L2-count", c, "True only for the exact count with no further needle possible", site(r), "count answers True for a different number of occurrences or while more can appear", "dominated")
        elif s == "False":
            ctx.ok("L2-count", c, "return False", site(r), "rejecting is safe for a solver helper (no tree is proposed)")
        elif s == "None":
            ctx.ok("L2-count", c, "return not-ready", site(r), "not ready")
        elif s.startswith("{num:"):
            ok = has_fact(fs, "more_needles_possible", False) and has_fact(fs, "isinstance(num, Variable)")
            ctx.check(ok, "L2-count", c, "number bound only when no further needle is possible", site(r), "the occurrence number is bound while open leaves can still produce needles", "dominated")
        else:
            raise Unrecognised("C14.L2", c, f"return SemPredEvalResult({s[:40]}) not understood")
    if n_repl != 2:
        raise Unrecognised("C14.L2", c, f"expected two replacement returns, found {n_repl}")
    # counting function and needle-reaching test
    nn = [n for n in walk_local(f) if isinstance(n, ast.Assign) and src(n.targets[0]) == "num_needle_occurrences"]
    ok = len(nn) == 1 and src(nn[0].value) == "len(in_tree.filter(lambda t: t.value == needle))"
    ctx.check(ok, "L2-count", c, "occurrences = nodes labelled with the needle", site(f), f"found {src(nn[0].value) if nn else None}", "label count")
    lr = [n for n in walk_local(f) if isinstance(n, ast.Assign) and src(n.targets[0]) == "leaves_reaching_needle"]
    ok = len(lr) == 1 and "candidate.open_leaves()" in src(lr[0].value) and "reachable(graph, leaf_node.value, needle)" in src(lr[0].value)
    ctx.check(ok, "L2-count", c, "needle-reaching leaves = open leaves from which the needle is reachable", site(f), f"found {src(lr[0].value)[:90] if lr else None}", "all open leaves tested")
    g = ctx.repo.func(PRED, "find_expansion_without_needle", "C14.L2")
    c2 = f"{PRED}:find_expansion_without_needle"
    for r in [r for r in walk_local(g) if isinstance(r, ast.Return) and src(r.value) == "new_tree"]:
        fs = facts(r)
        ok1 = any(f_.positive and f_.text.replace("\n", " ") == "all((not reachable(graph, leaf_node.value, needle) for leaf_path, leaf_node in new_tree.open_leaves()))" for f_ in fs)
        ok2 = any((not f_.positive) and f_.text == "any((leaf.value == needle for _, leaf in new_tree.leaves()))" for f_ in fs)
        ctx.check(ok1, "L2-count", c2, "no open leaf reaches the needle", site(r), "an expansion is returned whose open leaves can still reach the needle", "dominated")
        ctx.check(ok2, "L2-count", c2, "no needle leaf in the expansion", site(r), "an expansion containing a needle leaf is returned", "dominated")
    # inventory: tuple used as a condition (always truthy)
    for n in ast.walk(f):
        if isinstance(n, ast.UnaryOp) and isinstance(n.op, ast.Not) and isinstance(n.operand, ast.Tuple):
            ctx.note("L2-tuple-condition", c, src(n)[:60], site(n), "`not (<expr>,)`: a one-element tuple is always truthy, so this filter never skips a candidate (over-target candidates are still discarded when popped); inventoried, no property violation shown")


def _anc(n):
    cur = parent(n)
    while cur is not None:
        yield cur
        cur = parent(cur)


def rule_l3(ctx):
    f = ctx.repo.func(SOLVER, "ISLaSolver.extract_model_value_int_var", "C14.L3")
    c = f"{SOLVER}:ISLaSolver.extract_model_value_int_var"
    rets = [r for r in walk_local(f) if isinstance(r, ast.Return)]
    n = 0
    for r in rets:
        v = r.value
        if isinstance(v, ast.Call) and call_name(v) == "fallback":
            ctx.check(has_fact(facts(r), "var in int_vars", False), "L3-model-value", c, "fallback only when not responsible", site(r), "fallback under the wrong condition", "var not in int_vars")
            continue
        n += 1
        ok = isinstance(v, ast.Call) and call_name(v) == "self.parse" and len(v.args) >= 2 and src(v.args[1]) in ("var_type", "var.n_type")
        ctx.check(ok, "L3-model-value", c, f"returns self.parse(<text>, the variable's nonterminal)", site(r),
                  f"a numeric model value is returned as {src(v)[:60]} instead of a tree parsed for the variable's nonterminal", "parsed for var.n_type")
    if n < 2:
        raise Unrecognised("C14.L3", c, "expected two parse returns")
    vt = [x for x in walk_local(f) if isinstance(x, ast.Assign) and src(x.targets[0]) == "var_type"]
    ctx.check(len(vt) == 1 and src(vt[0].value) == "var.n_type", "L3-model-value", c, "var_type = var.n_type", site(f), "var_type must be the variable's nonterminal", "own nonterminal")


# --- L4: the text parsed for a numeric model value denotes that value (abstract interpretation over the sign of the value) -------------
# abstract string = list of tokens; a token is ("fin", frozenset of strings) | ("zeros",) | ("abs",)  where ("abs",) = decimal digits of |v| (canonical)


class _SignEval:
    def __init__(self, fn, case: str, rule: str, construct: str):
        # case: "neg" (v < 0), "zero" (v == 0), "pos" (v > 0) - the three sign classes every comparison with 0 is constant on
        self.fn, self.case, self.neg, self.rule, self.c = fn, case, case == "neg", rule, construct
        # regexes the auxiliary z3 variables are constrained to: z3_solver.add(z3.InRe(<var>, <re>))
        self.var_re = {}
        for call in calls_in(fn):
            if call_name(call) == "z3.InRe" and len(call.args) == 2 and isinstance(call.args[0], ast.Name):
                self.var_re[call.args[0].id] = call.args[1]

    def bad(self, why):
        raise Unrecognised(self.rule, self.c, why)

    def cond(self, e: ast.expr) -> bool:
        t = src(e)
        if isinstance(e, ast.Compare) and len(e.ops) == 1 and not isinstance(e.ops[0], (ast.In, ast.NotIn, ast.Is, ast.IsNot)):
            sides = [src(e.left), src(e.comparators[0])]
            if sorted(sides) == ["0", "int_model_value"]:
                # a comparison of the value with 0 is constant on each sign class: evaluate it on a representative
                rep = {"neg": -5, "zero": 0, "pos": 5}[self.case]
                return bool(eval(compile(ast.Expression(body=e), "<cond>", "eval"), {"__builtins__": {}}, {"int_model_value": rep}))
        if isinstance(e, ast.UnaryOp) and isinstance(e.op, ast.Not):
            return not self.cond(e.operand)
        if isinstance(e, ast.Name):
            v = single_assignment_value(self.fn, e.id)
            if v is not None:
                return self.cond(v)
        self.bad(f"condition `{t}` is not a test of the sign of int_model_value")

    def regex(self, e: ast.expr):
        """finite language or zeros for the z3 regex expression e"""
        if isinstance(e, ast.Name):
            v = single_assignment_value(self.fn, e.id)
            if v is None:
                self.bad(f"regex {e.id} not bound once")
            return self.regex(v)
        if isinstance(e, ast.Call):
            n = call_name(e)
            if n == "z3.Re" and len(e.args) == 1:
                toks = self.string(e.args[0])
                if len(toks) == 1 and toks[0][0] == "fin":
                    return toks[0]
                self.bad(f"z3.Re argument {src(e.args[0])} not a literal")
            if n == "z3.Option" and len(e.args) == 1:
                inner = self.regex(e.args[0])
                if inner[0] == "fin":
                    return ("fin", frozenset(inner[1] | {""}))
            if n == "z3.Star" and len(e.args) == 1:
                inner = self.regex(e.args[0])
                if inner == ("fin", frozenset({"0"})):
                    return ("zeros",)
        self.bad(f"regex {src(e)[:60]} not understood")

    def string(self, e: ast.expr):
        if isinstance(e, ast.Constant) and isinstance(e.value, str):
            return [("fin", frozenset({e.value}))]
        if isinstance(e, ast.IfExp):
            return self.string(e.body if self.cond(e.test) else e.orelse)
        if isinstance(e, ast.BinOp) and isinstance(e.op, ast.Add):
            return self.string(e.left) + self.string(e.right)
        if isinstance(e, ast.Name):
            if e.id == "str_model_value":
                # decimal rendering of the model value (int(str_model_value) succeeded): canonical digits, '-' first when negative
                return ([("fin", frozenset({"-"}))] if self.neg else []) + [("abs",)]
            if e.id in self.var_re:
                return [self.regex(self.var_re[e.id])]
            v = single_assignment_value(self.fn, e.id)
            if v is not None:
                return self.string(v)
            self.bad(f"name {e.id} not resolved")
        if isinstance(e, ast.Call):
            n = call_name(e)
            if n == "z3.StringVal" and len(e.args) == 1:
                return self.string(e.args[0])
            if n == "z3.Concat":
                out = []
                for a in e.args:
                    out += self.string(a)
                return out
            if n == "str" and len(e.args) == 1:
                t = src(e.args[0])
                if t == "int_model_value":
                    return ([("fin", frozenset({"-"}))] if self.neg else []) + [("abs",)]
                if t == "-int_model_value":
                    # digits of -v: |v| when v is negative; for v >= 0 this is '-'+|v| (or '0')
                    return [("abs",)] if self.neg or self.case == "zero" else [("fin", frozenset({"-"})), ("abs",)]
                if t == "abs(int_model_value)":
                    return [("abs",)]
            # z3_solver.model()[<var>].as_string()
            if isinstance(e.func, ast.Attribute) and e.func.attr == "as_string" and isinstance(e.func.value, ast.Subscript) and isinstance(e.func.value.slice, ast.Name):
                vn = e.func.value.slice.id
                if vn in self.var_re:
                    return [self.regex(self.var_re[vn])]
        self.bad(f"string expression `{src(e)[:70]}` not understood")


def _denotes_value(tokens, negative: bool):
    """does every string of the abstract text denote v?  shape: <finite prefix language> zeros* abs; prefix strings must be [+]?0* (v >= 0) or -0* (v < 0)"""
    import itertools
    import re as _re

    i = 0
    prefix = [""]
    while i < len(tokens) and tokens[i][0] in ("fin", "zeros"):
        if tokens[i][0] == "fin":
            prefix = [a + b for a in prefix for b in sorted(tokens[i][1])]
        else:
            prefix = [a + "0" for a in prefix] + prefix  # representative: zero or one padding zero
        i += 1
    if i != len(tokens) - 1 or tokens[i] != ("abs",):
        return False, "text is not <sign><padding><digits of |value|>"
    pat = _re.compile(r"-0*\Z" if negative else r"\+?0*\Z")
    badp = [x for x in prefix if not pat.match(x)]
    if badp:
        return False, f"for a {'negative' if negative else 'non-negative'} value the text may start with {badp[0]!r}"
    return True, ""


def rule_l4(ctx):
    f = ctx.repo.func(SOLVER, "ISLaSolver.extract_model_value_int_var", "C14.L4")
    c = f"{SOLVER}:ISLaSolver.extract_model_value_int_var"
    imv = single_assignment_value(f, "int_model_value")
    if imv is None or src(imv) != "int(str_model_value)":
        raise Unrecognised("C14.L4", c, "int_model_value = int(str_model_value) not found")
    texts = []
    for call in calls_in(f, include_nested=False):
        if call_name(call) == "self.parse" and call.args:
            texts.append(("parsed text", call.args[0]))
        if call_name(call) == "z3.InRe" and len(call.args) == 2 and isinstance(call.args[0], ast.Call) and call_name(call.args[0]) == "z3.Concat":
            texts.append(("text tested against the nonterminal's regular expression", call.args[0]))
    if len(texts) < 3:
        raise Unrecognised("C14.L4", c, f"only {len(texts)} numeric text constructions found (expected the direct parse, the regex membership test and the padded parse)")
    for what, e in texts:
        for case in ("pos", "zero", "neg"):
            neg = case == "neg"
            ev = _SignEval(f, case, "C14.L4", c)
            toks = ev.string(e)
            ok, why = _denotes_value(toks, neg)
            ctx.check(ok, "L4-numeric-text-denotes-value", c, f"{what} [{dict(pos='v > 0', zero='v == 0', neg='v < 0')[case]}] `{' '.join(src(e).split())[:50]}`", site(e),
                      f"the {what} does not denote the model value: {why} (a str.to.int solution is then turned into a tree with a different numeric value, e.g. '5' for -5; "
                      "or, for the value 0, only texts with a minus sign are tried, so a grammar that derives '00' but no '-' loses the solution and solve() raises instead of returning it)",
                      "[+]?0*<digits> for v >= 0, -0*<digits> for v < 0")


HELPERS_ = "src/isla/helpers.py"


def rule_l5(ctx):
    """Helpers the tree builders rest on: (a) nullable nonterminals = least fixed point (iterate until nothing changes); (b) 'terminal expansion' = exactly one
    terminal symbol (the empty expansion is NOT one: the search must be able to choose between nothing and a terminal); (c) reachability answers are not cached
    across grammars."""
    from ..memo import check_cached_grammar_projection

    f = ctx.repo.func(HELPERS_, "compute_nullable_nonterminals", "C14.L5")
    c = f"{HELPERS_}:compute_nullable_nonterminals"
    t = " ".join(src(f).split())
    fix = "changed = True while changed: changed = False" in t and "all((elem in result for elem in expansion))" in t and "result.add(nonterminal)" in t and "any((not expansion for expansion in canonical_grammar[nonterminal]))" in t
    if fix:
        ctx.ok("L5-nullable-fixpoint", c, "least fixed point from the epsilon alternatives", site(f), "iterate until unchanged")
    else:
        memo_rec = any(isinstance(n, ast.FunctionDef) and any(isinstance(x, ast.Call) and call_name(x) == n.name for x in ast.walk(n)) for n in ast.walk(f) if n is not f)
        if memo_rec and "in_progress" in t:
            ctx.viol("L5-nullable-fixpoint", c, "least fixed point from the epsilon alternatives", site(f),
                     "nullability is computed by a memoised recursion that answers 'not nullable' for a nonterminal in progress and stores results obtained under that assumption: for mutually "
                     "recursive nullable nonterminals (<parts> ::= <part><parts> | \"\", <part> ::= <section>, <section> ::= <title><parts>) some are wrongly non-nullable and "
                     "create_fixed_length_tree prunes feasible lengths")
        else:
            raise Unrecognised("C14.L5", c, "computation of the nullable nonterminals is not the recognised fixed-point iteration")
    g = ctx.repo.func(HELPERS_, "get_expansions", "C14.L5")
    c2 = f"{HELPERS_}:get_expansions"
    te = [a for a in walk_local(g) if isinstance(a, ast.Assign) and src(a.targets[0]) == "terminal_expansions" and isinstance(a.value, ast.ListComp)]
    if len(te) != 1:
        raise Unrecognised("C14.L5", c2, "terminal_expansions not found")
    cond = " and ".join(" ".join(src(i).split()) for i in te[0].value.generators[0].ifs)
    if cond == "len(expansion) == 1 and (not is_nonterminal(expansion[0]))" or cond == "len(expansion) == 1 and not is_nonterminal(expansion[0])":
        ctx.ok("L5-terminal-expansions", c2, "terminal expansion = exactly one terminal symbol", site(te[0]), cond)
    elif "len(expansion)" not in cond and "not any(" in cond:
        ctx.viol("L5-terminal-expansions", c2, "terminal expansion = exactly one terminal symbol", site(te[0]),
                 f"`{cond}` also classifies the EMPTY expansion as a terminal expansion: create_fixed_length_tree keeps one random member of that group per leaf, so for "
                 "<sign> ::= \"\" | \"+\" | \"-\" it can no longer choose between nothing and a sign and returns None for feasible lengths")
    else:
        raise Unrecognised("C14.L5", c2, f"classification `{cond}` not understood")
    n = check_cached_grammar_projection(ctx, "L5-reachability-cache", [PRED, HELPERS_, SOLVER])
    ctx.inventory["cached_helper_calls_from_grammar_functions"] = n
    r = ctx.repo.func(PRED, "reachable", "C14.L5")
    tt = " ".join(src(r).split())
    if "return graph.reachable(f_node, t_node)" in tt:
        ctx.ok("L5-reachability-cache", f"{PRED}:reachable", "reachability asked of the graph itself", site(r), "graph.reachable(f_node, t_node)")


def rule_l6(ctx):
    """infer_variable_contexts: the contexts (str.len / str.to.int / other) in which a variable occurs are collected over ALL formulas - the per-formula maps
    variable -> set of parents are merged key-wise (union of the sets); a plain dict union keeps only the last formula's set."""
    f = ctx.repo.func(SOLVER, "ISLaSolver.infer_variable_contexts", "C14.L6")
    c = f"{SOLVER}:ISLaSolver.infer_variable_contexts"
    pr = [a for a in walk_local(f) if isinstance(a, ast.Assign) and src(a.targets[0]) == "parent_relationships"]
    if len(pr) != 1 or not (isinstance(pr[0].value, ast.Call) and call_name(pr[0].value) in ("reduce", "functools.reduce")):
        raise Unrecognised("C14.L6", c, "merge of the per-formula parent relationships not found")
    op = src(pr[0].value.args[0])
    if op == "merge_dict_of_sets":
        ctx.ok("L6-contexts-merged", c, "per-formula maps merged key-wise", site(pr[0]), "reduce(merge_dict_of_sets, ...)")
    elif op in ("operator.or_", "dict.__or__") or "a | b" in op or "{**" in op:
        ctx.viol("L6-contexts-merged", c, "per-formula maps merged key-wise", site(pr[0]),
                 f"the maps are combined with `{op}` (dict union): for a variable that occurs in two formulas only the LAST formula's contexts survive - with `str.len(x) >= 3` and "
                 "`str.to.int(x) <= 50` x is classified as a pure int (or pure length) variable and the tree built for it violates the other requirement")
    else:
        raise Unrecognised("C14.L6", c, f"merge operator `{op}` not understood")


def run(ctx) -> str:
    ctx.guarded("L6", lambda: rule_l6(ctx))
    ctx.guarded("L5", lambda: rule_l5(ctx))
    ctx.guarded("L4", lambda: rule_l4(ctx))
    ctx.guarded("L1", lambda: rule_l1(ctx))
    ctx.guarded("L2", lambda: rule_l2(ctx))
    ctx.guarded("L3", lambda: rule_l3(ctx))
    ctx.assume("insert_tree results are valid trees containing the original nodes (C13 gates); self.parse returns a tree for the requested nonterminal (C10/C18)")
    return EXPLANATION
