"""C03 — evaluate() agrees with the ISLa language specification on closed trees."""

from __future__ import annotations

import ast
from typing import Dict, List, Optional, Set

from ..callgraph import CallGraph, SRC_ISLA
from ..core import Unrecognised, call_name, calls_in, dotted, facts, module_of, parent, qual, site, src, walk_local
from ..dispatch import check_flow_arity, find_flow_tables, first_guard, resolve_handler
from ..formulas import LANG, expand_classes, formula_classes, if_chain, isinstance_classes
from . import c16
from ..memo import check_memo_keys

EVAL = "src/isla/evaluator.py"
SOLVER = "src/isla/solver.py"

EXPLANATION = (
    "Static necessary conditions for C03 over src/isla/evaluator.py (+ trie.py, language.py): decided: (E1) the legacy strategy's dispatch table accepts "
    "its arguments and its handlers cover every concrete Formula class except those excluded by the routing guard of evaluate(), and every call of "
    "evaluate_legacy from outside its own handlers sits under that guard; (E2) the second strategy covers all classes: get_toplevel_quantified_formulas "
    "descends through every propositional combinator, eliminate_quantifiers treats tree and numeric quantifiers, approximate_isla_to_smt_formula "
    "translates SMT/and/or/not/forall-int/exists-int and abstracts the rest only when asked; (E3) the aggregator table: and/forall -> "
    "ThreeValuedTruth.all, or/exists -> .any, not -> .not_, quantifier elimination uses __and__ for forall and __or__ for exists with the right "
    "vacuous value, never Python's all/any/not on three-valued values; (E4) the quantifier domain is complete: path-index totality for any branching "
    "degree (shared with C16) and domain = all sub-trie items whose label equals the bound variable's type, or all match-expression matches over every "
    "node; (E5) atoms: structural predicates are judged by predicate.evaluate on paths of the reference tree, SMT atoms by the fast path with Z3 fallback. "
    "NOT decided: that each verdict equals the specification's for every formula/tree (value-level); exceptions raised for particular inputs."
)


def rule_e1(ctx):
    concrete, abstract = formula_classes(ctx.repo, "C03.E1")
    m = ctx.repo.module(EVAL, "C03.E1")
    lm = ctx.repo.module(LANG, "C03.E1")
    fn = ctx.repo.func(EVAL, "evaluate_legacy", "C03.E1")
    tables = check_flow_arity(ctx, "E1-arity", fn, min_handlers=8)
    t = tables[0]
    covered: Set[str] = set()
    raising: Set[str] = set()
    for h in t.handlers:
        target = resolve_handler(h, t.call, m)
        if not isinstance(target, ast.FunctionDef):
            continue
        # the responsibility guard is the first statement with control flow (docstrings, constant bindings and logging calls before it are irrelevant)
        lead = 0
        while lead < len(target.body) and ((isinstance(target.body[lead], ast.Expr) and isinstance(target.body[lead].value, (ast.Constant, ast.Call)) and not isinstance(getattr(target.body[lead].value, "func", None), ast.Lambda))
                                           or (isinstance(target.body[lead], ast.Assign) and isinstance(target.body[lead].value, ast.Constant))
                                           or isinstance(target.body[lead], (ast.Assert, ast.Pass))):
            lead += 1
        if lead:
            target = ast.FunctionDef(name=target.name, args=target.args, body=target.body[lead:], decorator_list=[], lineno=target.lineno)
        if target.body and isinstance(target.body[0], ast.If):
            test = target.body[0].test
            cl: List[str] = []
            for sub in ast.walk(test):
                if isinstance(sub, ast.Call) and call_name(sub) == "isinstance":
                    cl += isinstance_classes(sub) or []
            cov = expand_classes(cl, concrete, abstract, lm)
            covered |= cov
            rest = target.body[1:]
            if rest and all(isinstance(s, ast.Raise) for s in rest if not isinstance(s, ast.Expr)):
                raising |= cov
    excluded_by_guard = expand_classes(["NumericQuantifiedFormula"], concrete, abstract, lm)
    missing = set(concrete) - covered - excluded_by_guard
    ctx.check(not missing, "E1-exhaustive", f"{EVAL}:evaluate_legacy", "handlers cover all routed Formula classes", site(t.call),
              f"no legacy handler for {sorted(missing)} although evaluate() routes such formulas to evaluate_legacy: NotImplementedError/TypeError instead of a verdict",
              f"covered {sorted(covered)}; numeric quantifiers excluded by the routing guard")
    bad_raising = raising - excluded_by_guard
    ctx.check(not bad_raising, "E1-exhaustive", f"{EVAL}:evaluate_legacy", "deliberately raising handlers only for guarded-out classes", site(t.call),
              f"handlers for {sorted(bad_raising)} raise unconditionally although the routing guard does not exclude these classes", "only numeric quantifiers raise")
    # routing guard
    ev = ctx.repo.func(EVAL, "evaluate", "C03.E1")
    calls = [c for c in calls_in(ev, include_nested=False) if call_name(c) == "evaluate_legacy"]
    if len(calls) != 1:
        raise Unrecognised("C03.E1", f"{EVAL}:evaluate", "expected one call of evaluate_legacy")
    fs = facts(calls[0])
    g1 = any(not f.positive and "FilterVisitor" in f.text and "NumericQuantifiedFormula" in f.text and f.text.endswith(".collect(formula)") for f in fs)
    g2 = any(not f.positive and f.text == "assumptions" for f in fs)
    ctx.check(g1, "E1-routing", f"{EVAL}:evaluate", "legacy only without numeric quantifiers", site(calls[0]),
              "evaluate_legacy cannot evaluate numeric quantifiers; the call must be guarded by 'no NumericQuantifiedFormula in the formula'", "guarded by the FilterVisitor test")
    ctx.check(g2, "E1-routing", f"{EVAL}:evaluate", "legacy only without assumptions", site(calls[0]), "the legacy strategy ignores assumptions", "guarded by `not assumptions`")
    # the guarded formula is the one passed (after instantiate_top_level_constant)
    ctx.check(src(calls[0].args[0]) == "formula", "E1-routing", f"{EVAL}:evaluate", "same formula tested and evaluated", site(calls[0]), "the routing guard tests `formula` but another object is evaluated", "same formula")
    # other callers
    cg = CallGraph(ctx.repo, SRC_ISLA)
    callers = cg.callers_of_name("evaluate_legacy")
    outside = sorted(c for c in callers if not c.startswith(f"{EVAL}:evaluate"))
    ctx.check(not outside, "E1-routing", f"{EVAL}:evaluate_legacy", "only evaluate() and the legacy handlers call evaluate_legacy", site(fn),
              f"evaluate_legacy is also called from {outside} without the routing guard", "no unguarded caller")
    ctx.inventory["evaluate_legacy_callers"] = sorted(callers)


def rule_e2(ctx):
    concrete, abstract = formula_classes(ctx.repo, "C03.E2")
    lm = ctx.repo.module(LANG, "C03.E2")
    f = ctx.repo.func(EVAL, "get_toplevel_quantified_formulas", "C03.E2")
    chain = if_chain(f.body)
    got = {}
    for test, body, node in chain:
        if test is None:
            got["else"] = body
            continue
        cl = isinstance_classes(test, "formula")
        if cl is None:
            raise Unrecognised("C03.E2", f"{EVAL}:get_toplevel_quantified_formulas", f"test {src(test)}")
        got[tuple(sorted(cl))] = body
    q = got.get(("NumericQuantifiedFormula", "QuantifiedFormula"))
    ctx.check(q is not None and src(q[0]) == "return [formula]", "E2-second-strategy", f"{EVAL}:get_toplevel_quantified_formulas", "quantifiers of both kinds are found", site(f),
              "top-level tree and numeric quantifiers must both be returned", "both kinds returned")
    p = got.get(("PropositionalCombinator",))
    ok = p is not None and src(p[0]).replace("\n", " ") == "return [f for arg in formula.args for f in get_toplevel_quantified_formulas(arg)]"
    ctx.check(ok, "E2-second-strategy", f"{EVAL}:get_toplevel_quantified_formulas", "descends into every argument of and/or/not", site(f),
              "quantifiers below a combinator would stay un-eliminated and be abstracted to a fresh predicate (verdict UNKNOWN/FALSE instead of the real one)", "all args of every combinator searched")
    e = ctx.repo.func(EVAL, "eliminate_quantifiers", "C03.E2")
    loops = {}
    for n in walk_local(e):
        if isinstance(n, ast.For) and isinstance(n.iter, ast.Name):
            for c in calls_in(n, include_nested=False):
                loops[n.iter.id] = call_name(c)
    filt = {}
    for n in walk_local(e):
        if isinstance(n, ast.Assign) and isinstance(n.value, ast.ListComp) and "get_toplevel_quantified_formulas(formula)" in src(n.value):
            cl = [x for g in n.value.generators for i in g.ifs for x in (isinstance_classes(i, "f") or [])]
            filt[src(n.targets[0])] = cl
    ok = filt.get("quantified_formulas") == ["QuantifiedFormula"] and filt.get("numeric_quantified_formulas") == ["NumericQuantifiedFormula"]
    ctx.check(ok, "E2-second-strategy", f"{EVAL}:eliminate_quantifiers", "both quantifier kinds selected", site(e), f"selection filters: {filt}", "tree quantifiers then numeric quantifiers")
    ok = loops.get("quantified_formulas") == "eliminate_quantifiers_in_quantified_formula" and loops.get("numeric_quantified_formulas") == "eliminate_quantifiers_in_numeric_quantified_formula"
    ctx.check(ok, "E2-second-strategy", f"{EVAL}:eliminate_quantifiers", "each kind handed to its eliminator", site(e), f"loops: {loops}", "dispatched to the matching eliminator")
    a = ctx.repo.func(EVAL, "approximate_isla_to_smt_formula", "C03.E2")
    seen = {}
    for st in a.body:
        if isinstance(st, ast.If):
            cl = isinstance_classes(st.test, "formula")
            if cl and len(cl) == 1:
                r = [s for s in st.body if isinstance(s, ast.Return)]
                seen[cl[0]] = src(r[0].value).split("(")[0] if r else None
    want = {"SMTFormula": "formula.formula", "ConjunctiveFormula": "z3_and", "DisjunctiveFormula": "z3_or", "NegatedFormula": "z3.Not", "ForallIntFormula": "z3.ForAll", "ExistsIntFormula": "z3.Exists"}
    for k, v in want.items():
        ctx.check(seen.get(k) == v, "E2-smt-translation", f"{EVAL}:approximate_isla_to_smt_formula", f"{k} -> {v}", site(a),
                  f"{k} must be translated with {v}, found {seen.get(k)}", "connective translated faithfully")
    # abstraction only under the flag
    raises = [n for n in walk_local(a) if isinstance(n, ast.Raise)]
    ok = len(raises) == 1 and any(f.text == "replace_untranslatable_with_predicate" and not f.positive for f in facts(raises[0]))
    ctx.check(ok, "E2-smt-translation", f"{EVAL}:approximate_isla_to_smt_formula", "abstraction only when asked", site(a), "untranslatable formulas must raise unless abstraction was requested", "raises unless flag")
    for n in ast.walk(a):
        if isinstance(n, ast.ListComp) and "approximate_isla_to_smt_formula" in src(n):
            ctx.check(src(n.generators[0].iter) == "formula.args", "E2-smt-translation", f"{EVAL}:approximate_isla_to_smt_formula", "all args translated", site(n), "every argument of and/or must be translated", "all args")


AGG = {
    "evaluate_negated_formula_formula": "ThreeValuedTruth.not_",
    "evaluate_conjunctive_formula_formula": "ThreeValuedTruth.all",
    "evaluate_disjunctive_formula": "ThreeValuedTruth.any",
}


def rule_e3(ctx):
    m = ctx.repo.module(EVAL, "C03.E3")
    for name, agg in AGG.items():
        f = ctx.repo.func(EVAL, name, "C03.E3")
        rets = [r for r in walk_local(f) if isinstance(r, ast.Return) and src(r.value) != "Nothing"]
        if len(rets) != 1 or not (isinstance(rets[0].value, ast.Call) and call_name(rets[0].value) == "Some"):
            raise Unrecognised("C03.E3", f"{EVAL}:{name}", "expected `return Some(<aggregate>)`")
        inner = rets[0].value.args[0]
        got = call_name(inner) if isinstance(inner, ast.Call) else None
        ctx.check(got == agg, "E3-aggregator", f"{EVAL}:{name}", f"{agg}", site(rets[0]),
                  f"the verdict must be aggregated with {agg}; found {got} (e.g. all<->any swaps and/or; Python's all()/any() assert on UNKNOWN)", "Kleene aggregator of the connective")
        if agg != "ThreeValuedTruth.not_":
            arg = inner.args[0]
            ok = isinstance(arg, ast.GeneratorExp) and src(arg.generators[0].iter) == "formula.args" and call_name(arg.elt) == "evaluate_legacy" and src(arg.elt.args[0]) == arg.generators[0].target.id
            ctx.check(ok, "E3-aggregator", f"{EVAL}:{name}", "over every argument", site(rets[0]), "all arguments of the combinator must be evaluated", "every element of formula.args")
        else:
            ok = isinstance(inner.args[0], ast.Call) and call_name(inner.args[0]) == "evaluate_legacy" and src(inner.args[0].args[0]) == "formula.args[0]"
            ctx.check(ok, "E3-aggregator", f"{EVAL}:{name}", "negates the operand's verdict", site(rets[0]), "negation must negate the verdict of its operand", "operand evaluated")
    f = ctx.repo.func(EVAL, "evaluate_quantified_formula", "C03.E3")
    found = {}
    for test, body, node in if_chain(f.body):
        if test is None:
            continue
        cl = isinstance_classes(test, "formula")
        if cl and cl[0] in ("ForallFormula", "ExistsFormula"):
            aggs = [call_name(c) for s in body for c in calls_in(s) if (call_name(c) or "").startswith("ThreeValuedTruth.") and call_name(c) in ("ThreeValuedTruth.all", "ThreeValuedTruth.any")]
            found[cl[0]] = aggs
            for s in body:
                for c in calls_in(s):
                    if call_name(c) in ("ThreeValuedTruth.all", "ThreeValuedTruth.any"):
                        arg = c.args[0]
                        ok = isinstance(arg, ast.GeneratorExp) and src(arg.generators[0].iter) == "new_assignments" and call_name(arg.elt) == "evaluate_legacy" and src(arg.elt.args[0]) == "formula.inner_formula" and not arg.generators[0].ifs
                        ctx.check(ok, "E3-aggregator", f"{EVAL}:evaluate_quantified_formula", f"{cl[0]}: body evaluated for every instantiation", site(c),
                                  "the quantifier must evaluate its body once per element of the domain, without filtering", "every instantiation")
    ctx.check(found.get("ForallFormula") == ["ThreeValuedTruth.all"], "E3-aggregator", f"{EVAL}:evaluate_quantified_formula", "forall -> all", site(f), f"forall aggregates with {found.get('ForallFormula')}", "all")
    ctx.check(found.get("ExistsFormula") == ["ThreeValuedTruth.any"], "E3-aggregator", f"{EVAL}:evaluate_quantified_formula", "exists -> any", site(f), f"exists aggregates with {found.get('ExistsFormula')}", "any")
    # builtin all/any/not on three-valued values in the legacy handlers
    for name in list(AGG) + ["evaluate_quantified_formula"]:
        fn = ctx.repo.func(EVAL, name, "C03.E3")
        for c in calls_in(fn):
            if call_name(c) in ("all", "any") and "evaluate_legacy" in src(c):
                ctx.viol("E3-aggregator", f"{EVAL}:{name}", src(c)[:50], site(c), "Python's all()/any() over ThreeValuedTruth values: __bool__ asserts on UNKNOWN and the three-valued result is lost")
    # second strategy
    f = ctx.repo.func(EVAL, "eliminate_quantifiers_in_quantified_formula", "C03.E3")
    ro = [n for n in walk_local(f) if isinstance(n, ast.Assign) and src(n.targets[0]) == "reduce_op"]
    ok = len(ro) == 1 and src(ro[0].value).replace("\n", " ") == "Formula.__and__ if isinstance(quantified_formula, ForallFormula) else Formula.__or__"
    ctx.check(ok, "E3-aggregator", f"{EVAL}:eliminate_quantifiers_in_quantified_formula", "forall -> and, exists -> or", site(f), f"found {src(ro[0].value) if ro else None}", "conjunction for forall, disjunction for exists")
    vac = [c for c in calls_in(f) if call_name(c) == "smt_atom"]
    ok = len(vac) == 1 and src(vac[0].args[0]) == "isinstance(quantified_formula, ForallFormula)"
    ctx.check(ok, "E3-aggregator", f"{EVAL}:eliminate_quantifiers_in_quantified_formula", "empty domain: forall true, exists false", site(f), f"vacuous value {src(vac[0].args[0]) if vac else None}", "vacuous truth values")
    inst = [n for n in walk_local(f) if isinstance(n, ast.Assign) and src(n.targets[0]) == "instantiations"]
    ok = len(inst) == 1 and isinstance(inst[0].value, ast.ListComp) and src(inst[0].value.generators[0].iter) == "matches" and not inst[0].value.generators[0].ifs and "quantified_formula.inner_formula.substitute_expressions(match)" in src(inst[0].value.elt)
    ctx.check(ok, "E3-aggregator", f"{EVAL}:eliminate_quantifiers_in_quantified_formula", "body instantiated for every match", site(f), "one instantiation per match, unfiltered", "every match")
    nf = ctx.repo.func(EVAL, "eliminate_quantifiers_in_numeric_quantified_formula", "C03.E3")
    ok = any(src(n).replace("\n", " ").startswith("context_formula | reduce(Formula.__or__") for n in ast.walk(nf) if isinstance(n, ast.BinOp))
    ctx.check(ok, "E3-aggregator", f"{EVAL}:eliminate_quantifiers_in_numeric_quantified_formula", "exists int: disjunction over known numeric constants", site(nf), "existential numeric quantifier instantiated by disjunction", "or over constants")


def rule_e4(ctx):
    # path-index totality, shared with C16 (reported under this property's rule names)
    c16.rule_t1(ctx)
    f = ctx.repo.func(EVAL, "evaluate_quantified_formula", "C03.E4")
    construct = f"{EVAL}:evaluate_quantified_formula"
    st = [n for n in walk_local(f) if isinstance(n, ast.Assign) and src(n.targets[0]) == "sub_trie"]
    ctx.check(len(st) == 1 and src(st[0].value) == "trie.get_subtrie(in_path)", "E4-domain", construct, "domain = subtrie below the in-tree", site(f), f"found {src(st[0].value) if st else None}", "sub-trie at the in-variable's path")
    loops = [n for n in walk_local(f) if isinstance(n, ast.For) and src(n.iter) == "sub_trie.items()"]
    if len(loops) != 1:
        raise Unrecognised("C03.E4", construct, "loop over sub_trie.items() not found")
    lp = loops[0]
    ok = len(lp.body) == 1 and isinstance(lp.body[0], ast.If) and src(lp.body[0].test) == "subtree.value == formula.bound_variable.n_type" and not lp.body[0].orelse
    ctx.check(ok, "E4-domain", construct, "filter: label == bound variable's type, nothing else", site(lp), f"domain filter is {src(lp.body[0].test) if isinstance(lp.body[0], ast.If) else src(lp.body[0])[:60]}", "exactly the nodes of the quantified type")
    app = [c for c in calls_in(lp) if isinstance(c.func, ast.Attribute) and c.func.attr == "append"]
    ok = len(app) == 1 and src(app[0].args[0]) == "{formula.bound_variable: (in_path + path, subtree)}"
    ctx.check(ok, "E4-domain", construct, "assignment = (absolute path, subtree)", site(lp), f"found {src(app[0].args[0]) if app else None}", "absolute path and subtree")
    # the enumeration itself is unconditional (apart from the with/without match expression split): any further guard empties the domain for some trees
    extra = [(x.text, x.positive) for x in facts(lp) if x.text not in ("formula.bind_expression is None", "isinstance(formula, QuantifiedFormula)", "isinstance(formula.in_variable, DerivationTree)")]
    ctx.check(not extra, "E4-domain", construct, "domain enumeration not guarded by further conditions", site(lp),
              f"the scan of the sub-trie only runs under {extra}: for trees where the guard is false the quantifier's domain is empty although matching nodes exist (e.g. a non-reflexive "
              "reachability test loses the in-tree's own root: `forall <digit> d: exists <digit> e in d: ...`)", "unconditional enumeration")
    brk = [n for n in ast.walk(lp) if isinstance(n, (ast.Break, ast.Continue, ast.Return))]
    ctx.check(not brk, "E4-domain", construct, "no early exit from the domain loop", site(lp), "break/continue/return truncates the quantifier domain", "complete enumeration")
    mm = [c for c in calls_in(f) if call_name(c) == "matches_for_quantified_formula"]
    ok = len(mm) == 1 and [src(a) for a in mm[0].args] == ["formula", "grammar", "in_inst", "{}"] and any(f_.text == "formula.bind_expression is None" and not f_.positive for f_ in facts(mm[0]))
    ctx.check(ok, "E4-domain", construct, "match expressions: all matches below the in-tree", site(f), "with a match expression the domain must be matches_for_quantified_formula(formula, grammar, in_inst, {})", "all matches")
    m2 = ctx.repo.func(EVAL, "matches_for_quantified_formula", "C03.E4")
    tr = [c for c in calls_in(m2, include_nested=False) if call_name(c) == "in_tree.traverse"]
    ctx.check(len(tr) == 1 and [src(a) for a in tr[0].args] == ["search_action"] and not tr[0].keywords, "E4-domain", f"{EVAL}:matches_for_quantified_formula", "visits every node", site(m2), "matches must be searched at every node of the in-tree (no abort condition)", "full traversal")
    sa = next((n for n in ast.walk(m2) if isinstance(n, ast.FunctionDef) and n.name == "search_action"), None)
    ok = sa is not None and any(isinstance(n, ast.If) and src(n.test) == "node == qfd_var.n_type" for n in sa.body)
    ctx.check(ok, "E4-domain", f"{EVAL}:matches_for_quantified_formula", "candidate iff label == quantified type", site(m2), "candidates are exactly the nodes labelled with the bound variable's type", "label test")
    # in_path / in_inst resolution
    ok = any(isinstance(n, ast.Assign) and src(n.targets[0]) == "(in_path, in_inst)" and src(n.value) == "assignments[formula.in_variable]" for n in walk_local(f))
    ctx.check(ok, "E4-domain", construct, "in-variable resolved through the assignments", site(f), "the in-variable must be resolved with assignments[formula.in_variable]", "resolved")


def rule_e5(ctx):
    f = ctx.repo.func(EVAL, "evaluate_structural_predicate_formula", "C03.E5")
    rets = [r for r in walk_local(f) if isinstance(r, ast.Return) and src(r.value) != "Nothing"]
    ok = len(rets) == 1 and src(rets[0].value).replace("\n", "").replace(" ", "") == "Some(ThreeValuedTruth.from_bool(formula.predicate.evaluate(reference_tree,*arg_insts)))"
    ctx.check(ok, "E5-atoms", f"{EVAL}:evaluate_structural_predicate_formula", "verdict = predicate.evaluate(reference_tree, *paths)", site(f), f"found {src(rets[0].value)[:90] if rets else None}", "predicate result unnegated")
    ai = [n for n in walk_local(f) if isinstance(n, ast.Assign) and src(n.targets[0]) == "arg_insts"]
    ok = len(ai) == 1 and "assignments[arg][0]" in src(ai[0].value) and "for arg in formula.args" in src(ai[0].value)
    ctx.check(ok, "E5-atoms", f"{EVAL}:evaluate_structural_predicate_formula", "arguments in order, variables -> assigned paths", site(f), "arguments must be instantiated in order with the assigned paths", "paths of the assigned nodes, in order")
    f = ctx.repo.func(EVAL, "evaluate_smt_formula", "C03.E5")
    pt = next((n for n in ast.walk(f) if isinstance(n, ast.FunctionDef) and n.name == "process_translation"), None)
    if pt is None:
        raise Unrecognised("C03.E5", f"{EVAL}:evaluate_smt_formula", "process_translation not found")
    fb = [c for c in calls_in(pt) if call_name(c) == "ThreeValuedTruth.from_bool"]
    ok = len(fb) == 1 and src(fb[0].args[0]).replace("\n", " ") == "translation[1](string_instantiations) if string_instantiations else translation[1]"
    ctx.check(ok, "E5-atoms", f"{EVAL}:evaluate_smt_formula.process_translation", "verdict = evaluated translation", site(pt), f"found {src(fb[0].args[0]) if fb else None}", "fast-path value unnegated")
    ai = [n for n in walk_local(pt) if isinstance(n, ast.Assign) and src(n.targets[0]) == "args_instantiation"]
    ok = len(ai) == 1 and src(ai[0].value) == "[assignments[var_map[arg]][1] for arg in translation[0]]"
    ctx.check(ok, "E5-atoms", f"{EVAL}:evaluate_smt_formula.process_translation", "parameters instantiated in the translation's order", site(pt), f"found {src(ai[0].value) if ai else None}", "same order as translation[0]")
    si = [n for n in walk_local(pt) if isinstance(n, ast.Assign) and src(n.targets[0]) == "string_instantiations"]
    ok = len(si) == 1 and src(si[0].value) == "tuple(map(str, args_instantiation))"
    ctx.check(ok, "E5-atoms", f"{EVAL}:evaluate_smt_formula.process_translation", "trees instantiated by their strings", site(pt), f"found {src(si[0].value) if si else None}", "str(tree)")
    # check(): bool(result) and UnknownResultError
    chk = ctx.repo.func(SOLVER, "ISLaSolver.check", "C03.E5")
    ev = [c for c in calls_in(chk) if call_name(c) == "evaluate"]
    ok = len(ev) == 1 and [src(a) for a in ev[0].args] == ["self.formula", "inp", "self.grammar"]
    ctx.check(ok, "E5-check", f"{SOLVER}:ISLaSolver.check", "check = evaluate(self.formula, inp, self.grammar)", site(chk), "check must evaluate the solver's formula on the given tree with the solver's grammar", "evaluate(self.formula, inp, self.grammar)")
    rets = [r for r in walk_local(chk) if isinstance(r, ast.Return)]
    ok = any(src(r.value) == "bool(result)" for r in rets)
    ctx.check(ok, "E5-check", f"{SOLVER}:ISLaSolver.check", "returns bool(verdict)", site(chk), "the verdict must be returned unnegated", "bool(result)")


def rule_e6(ctx):
    n = check_memo_keys(ctx, "E6-memo-key", [LANG, EVAL, "src/isla/isla_predicates.py", "src/isla/helpers.py"])
    ctx.inventory["memo_sites"] = n
    if n < 2:
        raise Unrecognised("C03.E6", LANG, f"only {n} memo sites recognised (expected BindExpression.to_tree_prefix)")


def rule_e10(ctx, prefix="E10"):
    """BindExpression.__combination_to_tree_prefix: every tree element without a counterpart in the match expression is recorded under its OWN placeholder key in
    match_expr_matches - a placeholder object shared between iterations makes later elements overwrite earlier ones (two empty optional parts -> one entry)."""
    LANG_ = "src/isla/language.py"
    m = ctx.repo.module(LANG_, f"C03.{prefix}")
    f = next((fn for q, fn in m.functions() if q.startswith("BindExpression.") and q.endswith("combination_to_tree_prefix") and isinstance(fn, ast.FunctionDef)), None)
    if f is None:
        raise Unrecognised(f"C03.{prefix}", f"{LANG_}:BindExpression", "__combination_to_tree_prefix not found")
    c = f"{LANG_}:BindExpression.__combination_to_tree_prefix"
    search = next((n for n in ast.walk(f) if isinstance(n, ast.FunctionDef) and n.name == "search"), None)
    if search is None:
        raise Unrecognised(f"C03.{prefix}", c, "inner function search not found")
    stores = [a for a in ast.walk(search) if isinstance(a, ast.Assign) and isinstance(a.targets[0], ast.Subscript) and src(a.targets[0].value) == "match_expr_matches"]
    if not stores:
        raise Unrecognised(f"C03.{prefix}", c, "no store into match_expr_matches found")
    n = 0
    for st in stores:
        key = st.targets[0].slice
        if not isinstance(key, ast.Name):
            continue
        binds = [a for a in ast.walk(search) if isinstance(a, ast.Assign) and src(a.targets[0]) == key.id]
        for b in binds:
            for call in [x for x in ast.walk(b.value) if isinstance(x, ast.Call) and isinstance(x.func, ast.Attribute) and x.func.attr == "value_or" and x.args]:
                n += 1
                d = call.args[0]
                fresh = isinstance(d, ast.Call) and call_name(d) in ("DummyVariable",)
                hoisted = isinstance(d, ast.Name) and not any(isinstance(a, ast.Assign) and src(a.targets[0]) == d.id for a in ast.walk(search))
                if fresh:
                    ctx.ok(f"{prefix}-placeholder-per-element", c, f"default key {src(d)} created per element", site(call), "a new DummyVariable (unique name) for every unmatched element")
                elif hoisted:
                    ctx.viol(f"{prefix}-placeholder-per-element", c, f"default key {src(d)} created per element", site(call),
                             f"the placeholder `{src(d)}` is created once outside the traversal and used as the dictionary key for EVERY unmatched (empty) element: a second empty optional part overwrites the "
                             "first entry, the consolidated matches no longer cover the tree and the solver fails an assertion for match expressions over nonterminals with two empty parts")
                else:
                    raise Unrecognised(f"C03.{prefix}", c, f"default key `{src(d)}` not understood")
    if n == 0:
        raise Unrecognised(f"C03.{prefix}", c, "no `.value_or(<placeholder>)` feeding a match_expr_matches key found")


def run(ctx) -> str:
    ctx.guarded("E10", lambda: rule_e10(ctx))
    ctx.guarded("E6", lambda: rule_e6(ctx))
    ctx.guarded("E1", lambda: rule_e1(ctx))
    ctx.guarded("E2", lambda: rule_e2(ctx))
    ctx.guarded("E3", lambda: rule_e3(ctx))
    ctx.guarded("E4", lambda: rule_e4(ctx))
    ctx.guarded("E5", lambda: rule_e5(ctx))
    from . import c05

    ctx.guarded("E7", lambda: c05.rule_r12(ctx, "E7"))
    from . import c09

    ctx.guarded("E8", lambda: c09.rule_n10(ctx, "E8"))
    from . import c08

    ctx.guarded("E9", lambda: c08.rule_d7(ctx, "E9"))
    from ..generic import check_optional_path_truthiness

    ctx.guarded("E11", lambda: ctx.inventory.__setitem__("find_node_calls", check_optional_path_truthiness(ctx, "E11-root-path-falsy", ["src/isla/language.py", "src/isla/evaluator.py"], min_sources=5)))
    ctx.assume("ThreeValuedTruth.all/any/not_ implement Kleene's strong connectives (three_valued_truth.py)")
    ctx.assume("structural predicates and SMT atoms themselves are decided by C04 / C05")
    return EXPLANATION
