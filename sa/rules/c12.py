"""C12 — Fuzzer expansions and mutations produce valid trees of the same kind (gate-only)."""

from __future__ import annotations

import ast

from ..memo import check_memo_keys
from ..core import Unrecognised, call_name, calls_in, facts, has_fact, parent, site, src, walk_local

FUZZ = "src/isla/fuzzer.py"
MUT = "src/isla/mutator.py"

EXPLANATION = (
    "Weakest level (gate only) for C12 over src/isla/fuzzer.py and src/isla/mutator.py: decided: (F1) GrammarFuzzer.expand_tree returns only after "
    "possible_expansions(tree) == 0 and each phase loop runs while expansions remain; (F2) expand_tree_once rewrites only at a child selected among the "
    "children that still have possible expansions, bottoms out at children is None, and rebuilds ancestors with replace_path (already expanded parts are "
    "kept); a node is expanded with one of its own grammar alternatives (expansions = self.grammar[node.value]); (F3) Mutator.swap_subtrees exchanges only "
    "pairs with equal labels where neither is an ancestor of the other; replace_subtree_randomly re-opens DerivationTree(subtree.value) at the path it "
    "selected and closes it with the fuzzer; generalize_subtree embeds the subtree at a leaf with the same label; mutate returns only what the strategies "
    "produce. NOT decided: validity of random expansions for every grammar (data dependent), label agreement inside path_to_tree."
)


def rule_f1(ctx):
    f = ctx.repo.func(FUZZ, "GrammarFuzzer.expand_tree", "C12.F1")
    c = f"{FUZZ}:GrammarFuzzer.expand_tree"
    rets = [r for r in walk_local(f) if isinstance(r, ast.Return)]
    ok = len(rets) == 1 and src(rets[0].value) == "tree" and has_fact(facts(rets[0]), "self.possible_expansions(tree) == 0")
    ctx.check(ok, "F1-closed-result", c, "returns only after possible_expansions(tree) == 0", site(f), "expand_tree may return a tree with unexpanded nonterminals", "dominated by the assertion")
    phases = [src(x.args[1]) for x in calls_in(f) if call_name(x) == "self.expand_tree_with_strategy"]
    ok = len(phases) == 3 and phases[-1] == "self.expand_node_min_cost" and len([x for x in calls_in(f) if call_name(x) == "self.expand_tree_with_strategy" and len(x.args) == 2]) >= 1
    ctx.check(ok, "F1-closed-result", c, "last phase is unbounded (closes the tree)", site(f), f"phases {phases}", "final phase without limit")
    g = ctx.repo.func(FUZZ, "GrammarFuzzer.expand_tree_with_strategy", "C12.F1")
    loops = [n for n in walk_local(g) if isinstance(n, ast.While)]
    ok = len(loops) == 1 and src(loops[0].test).replace("\n", " ") == "(limit is None or self.possible_expansions(tree) < limit) and self.any_possible_expansions(tree)"
    ctx.check(ok, "F1-closed-result", f"{FUZZ}:GrammarFuzzer.expand_tree_with_strategy", "loop while expansions remain (and below the limit)", site(g), f"loop test {src(loops[0].test) if loops else None}", "runs until closed when limit is None")
    ok = any(isinstance(n, ast.Assign) and src(n.targets[0]) == "tree" and src(n.value) == "self.expand_tree_once(tree)" for n in walk_local(g))
    ctx.check(ok, "F1-closed-result", f"{FUZZ}:GrammarFuzzer.expand_tree_with_strategy", "progress by expand_tree_once", site(g), "loop body must expand the tree", "expands")


def rule_f2(ctx):
    f = ctx.repo.func(FUZZ, "GrammarFuzzer.expand_tree_once", "C12.F2")
    c = f"{FUZZ}:GrammarFuzzer.expand_tree_once"
    first = [n for n in f.body if isinstance(n, ast.If)]
    ok = bool(first) and src(first[0].test) == "tree.children is None" and any(isinstance(s, ast.Return) and src(s.value) == "self.expand_node(tree)" for s in first[0].body)
    ctx.check(ok, "F2-expansion-site", c, "only unexpanded nodes are expanded", site(f), "expand_node must be applied under `tree.children is None` only", "bottoms out at open leaves")
    ec = [n for n in walk_local(f) if isinstance(n, ast.Assign) and src(n.targets[0]) == "expandable_children"]
    ok = len(ec) == 1 and src(ec[0].value) == "[c for c in tree.children if self.any_possible_expansions(c)]"
    ctx.check(ok, "F2-expansion-site", c, "candidates = children with possible expansions", site(f), f"found {src(ec[0].value) if ec else None}", "only children that can still be expanded")
    rets = [r for r in walk_local(f) if isinstance(r, ast.Return) and isinstance(r.value, ast.Call) and call_name(r.value) == "tree.replace_path"]
    ok = len(rets) == 1 and src(rets[0].value.args[0]) == "(index_map[child_to_be_expanded],)" and src(rets[0].value.args[1]) == "self.expand_tree_once(expandable_children[child_to_be_expanded])"
    ctx.check(ok, "F2-expansion-site", c, "chosen child replaced in place, siblings kept", site(f), "the result must be tree.replace_path((index of chosen child,), expanded child)", "replace_path at the chosen index")
    im = [n for n in walk_local(f) if isinstance(n, ast.Assign) and src(n.targets[0]) == "index_map"]
    ok = len(im) == 1 and src(im[0].value) == "[i for i, c in enumerate(tree.children) if c in expandable_children]"
    ctx.check(ok, "F2-expansion-site", c, "index map back to the original children", site(f), f"found {src(im[0].value) if im else None}", "indices of the expandable children")
    for meth in ("expand_node_randomly", "expand_node_by_cost"):
        g = ctx.repo.func(FUZZ, f"GrammarFuzzer.{meth}", "C12.F2")
        t = src(g)
        ok = ("self.grammar[node.value]" in t or "self.grammar[symbol]" in t or "self.grammar[node.value]" in t)
        ctx.check(ok, "F2-own-alternatives", f"{FUZZ}:GrammarFuzzer.{meth}", "alternatives of the node's own nonterminal", site(g), "children must be built from self.grammar[<node label>]", "own alternatives")
        mk = [x for x in calls_in(g) if call_name(x) == "DerivationTree"]
        ok = any(src(x.args[0]) in ("node.value", "symbol") and len(x.args) == 2 for x in mk)
        ctx.check(ok, "F2-own-alternatives", f"{FUZZ}:GrammarFuzzer.{meth}", "node keeps its label", site(g), "the expanded node must keep its label", "same label")


def rule_f3(ctx):
    f = ctx.repo.func(MUT, "Mutator.swap_subtrees", "C12.F3")
    c = f"{MUT}:Mutator.swap_subtrees"
    comps = [n for n in ast.walk(f) if isinstance(n, ast.ListComp)]
    conds = [src(i).replace("\n", " ") for n in comps for g in n.generators for i in g.ifs]
    joined = " ".join(conds)
    ctx.check("tree_1.value == tree_2.value" in joined, "F3-mutation-kind", c, "swap only subtrees with equal labels", site(f), f"swap conditions: {conds}", "equal labels")
    ctx.check("not parent_or_child(path_1, path_2)" in joined, "F3-mutation-kind", c, "neither subtree contains the other", site(f), f"swap conditions: {conds}", "disjoint subtrees")
    pr = next((n for n in ast.walk(f) if isinstance(n, ast.FunctionDef) and n.name == "process"), None)
    ok = pr is not None and any(isinstance(r, ast.Return) and src(r.value) == "inp.replace_path(path_1, tree_2).replace_path(path_2, tree_1)" for r in ast.walk(pr))
    ctx.check(ok, "F3-mutation-kind", c, "exchange at the two paths", site(f), "swap must put tree_2 at path_1 and tree_1 at path_2", "exchanged")
    g = ctx.repo.func(MUT, "Mutator.replace_subtree_randomly", "C12.F3")
    c2 = f"{MUT}:Mutator.replace_subtree_randomly"
    rets = [r for r in walk_local(g) if isinstance(r, ast.Return)]
    ok = len(rets) == 1 and src(rets[0].value).replace("\n", "").replace(" ", "") == "Some(self.fuzzer.expand_tree(inp.replace_path(path,DerivationTree(subtree.value))))"
    ctx.check(ok, "F3-mutation-kind", c2, "re-open the selected node with its own label and close with the fuzzer", site(g), f"found {src(rets[0].value)[:100] if rets else None}", "same label, closed by the fuzzer")
    sel = [n for n in walk_local(g) if isinstance(n, ast.Assign) and src(n.targets[0]) == "(path, subtree)"]
    ok = len(sel) == 1 and "candidate_paths" in src(sel[0].value)
    ctx.check(ok, "F3-mutation-kind", c2, "(path, subtree) selected together", site(g), "path and subtree must come from the same candidate", "same candidate")
    h = ctx.repo.func(MUT, "Mutator.generalize_subtree", "C12.F3")
    c3 = f"{MUT}:Mutator.generalize_subtree"
    ml = [n for n in walk_local(h) if isinstance(n, ast.Assign) and src(n.targets[0]) == "matching_leaf"]
    ok = len(ml) == 1 and "t.value == tree.value" in src(ml[0].value)
    ctx.check(ok, "F3-mutation-kind", c3, "subtree embedded at a leaf with its own label", site(h), f"found {src(ml[0].value)[:80] if ml else None}", "label agreement at the embedding leaf")
    rets = [r for r in walk_local(h) if isinstance(r, ast.Return) and isinstance(r.value, ast.Call) and call_name(r.value) == "Some"]
    ok = len(rets) == 1 and src(rets[0].value).replace("\n", "").replace(" ", "") == "Some(self.fuzzer.expand_tree(inp.replace_path(path,self_embedding_tree.replace_path(matching_leaf,tree))))"
    ctx.check(ok, "F3-mutation-kind", c3, "embedding replaces the selected path and is closed by the fuzzer", site(h), "shape of the generalisation changed", "closed by the fuzzer")
    m = ctx.repo.func(MUT, "Mutator.mutate", "C12.F3")
    rets = [r for r in walk_local(m) if isinstance(r, ast.Return)]
    ok = len(rets) == 1 and src(rets[0].value) == "inp"
    ctx.check(ok, "F3-mutation-kind", f"{MUT}:Mutator.mutate", "returns the (repeatedly) mutated input", site(m), "mutate must return the tree produced by its strategies", "returns inp")


def rule_f5(ctx):
    """Asserted invariants on the completion path must hold for every configuration: 'all grammar symbols were seen' is only true for a traversal from `<start>`
    (the grammar dictionary keeps `<start>` even when the fuzzer starts elsewhere)."""
    f = ctx.repo.func(FUZZ, "GrammarCoverageFuzzer.max_expansion_coverage", "C12.F5")
    c = f"{FUZZ}:GrammarCoverageFuzzer.max_expansion_coverage"
    asserts = [a for a in walk_local(f) if isinstance(a, ast.Assert) and "len(self.grammar)" in src(a.test)]
    if not asserts:
        ctx.ok("F5-coverage-assertion", c, "no whole-grammar assertion", site(f), "nothing asserted about all grammar symbols")
        return
    for a in asserts:
        fs = facts(a)
        if has_fact(fs, "symbol == '<start>'"):
            ctx.ok("F5-coverage-assertion", c, "whole-grammar assertion only for a traversal from <start>", site(a), "symbol == '<start>'")
        elif has_fact(fs, "symbol == self.start_symbol") or not fs:
            ctx.viol("F5-coverage-assertion", c, "whole-grammar assertion only for a traversal from <start>", site(a),
                     "the assertion `every grammar symbol was seen` now also runs for a fuzzer whose start symbol is not <start>: the grammar still contains <start> (unreachable from that symbol), "
                     "so GrammarCoverageFuzzer(g, start_symbol='<stmt>').expand_tree(...) raises AssertionError instead of returning a closed tree")
        else:
            raise Unrecognised("C12.F5", c, f"guard of the coverage assertion not understood: {[x.text for x in fs]}")


def rule_f6(ctx):
    """replace_subtree_randomly draws the node to re-generate with random.choices: the weights must have a positive sum for every input, i.e. each weight is
    1 + (number of candidates) - (size of a sub-list of the candidates) >= 1."""
    g = ctx.repo.func(MUT, "Mutator.replace_subtree_randomly", "C12.F6")
    c = f"{MUT}:Mutator.replace_subtree_randomly"
    ch = [x for x in calls_in(g) if call_name(x) == "random.choices"]
    if len(ch) != 1:
        raise Unrecognised("C12.F6", c, "random.choices call not found")
    w = next((k.value for k in ch[0].keywords if k.arg == "weights"), None)
    if w is None:
        ctx.ok("F6-positive-weights", c, "uniform choice", site(ch[0]), "no weights")
        return
    if not isinstance(w, ast.ListComp):
        raise Unrecognised("C12.F6", c, "weights are not a list comprehension")

    def terms(e, sign=1):
        if isinstance(e, ast.BinOp) and isinstance(e.op, ast.Add):
            return terms(e.left, sign) + terms(e.right, sign)
        if isinstance(e, ast.BinOp) and isinstance(e.op, ast.Sub):
            return terms(e.left, sign) + terms(e.right, -sign)
        return [(sign, e)]

    ts = terms(w.elt)
    const = sum(s_ * t.value for s_, t in ts if isinstance(t, ast.Constant) and isinstance(t.value, int))
    pos_n = [t for s_, t in ts if s_ > 0 and src(t) == "num_candidate_paths"]
    negs = [t for s_, t in ts if s_ < 0]
    bounded = all(isinstance(t, ast.Call) and call_name(t) == "len" and isinstance(t.args[0], (ast.ListComp, ast.GeneratorExp)) and src(t.args[0].generators[0].iter) == "candidate_paths" and len(t.args[0].generators) == 1 for t in negs)
    nc = [a for a in walk_local(g) if isinstance(a, ast.Assign) and src(a.targets[0]) == "num_candidate_paths" and src(a.value) == "len(candidate_paths)"]
    if len(pos_n) == 1 and len(negs) == 1 and nc:
        if bounded and const >= 1:
            ctx.ok("F6-positive-weights", c, "every weight >= 1", site(w), "1 + N - len(sub-list of the N candidates)")
        elif const < 1:
            ctx.viol("F6-positive-weights", c, "every weight >= 1", site(w),
                     f"the weight `{' '.join(src(w.elt).split())[:70]}` has no positive constant part: for an input with a single candidate node (e.g. <start> -> \"\") all weights are 0 and "
                     "random.choices raises ValueError('Total of weights must be greater than zero') - no mutant is produced")
        else:
            raise Unrecognised("C12.F6", c, "the subtracted count is not the size of a sub-list of the candidates: positivity cannot be established")
    else:
        raise Unrecognised("C12.F6", c, f"weight expression `{src(w.elt)[:70]}` not understood")


def run(ctx) -> str:
    ctx.guarded("F5", lambda: rule_f5(ctx))
    ctx.guarded("F6", lambda: rule_f6(ctx))
    ctx.guarded("F1", lambda: rule_f1(ctx))
    ctx.guarded("F2", lambda: rule_f2(ctx))
    ctx.guarded("F3", lambda: rule_f3(ctx))
    ctx.guarded("F4", lambda: ctx.inventory.__setitem__("memo_sites", check_memo_keys(ctx, "F4-memo-key", [MUT, FUZZ])))
    # the helpers the mutator and the fuzzers build their trees with: connecting trees (generalize_subtree -> path_to_tree), the canonical grammar, symbol classification
    ctx.guarded("F7", lambda: ctx.inventory.__setitem__("helper_memo_sites", check_memo_keys(ctx, "F7-helper-memo-key", ["src/isla/existential_helpers.py", "src/isla/helpers.py"], min_sites=0)))
    from . import c11

    ctx.guarded("F8", lambda: c11.rule_b7(ctx))
    ctx.assume("asserts enabled; DerivationTree.replace_path changes only the addressed subtree (C16)")
    return EXPLANATION
