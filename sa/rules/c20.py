"""C20 — Library semantic predicates decide their documented relation (octal/decimal clause)."""

from __future__ import annotations

import ast
import re as _re
from typing import Dict, Optional

from ..core import Unrecognised, call_name, calls_in, dotted, module_of, qual, site, src, walk_local, assignments_to, parent
from ..dispatch import check_flow_arity, find_flow_tables, resolve_handler

PRED = "src/isla/isla_predicates.py"

EXPLANATION = (
    "Static necessary conditions for C20 over the octal_to_decimal predicate family in src/isla/isla_predicates.py: decided: "
    "(J1) radix-tag (dimension) analysis: strings of the `octal` argument are only read in base 8 (int(s, 8) or the positional 8**idx loop), "
    "strings of the `decimal` argument only in base 10, oct() is only applied to numbers read from the decimal side, and compared numbers are "
    "both plain integers; (A1) the three handlers of the octal_to_dec dispatch table accept the four arguments they are dispatched with and "
    "their guards cover tree/variable argument kinds; (J2) proposed replacement trees are parsed with the parser of the *other* radix. "
    "NOT decided: numeric meaning of count / crop / just predicates (runtime values; see C14 for their gates)."
)

# tags
OCT, DEC, NUM, OCTNUMTEXT = "OCTSTR", "DECSTR", "NUM", "OCTTEXT-AS-NUM"


def tag_expr(e: ast.expr, env: Dict[str, str], problems: list) -> Optional[str]:
    """Abstract value of an expression in the radix domain."""
    if isinstance(e, ast.Name):
        return env.get(e.id)
    if isinstance(e, ast.Call):
        fn = call_name(e)
        if fn == "str" and len(e.args) == 1:
            t = tag_expr(e.args[0], env, problems)
            if t in ("OCTARG", "DECARG"):
                return OCT if t == "OCTARG" else DEC
            if t == NUM:
                return DEC
            return t
        if fn == "int" and e.args:
            t = tag_expr(e.args[0], env, problems)
            base = 10
            if len(e.args) > 1 and isinstance(e.args[1], ast.Constant):
                base = e.args[1].value
            for k in e.keywords:
                if k.arg == "base" and isinstance(k.value, ast.Constant):
                    base = k.value.value
            if t == OCT:
                if base != 8:
                    problems.append((e, f"octal digits are read with int(..., base {base}): '17' becomes {int('17', base) if base in (10, 16) else '?'} instead of 15"))
                    return OCTNUMTEXT
                return NUM
            if t == DEC:
                if base != 10:
                    problems.append((e, f"decimal digits are read with base {base}"))
                return NUM
            if t == "OCTDIGIT":
                return "OCTDIGITVAL"
            return t
        if fn == "oct" and len(e.args) == 1:
            t = tag_expr(e.args[0], env, problems)
            if t == OCTNUMTEXT:
                problems.append((e, "oct() is applied to a value that came from the octal argument (conversion in the wrong direction)"))
                return "OCTPREFIXED"
            if t == NUM:
                return "OCTPREFIXED"
            return None
        if fn in ("reversed", "enumerate") and e.args:
            return tag_expr(e.args[0], env, problems)
        return None
    if isinstance(e, ast.Subscript):
        t = tag_expr(e.value, env, problems)
        if t == "OCTPREFIXED" and isinstance(e.slice, ast.Slice) and src(e.slice) == "2:":
            return OCT
        return None
    if isinstance(e, ast.BinOp):
        l, r = tag_expr(e.left, env, problems), tag_expr(e.right, env, problems)
        if isinstance(e.op, ast.Mult) and "OCTDIGITVAL" in (l, r):
            other = e.left if r == "OCTDIGITVAL" else e.right
            if _re.fullmatch(r"\(?8 ?\*\* ?\w+\)?", src(other)):
                return "OCTPOSVAL"
            problems.append((e, f"positional value of an octal digit must be 8**idx * digit, found {src(e)}"))
            return None
        return None
    return None


def analyse(fn: ast.FunctionDef, ctx, rule: str):
    params = [a.arg for a in fn.args.args]
    env: Dict[str, str] = {}
    if len(params) >= 2:
        env[params[0]] = "OCTARG"
        env[params[1]] = "DECARG"
    problems = []
    facts_out = []
    construct = f"{PRED}:{fn.name}"
    for st in walk_local(fn):
        if isinstance(st, ast.Assign) and len(st.targets) == 1 and isinstance(st.targets[0], ast.Name):
            env[st.targets[0].id] = tag_expr(st.value, env, problems)
            if isinstance(st.value, ast.Constant) and st.value.value == 0:
                env[st.targets[0].id] = "ACC0"
        elif isinstance(st, ast.For):
            t = tag_expr(st.iter, env, problems)
            if t == OCT and isinstance(st.target, ast.Tuple) and len(st.target.elts) == 2:
                env[st.target.elts[1].id] = "OCTDIGIT"
                env[st.target.elts[0].id] = "IDX"
                if "reversed(" not in src(st.iter):
                    problems.append((st, "positional octal conversion must iterate over the reversed digit string"))
        elif isinstance(st, ast.AugAssign) and isinstance(st.target, ast.Name) and isinstance(st.op, ast.Add):
            t = tag_expr(st.value, env, problems)
            if t == "OCTPOSVAL" and env.get(st.target.id) in ("ACC0", NUM):
                env[st.target.id] = NUM
        elif isinstance(st, ast.Compare) and len(st.ops) == 1 and isinstance(st.ops[0], ast.Eq):
            l = tag_expr(st.left, env, problems)
            r = tag_expr(st.comparators[0], env, problems)
            if l is not None or r is not None:
                facts_out.append((st, l, r))
    return env, problems, facts_out


def rule_j(ctx):
    m = ctx.repo.module(PRED, "C20.J1")
    fns = [f for q, f in m.functions() if q.startswith("octal_to_dec_") and "." not in q]
    if len(fns) < 3:
        raise Unrecognised("C20.J1", f"{PRED}:octal_to_dec_*", f"only {len(fns)} handlers found (expected 3)")
    n_conv = 0
    for fn in fns:
        env, problems, cmps = analyse(fn, ctx, "J1")
        construct = f"{PRED}:{fn.name}"
        for node, why in problems:
            ctx.viol("J1-radix", construct, src(node)[:80], site(node), why)
        # every int()/oct() conversion is an obligation
        for c in calls_in(fn, include_nested=False):
            if call_name(c) in ("int", "oct") and not any(c is p[0] for p in problems):
                ctx.ok("J1-radix", construct, src(c)[:80], site(c), "conversion respects the radix of its source")
                n_conv += 1
        for node, l, r in cmps:
            ok = l == NUM and r == NUM
            ctx.check(ok, "J1-radix", construct, f"compare {src(node)[:80]}", site(node),
                      f"the verdict compares values of kinds {l} and {r}; both sides must be plain integers obtained with the right base",
                      "both sides are integers read in their own radix")
        # J2: replacement trees use the parser of the target radix
        params = [a.arg for a in fn.args.args]
        for c in calls_in(fn, include_nested=False):
            if isinstance(c.func, ast.Name) and c.func.id in params[2:] and c.args:
                pname = c.func.id
                t = tag_expr(c.args[0], env, [])
                want = {"decimal_parser": DEC, "octal_parser": OCT}.get(pname)
                if want is None:
                    continue
                ctx.check(t == want, "J2-replacement", construct, src(c)[:80], site(c),
                          f"{pname} is fed a value of kind {t}; the proposed replacement would not denote the same number", f"{pname} receives {want}")
                # and binds the right key
                d = parent(c)
                if isinstance(d, ast.Dict):
                    key = src(d.keys[0])
                    wantkey = params[1] if pname == "decimal_parser" else params[0]
                    ctx.check(key == wantkey, "J2-replacement", construct, f"binds {key}", site(c),
                              f"result of {pname} must replace `{wantkey}`, found `{key}`", "replacement bound to the matching argument")
    if n_conv < 4:
        raise Unrecognised("C20.J1", f"{PRED}:octal_to_dec_*", f"only {n_conv} conversions classified (expected >= 4)")


def rule_a(ctx):
    fn = ctx.repo.func(PRED, "octal_to_dec", "C20.A1")
    tables = check_flow_arity(ctx, "A1-arity", fn, min_handlers=3, raising_is_note=False)
    t = tables[0]
    names = [src(h) for h in t.handlers]
    ctx.check(set(names) >= {"octal_to_dec_concrete_octal", "octal_to_dec_concrete_decimal", "octal_to_dec_both_trees"}, "A1-coverage",
              f"{PRED}:octal_to_dec", "three argument-kind cases", site(t.call),
              f"dispatch table {names} lacks one of the (tree, variable) / (variable, tree) / (tree, tree) handlers", "all three argument-kind cases present")
    # argument order of the dispatch call matches the handlers' parameter roles
    args = [src(a) for a in t.arg_exprs]
    ctx.check(args[:2] == ["octal", "decimal"], "A1-arg-order", f"{PRED}:octal_to_dec", "handlers called with (octal, decimal, ...)", site(t.call),
              f"handlers take (octal, decimal, octal_parser, decimal_parser) but are dispatched with {args}", "argument order matches parameter roles")
    ctx.check(args[2:] == ["octal_parser", "decimal_parser"], "A1-arg-order", f"{PRED}:octal_to_dec", "parsers in order", site(t.call),
              f"handlers take (.., octal_parser, decimal_parser) but are dispatched with {args}", "parser order matches parameter roles")
    # nested parser wrappers use the matching raw parser
    for n in ast.walk(fn):
        if isinstance(n, ast.FunctionDef) and n.name in ("decimal_parser", "octal_parser"):
            used = {c.func.id for c in calls_in(n) if isinstance(c.func, ast.Name)}
            want = "_" + n.name
            ctx.check(want in used, "A1-arg-order", f"{PRED}:octal_to_dec.{n.name}", f"wraps {want}", site(n),
                      f"{n.name} must wrap {want}, it calls {sorted(used)}", "wraps the matching parser")


def run(ctx) -> str:
    ctx.guarded("J", lambda: rule_j(ctx))
    ctx.guarded("A", lambda: rule_a(ctx))
    ctx.assume("parameter names `octal` / `decimal` of the octal_to_dec_* family are the documented argument roles")
    return EXPLANATION
