"""C20 — Library semantic predicates decide their documented relation (octal/decimal clause)."""

from __future__ import annotations

import ast
import re as _re
from typing import Dict, Optional

from ..core import facts, has_fact, Unrecognised, call_name, calls_in, dotted, module_of, qual, site, src, walk_local, assignments_to, parent
from ..dispatch import check_flow_arity, find_flow_tables, resolve_handler

PRED = "src/isla/isla_predicates.py"

EXPLANATION = (
    "Static necessary conditions for C20 over the octal_to_decimal predicate family in src/isla/isla_predicates.py: decided: "
    "(J1) radix-tag (dimension) analysis: strings of the `octal` argument are only read in base 8 (int(s, 8) or the positional 8**idx loop), "
    "strings of the `decimal` argument only in base 10, oct() is only applied to numbers read from the decimal side, and compared numbers are "
    "both plain integers; (A1) the three handlers of the octal_to_dec dispatch table accept the four arguments they are dispatched with and "
    "their guards cover tree/variable argument kinds; (J2) proposed replacement trees are parsed with the parser of the *other* radix. "
    "(J3) crop / ljust / rjust: the replacement text is unparsed[:width] (crop), str.ljust/str.rjust to width cropped at the matching end; no slice s[-n:] with a variable n not known to be non-zero "
    "(it is the whole string for n == 0); verdict True exactly under len == width (just) / len <= width (crop); an unbound width gets str(len(text)). "
    "NOT decided: numeric meaning of count (see C14 for its gates)."
)

# tags
OCT, DEC, NUM, OCTNUMTEXT = "OCTSTR", "DECSTR", "NUM", "OCTTEXT-AS-NUM"


def tag_expr(e: ast.expr, env: Dict[str, str], problems: list) -> Optional[str]:
    """Abstract value of an expression in the radix domain."""
    if isinstance(e, ast.Name):
        return env.get(e.id)
    if isinstance(e, ast.Call):
        fn = call_name(e)
        if fn == "str" and len(e.args) == 1:
            t = tag_expr(e.args[0], env, problems)
            if t in ("OCTARG", "DECARG"):
                return OCT if t == "OCTARG" else DEC
            if t == NUM:
                return DEC
            return t
        if fn == "int" and e.args:
            t = tag_expr(e.args[0], env, problems)
            base = 10
            if len(e.args) > 1 and isinstance(e.args[1], ast.Constant):
                base = e.args[1].value
            for k in e.keywords:
                if k.arg == "base" and isinstance(k.value, ast.Constant):
                    base = k.value.value
            if t == OCT:
                if base != 8:
                    problems.append((e, f"octal digits are read with int(..., base {base}): '17' becomes {int('17', base) if base in (10, 16) else '?'} instead of 15"))
                    return OCTNUMTEXT
                return NUM
            if t == DEC:
                if base != 10:
                    problems.append((e, f"decimal digits are read with base {base}"))
                return NUM
            if t == "OCTDIGIT":
                return "OCTDIGITVAL"
            return t
        if fn == "oct" and len(e.args) == 1:
            t = tag_expr(e.args[0], env, problems)
            if t == OCTNUMTEXT:
                problems.append((e, "oct() is applied to a value that came from the octal argument (conversion in the wrong direction)"))
                return "OCTPREFIXED"
            if t == NUM:
                return "OCTPREFIXED"
            return None
        if fn in ("reversed", "enumerate") and e.args:
            return tag_expr(e.args[0], env, problems)
        return None
    if isinstance(e, ast.Subscript):
        t = tag_expr(e.value, env, problems)
        if t == "OCTPREFIXED" and isinstance(e.slice, ast.Slice) and src(e.slice) == "2:":
            return OCT
        return None
    if isinstance(e, ast.BinOp):
        l, r = tag_expr(e.left, env, problems), tag_expr(e.right, env, problems)
        if isinstance(e.op, ast.Mult) and "OCTDIGITVAL" in (l, r):
            other = e.left if r == "OCTDIGITVAL" else e.right
            if _re.fullmatch(r"\(?8 ?\*\* ?\w+\)?", src(other)):
                return "OCTPOSVAL"
            problems.append((e, f"positional value of an octal digit must be 8**idx * digit, found {src(e)}"))
            return None
        return None
    return None


def analyse(fn: ast.FunctionDef, ctx, rule: str):
    params = [a.arg for a in fn.args.args]
    env: Dict[str, str] = {}
    if len(params) >= 2:
        env[params[0]] = "OCTARG"
        env[params[1]] = "DECARG"
    problems = []
    facts_out = []
    construct = f"{PRED}:{fn.name}"
    for st in walk_local(fn):
        if isinstance(st, ast.Assign) and len(st.targets) == 1 and isinstance(st.targets[0], ast.Name):
            env[st.targets[0].id] = tag_expr(st.value, env, problems)
            if isinstance(st.value, ast.Constant) and st.value.value == 0:
                env[st.targets[0].id] = "ACC0"
        elif isinstance(st, ast.For):
            t = tag_expr(st.iter, env, problems)
            if t == OCT and isinstance(st.target, ast.Tuple) and len(st.target.elts) == 2:
                env[st.target.elts[1].id] = "OCTDIGIT"
                env[st.target.elts[0].id] = "IDX"
                if "reversed(" not in src(st.iter):
                    problems.append((st, "positional octal conversion must iterate over the reversed digit string"))
        elif isinstance(st, ast.AugAssign) and isinstance(st.target, ast.Name) and isinstance(st.op, ast.Add):
            t = tag_expr(st.value, env, problems)
            if t == "OCTPOSVAL" and env.get(st.target.id) in ("ACC0", NUM):
                env[st.target.id] = NUM
        elif isinstance(st, ast.Compare) and len(st.ops) == 1 and isinstance(st.ops[0], ast.Eq):
            l = tag_expr(st.left, env, problems)
            r = tag_expr(st.comparators[0], env, problems)
            if l is not None or r is not None:
                facts_out.append((st, l, r))
    return env, problems, facts_out


def rule_j(ctx):
    m = ctx.repo.module(PRED, "C20.J1")
    fns = [f for q, f in m.functions() if q.startswith("octal_to_dec_") and "." not in q]
    if len(fns) < 3:
        raise Unrecognised("C20.J1", f"{PRED}:octal_to_dec_*", f"only {len(fns)} handlers found (expected 3)")
    n_conv = 0
    for fn in fns:
        env, problems, cmps = analyse(fn, ctx, "J1")
        construct = f"{PRED}:{fn.name}"
        for node, why in problems:
            ctx.viol("J1-radix", construct, src(node)[:80], site(node), why)
        # every int()/oct() conversion is an obligation
        for c in calls_in(fn, include_nested=False):
            if call_name(c) in ("int", "oct") and not any(c is p[0] for p in problems):
                ctx.ok("J1-radix", construct, src(c)[:80], site(c), "conversion respects the radix of its source")
                n_conv += 1
        for node, l, r in cmps:
            ok = l == NUM and r == NUM
            ctx.check(ok, "J1-radix", construct, f"compare {src(node)[:80]}", site(node),
                      f"the verdict compares values of kinds {l} and {r}; both sides must be plain integers obtained with the right base",
                      "both sides are integers read in their own radix")
        # J2: replacement trees use the parser of the target radix
        params = [a.arg for a in fn.args.args]
        for c in calls_in(fn, include_nested=False):
            if isinstance(c.func, ast.Name) and c.func.id in params[2:] and c.args:
                pname = c.func.id
                t = tag_expr(c.args[0], env, [])
                want = {"decimal_parser": DEC, "octal_parser": OCT}.get(pname)
                if want is None:
                    continue
                ctx.check(t == want, "J2-replacement", construct, src(c)[:80], site(c),
                          f"{pname} is fed a value of kind {t}; the proposed replacement would not denote the same number", f"{pname} receives {want}")
                # and binds the right key
                d = parent(c)
                if isinstance(d, ast.Dict):
                    key = src(d.keys[0])
                    wantkey = params[1] if pname == "decimal_parser" else params[0]
                    ctx.check(key == wantkey, "J2-replacement", construct, f"binds {key}", site(c),
                              f"result of {pname} must replace `{wantkey}`, found `{key}`", "replacement bound to the matching argument")
    if n_conv < 4:
        raise Unrecognised("C20.J1", f"{PRED}:octal_to_dec_*", f"only {n_conv} conversions classified (expected >= 4)")


def rule_a(ctx):
    fn = ctx.repo.func(PRED, "octal_to_dec", "C20.A1")
    tables = check_flow_arity(ctx, "A1-arity", fn, min_handlers=3, raising_is_note=False)
    t = tables[0]
    names = [src(h) for h in t.handlers]
    ctx.check(set(names) >= {"octal_to_dec_concrete_octal", "octal_to_dec_concrete_decimal", "octal_to_dec_both_trees"}, "A1-coverage",
              f"{PRED}:octal_to_dec", "three argument-kind cases", site(t.call),
              f"dispatch table {names} lacks one of the (tree, variable) / (variable, tree) / (tree, tree) handlers", "all three argument-kind cases present")
    # argument order of the dispatch call matches the handlers' parameter roles
    args = [src(a) for a in t.arg_exprs]
    ctx.check(args[:2] == ["octal", "decimal"], "A1-arg-order", f"{PRED}:octal_to_dec", "handlers called with (octal, decimal, ...)", site(t.call),
              f"handlers take (octal, decimal, octal_parser, decimal_parser) but are dispatched with {args}", "argument order matches parameter roles")
    ctx.check(args[2:] == ["octal_parser", "decimal_parser"], "A1-arg-order", f"{PRED}:octal_to_dec", "parsers in order", site(t.call),
              f"handlers take (.., octal_parser, decimal_parser) but are dispatched with {args}", "parser order matches parameter roles")
    # nested parser wrappers use the matching raw parser
    for n in ast.walk(fn):
        if isinstance(n, ast.FunctionDef) and n.name in ("decimal_parser", "octal_parser"):
            used = {c.func.id for c in calls_in(n) if isinstance(c.func, ast.Name)}
            want = "_" + n.name
            ctx.check(want in used, "A1-arg-order", f"{PRED}:octal_to_dec.{n.name}", f"wraps {want}", site(n),
                      f"{n.name} must wrap {want}, it calls {sorted(used)}", "wraps the matching parser")


def _slice_kind(sub: ast.Subscript, width: str = "width"):
    """('prefix'|'suffix'|'suffix-neg', text) for x[:W], x[len(x) - W:], x[-W:]; None for other subscripts."""
    sl = sub.slice
    if not isinstance(sl, ast.Slice) or sl.step is not None:
        return None
    base = src(sub.value)
    if sl.lower is None and sl.upper is not None and src(sl.upper) == width:
        return "prefix"
    if sl.upper is None and sl.lower is not None:
        lo = sl.lower
        if isinstance(lo, ast.BinOp) and isinstance(lo.op, ast.Sub) and src(lo.left) == f"len({base})" and src(lo.right) == width:
            return "suffix"
        if isinstance(lo, ast.UnaryOp) and isinstance(lo.op, ast.USub) and src(lo.operand) == width:
            return "suffix-neg"
    return "other"


def _too_wide_excluded(fs):
    """Over the atoms C = `crop`, G = `len(unparsed) > width`, E = `len(unparsed) == width` (E excludes G): is (not C and G) inconsistent with the known facts?
    Returns (excluded, texts of the facts that were understood)."""
    import itertools

    def ev(e, env):
        if isinstance(e, ast.Name) and e.id == "crop":
            return env["C"]
        if isinstance(e, ast.UnaryOp) and isinstance(e.op, ast.Not):
            return not ev(e.operand, env)
        if isinstance(e, ast.BoolOp):
            vals = [ev(v, env) for v in e.values]
            return all(vals) if isinstance(e.op, ast.And) else any(vals)
        if isinstance(e, ast.Compare) and len(e.ops) == 1:
            l, r, op = src(e.left), src(e.comparators[0]), type(e.ops[0])
            if (l, r) == ("width", "len(unparsed)"):
                l, r = r, l
                op = {ast.Lt: ast.Gt, ast.Gt: ast.Lt, ast.LtE: ast.GtE, ast.GtE: ast.LtE}.get(op, op)
            if (l, r) == ("len(unparsed)", "width"):
                return {ast.Gt: env["G"], ast.LtE: not env["G"], ast.Eq: env["E"], ast.NotEq: not env["E"], ast.GtE: env["G"] or env["E"], ast.Lt: not env["G"] and not env["E"]}[op]
        raise KeyError(src(e))

    understood = []
    for f_ in fs:
        try:
            node = ast.parse(f_.text, mode="eval").body
            ev(node, {"C": True, "G": False, "E": False})
            understood.append((node, f_.positive, str(f_)))
        except (KeyError, SyntaxError):
            continue
    for C, G, E in itertools.product([False, True], repeat=3):
        if G and E:
            continue
        env = {"C": C, "G": G, "E": E}
        if all(ev(n, env) == pos for n, pos, _ in understood) and not C and G:
            return False, [t for _, _, t in understood]
    return True, [t for _, _, t in understood]


def rule_j3(ctx):
    """crop / ljust / rjust: the text that is parsed for the replacement has exactly the requested width (and is the right end of the padded text)."""
    m = ctx.repo.module(PRED, "C20.J3")
    # generic: s[-n:] with a variable n is the WHOLE string for n == 0
    n_neg = 0
    for q, fn in m.functions():
        for sub in [x for x in walk_local(fn) if isinstance(x, ast.Subscript) and isinstance(x.slice, ast.Slice)]:
            lo = sub.slice.lower
            if sub.slice.upper is None and isinstance(lo, ast.UnaryOp) and isinstance(lo.op, ast.USub) and not isinstance(lo.operand, ast.Constant):
                n_neg += 1
                w = src(lo.operand)
                fs = facts(sub)
                pos = has_fact(fs, f"{w} > 0") or has_fact(fs, f"{w} >= 1") or has_fact(fs, f"{w} != 0") or has_fact(fs, f"{w} == 0", False) or has_fact(fs, w)
                ctx.check(pos, "J3-width-slice", f"{PRED}:{q}", f"{src(sub)[:50]} with {w} known non-zero", site(sub),
                          f"`{src(sub)}` keeps the last {w} characters only for {w} > 0; for {w} == 0 it is the WHOLE string, so cropping to width 0 proposes the unchanged (too wide) tree", "guarded by a non-zero test")
    ctx.inventory["negative_variable_slices"] = n_neg
    f = ctx.repo.func(PRED, "just", "C20.J3")
    c = f"{PRED}:just"
    pad = [a for a in walk_local(f) if isinstance(a, ast.Assign) and src(a.targets[0]) == "unparsed_output" and isinstance(a.value, ast.IfExp)]
    if len(pad) != 2:
        raise Unrecognised("C20.J3", c, f"expected the padding and the cropping assignment of unparsed_output (found {len(pad)})")
    padding, cropping = pad
    ok = src(padding.value.test) == "ljust" and src(padding.value.body) == "unparsed.ljust(width, fill_char)" and src(padding.value.orelse) == "unparsed.rjust(width, fill_char)"
    ctx.check(ok, "J3-just", c, "ljust pads on the right, rjust on the left, to `width` with the fill character", site(padding), f"padding is `{' '.join(src(padding.value).split())}`", "str.ljust / str.rjust by flag")
    if src(cropping.value.test) != "ljust" or not has_fact(facts(cropping), "crop"):
        raise Unrecognised("C20.J3", c, "cropping assignment not `... if ljust else ...` under `if crop`")
    kb = _slice_kind(cropping.value.body) if isinstance(cropping.value.body, ast.Subscript) and src(cropping.value.body.value) == "unparsed_output" else None
    ko = _slice_kind(cropping.value.orelse) if isinstance(cropping.value.orelse, ast.Subscript) and src(cropping.value.orelse.value) == "unparsed_output" else None
    if kb is None or ko is None or "other" in (kb, ko):
        raise Unrecognised("C20.J3", c, f"crop expressions `{src(cropping.value.body)}` / `{src(cropping.value.orelse)}` not understood")
    ctx.check(kb == "prefix", "J3-just", c, "left-justified text is cropped at the right end (keeps the first `width` characters)", site(cropping.value.body), f"ljust crop is a {kb} slice", "unparsed_output[:width]")
    if ko == "suffix-neg":
        pass  # judged by the generic J3-width-slice rule above
    else:
        ctx.check(ko == "suffix", "J3-just", c, "right-justified text is cropped at the left end (keeps the last `width` characters)", site(cropping.value.orelse), f"rjust crop is a {ko} slice", "unparsed_output[len(unparsed_output) - width:]")
    tv = [r for r in walk_local(f) if isinstance(r, ast.Return) and src(r.value) == "SemPredEvalResult(True)"]
    ok = len(tv) == 1 and has_fact(facts(tv[0]), "len(unparsed) == width")
    ctx.check(ok, "J3-just", c, "True exactly when the text already has the requested width", site(f), "verdict True must be under len(unparsed) == width", "len(unparsed) == width")
    ps = [x for x in calls_in(f) if call_name(x) == "parser"]
    # without cropping, padding cannot shorten the text: a text wider than `width` must get a verdict before the replacement is built.  An `assert` is not a verdict
    # (it raises, or vanishes under -O and lets the too wide tree through).
    if len(ps) == 1:
        excluded, used = _too_wide_excluded([x for x in facts(ps[0]) if x.kind != "assert"])
        if excluded:
            ctx.ok("J3-just-too-wide", c, "no replacement is built for (not crop, text wider than width)", site(ps[0]), "; ".join(used))
        else:
            only_assert = any(isinstance(a, ast.Assert) and " ".join(src(a.test).split()) == "crop or len(unparsed_output) == width" for a in walk_local(f))
            if only_assert or not used:
                ctx.viol("J3-just-too-wide", c, "no replacement is built for (not crop, text wider than width)", site(ps[0]),
                         "ljust/rjust WITHOUT crop reach the replacement with a text that is already wider than `width`: str.ljust/rjust return it unchanged, so the predicate "
                         "raises AssertionError (or, with -O, proposes the unchanged, too wide tree) instead of answering False - e.g. ljust(\"ab\", 1, \" \")")
            else:
                raise Unrecognised("C20.J3", c, f"guards before the replacement not understood: {used}")
    ok = len(ps) == 1 and src(ps[0].args[0]) == "unparsed_output" and any(isinstance(a, ast.Assign) and src(a.targets[0]) == "parser" and src(a.value) == "mk_parser(tree.value)" for a in walk_local(f))
    ctx.check(ok, "J3-just", c, "replacement parsed from the padded/cropped text with the tree's own nonterminal", site(f), "parser(unparsed_output) with mk_parser(tree.value)", "own nonterminal")
    g = ctx.repo.func(PRED, "crop", "C20.J3")
    c2 = f"{PRED}:crop"
    tv = [r for r in walk_local(g) if isinstance(r, ast.Return) and src(r.value) == "SemPredEvalResult(True)"]
    ok = len(tv) == 1 and has_fact(facts(tv[0]), "len(unparsed) <= width")
    ctx.check(ok, "J3-crop", c2, "True exactly when the text is not wider than `width`", site(g), "verdict True must be under len(unparsed) <= width", "len(unparsed) <= width")
    ps = [x for x in calls_in(g) if call_name(x) == "parser"]
    ok = len(ps) == 1 and isinstance(ps[0].args[0], ast.Subscript) and src(ps[0].args[0].value) == "unparsed" and _slice_kind(ps[0].args[0]) == "prefix"
    ctx.check(ok, "J3-crop", c2, "replacement = first `width` characters", site(g), f"parsed text is `{src(ps[0].args[0]) if ps else None}`", "unparsed[:width]")
    for fn_, cc in ((f, c), (g, c2)):
        vr = [r for r in walk_local(fn_) if isinstance(r, ast.Return) and "str(len(unparsed))" in src(r.value)]
        ok = len(vr) == 1 and has_fact(facts(vr[0]), "isinstance(width, Variable)") and src(vr[0].value) == "SemPredEvalResult({width: DerivationTree(str(len(unparsed)), None)})"
        ctx.check(ok, "J3-width-variable", cc, "an unbound width is instantiated with the actual length", site(fn_), "width variable must be bound to str(len(unparsed))", "len of the text")


def late_binding_sites(tree: ast.AST):
    """(loop, lambda/def, captured names, storing statement): closures created in a loop body that read the loop variable and are STORED (container item / attribute /
    .append) - Python closures see the variable's last value, so all stored closures behave like the one of the final iteration."""
    out = []
    for loop in [n for n in ast.walk(tree) if isinstance(n, (ast.For, ast.AsyncFor))]:
        tg = {n.id for n in ast.walk(loop.target) if isinstance(n, ast.Name)}
        for st in loop.body:
            for stmt in [x for x in ast.walk(st) if isinstance(x, (ast.Assign, ast.AugAssign, ast.AnnAssign, ast.Expr))]:
                if isinstance(stmt, ast.Expr):
                    v = stmt.value
                    if not (isinstance(v, ast.Call) and isinstance(v.func, ast.Attribute) and v.func.attr in ("append", "add", "setdefault", "update", "insert", "extend")):
                        continue
                    val = v
                else:
                    tgts = stmt.targets if isinstance(stmt, ast.Assign) else [stmt.target]
                    if not any(isinstance(t, (ast.Subscript, ast.Attribute)) for t in tgts):
                        continue
                    val = stmt.value
                if val is None:
                    continue
                for lam in [x for x in ast.walk(val) if isinstance(x, ast.Lambda)]:
                    params = {a.arg for a in lam.args.args + lam.args.kwonlyargs + lam.args.posonlyargs}
                    defaults = {n.id for d in lam.args.defaults + [k for k in lam.args.kw_defaults if k is not None] for n in ast.walk(d) if isinstance(n, ast.Name)}
                    used = {n.id for n in ast.walk(lam.body) if isinstance(n, ast.Name) and isinstance(n.ctx, ast.Load)}
                    cap = (used & tg) - params
                    # immediately invoked lambda `(lambda: ...)()` or one handed to a consuming builtin is evaluated within the iteration
                    par = getattr(lam, "_parent", None)
                    immediate = isinstance(par, ast.Call) and (par.func is lam or (call_name(par) or "") in ("sorted", "min", "max", "map", "filter", "any", "all", "next", "reduce", "functools.reduce", "sum", "safe", "lazystr"))
                    if cap and not immediate:
                        out.append((loop, lam, sorted(cap), stmt))
    return out


def rule_j5(ctx):
    """crop / just build the replacement by parsing the cropped or padded text with the parser of the argument's nonterminal.  That text need not be in the nonterminal's
    language (width 0 for a nonterminal that does not derive "", a fill character outside the language): the parse failure must become a verdict, not an exception."""
    from .c05 import _in_try_catching

    n = 0
    for name in ("crop", "just"):
        f = ctx.repo.func(PRED, name, "C20.J5")
        c = f"{PRED}:{name}"
        for call in [x for x in calls_in(f) if call_name(x) == "parser"]:
            n += 1
            ok = _in_try_catching(call, ("SyntaxError",), f)
            ctx.check(ok, "J5-unparseable-replacement", c, f"{' '.join(src(call).split())[:50]} under a SyntaxError handler", site(call),
                      f"`{' '.join(src(call).split())[:60]}` raises SyntaxError when the cropped/padded text is not derivable from the argument's nonterminal "
                      "(crop(tree, 0) where the nonterminal does not derive the empty string): the exception leaves the predicate, and solve(), instead of the verdict False",
                      "parse failure handled")
            if ok:
                # the handler answers False (no replacement exists)
                cur = call
                while not (isinstance(getattr(cur, "_parent", None), ast.Try) and cur in cur._parent.body):
                    cur = cur._parent
                hs = [h for h in cur._parent.handlers]
                good = all(any(isinstance(r, ast.Return) and src(r.value) == "SemPredEvalResult(False)" for r in ast.walk(h)) for h in hs)
                ctx.check(good, "J5-unparseable-replacement", c, "handler answers False", site(hs[0]), "the handler of the parse failure does not return SemPredEvalResult(False)", "SemPredEvalResult(False)")
    if n < 2:
        raise Unrecognised("C20.J5", PRED, f"only {n} replacement parses found in crop/just (expected 2)")
    # the same obligation for the two converting handlers of octal_to_decimal: the converted number is parsed with the other argument's nonterminal
    k = 0
    for name in ("octal_to_dec_concrete_octal", "octal_to_dec_concrete_decimal"):
        f = ctx.repo.func(PRED, name, "C20.J5")
        params = [a.arg for a in f.args.args]
        for call in [x for x in calls_in(f, include_nested=False) if isinstance(x.func, ast.Name) and x.func.id in params[2:]]:
            k += 1
            ok = _in_try_catching(call, ("SyntaxError",), f)
            ctx.check(ok, "J5-unparseable-replacement", f"{PRED}:{name}", f"{' '.join(src(call).split())[:50]} under a SyntaxError handler", site(call),
                      f"`{' '.join(src(call).split())[:60]}` raises SyntaxError when the other argument's nonterminal does not derive the converted number "
                      "(a one-digit decimal nonterminal and the octal number 17): the exception leaves the predicate instead of the verdict False", "parse failure handled")
    if k < 2:
        raise Unrecognised("C20.J5", PRED, f"only {k} replacement parses found in the octal handlers (expected 2)")


TAR = "src/isla_formalizations/tar.py"


def _root_label(meth: ast.FunctionDef, call: ast.Call):
    """Root label of the parse tree `meth` returns for this call: the constant first component of its returned pair(s); a parameter is resolved through the call's
    arguments or its default.  None if not constant."""
    labels = set()
    pos = [a.arg for a in meth.args.args]
    defaults = dict(zip(pos[len(pos) - len(meth.args.defaults):], meth.args.defaults))
    for r in [r for r in walk_local(meth) if isinstance(r, ast.Return) and r.value is not None]:
        v = r.value
        if isinstance(v, ast.Name):
            d = [a for a in walk_local(meth) if isinstance(a, ast.Assign) and len(a.targets) == 1 and src(a.targets[0]) == v.id]
            if len(d) == 1:
                v = d[0].value
        if not (isinstance(v, ast.Tuple) and len(v.elts) == 2):
            return None
        lab = v.elts[0]
        if isinstance(lab, ast.Name) and lab.id in pos:
            idx = pos.index(lab.id) - 1  # without self
            given = call.args[idx] if 0 <= idx < len(call.args) else next((k.value for k in call.keywords if k.arg == lab.id), defaults.get(lab.id))
            lab = given
        if not (isinstance(lab, ast.Constant) and isinstance(lab.value, str)):
            return None
        labels.add(lab.value)
    return labels.pop() if len(labels) == 1 else None


def rule_j6(ctx):
    """TarParser (the parser behind the tar justify/crop predicates): the tree parsed for start symbol S is `<start>` over ONE child rooted in S - the replacement
    a predicate proposes for an argument of type S must be a tree for S.  Decided per branch of the start-symbol dispatch: the method called returns a pair whose root label,
    after resolving a label parameter through the call's arguments and defaults, is the branch's symbol."""
    if not ctx.repo.exists(TAR):
        raise Unrecognised("C20.J6", TAR, "file missing")
    f = ctx.repo.func(TAR, "TarParser.parse_start", "C20.J6")
    m = ctx.repo.module(TAR, "C20.J6")
    c = f"{TAR}:TarParser.parse_start"
    n = 0
    node = next((s_ for s_ in f.body if isinstance(s_, ast.If)), None)
    # the list of children is whatever the final `return "<start>", NAME` hands out
    def ret_value(r):
        v = r.value
        if isinstance(v, ast.Name):
            d = [a for a in f.body if isinstance(a, ast.Assign) and len(a.targets) == 1 and src(a.targets[0]) == v.id]
            v = d[0].value if len(d) == 1 else v
        return v

    fin = [ret_value(r) for r in f.body if isinstance(r, ast.Return) and r.value is not None]
    fin = [v for v in fin if isinstance(v, ast.Tuple) and len(v.elts) == 2 and isinstance(v.elts[1], ast.Name)]
    if len(fin) != 1 or not (isinstance(fin[0].elts[0], ast.Constant) and fin[0].elts[0].value == "<start>"):
        raise Unrecognised("C20.J6", c, "final `return \"<start>\", <children>` not found")
    kids = fin[0].elts[1].id
    while isinstance(node, ast.If):
        t = node.test
        body, orelse = node.body, node.orelse
        if isinstance(t, ast.UnaryOp) and isinstance(t.op, ast.Not) and orelse:
            t, body, orelse = t.operand, orelse, body  # `if not c: B else: A`
        syms = None
        if isinstance(t, ast.Compare) and len(t.ops) == 1:
            l, r = t.left, t.comparators[0]
            if isinstance(t.ops[0], ast.Eq) and src(r) == "self.start_symbol":
                l, r = r, l
            if src(l) == "self.start_symbol":
                if isinstance(t.ops[0], ast.Eq) and isinstance(r, ast.Constant):
                    syms = [r.value]
                elif isinstance(t.ops[0], ast.In) and isinstance(r, (ast.Tuple, ast.List, ast.Set)) and all(isinstance(e, ast.Constant) for e in r.elts):
                    syms = [e.value for e in r.elts]
        if syms is None:
            raise Unrecognised("C20.J6", c, f"dispatch test `{src(t)[:50]}` not understood")
        asg = [a for a in body if isinstance(a, ast.Assign) and src(a.targets[0]) == kids and isinstance(a.value, ast.List)]
        if len(asg) != 1:
            raise Unrecognised("C20.J6", c, f"branch for {syms} does not assign `{kids} = [...]`")
        calls = [e for e in asg[0].value.elts if isinstance(e, ast.Call) and isinstance(e.func, ast.Attribute) and src(e.func.value) == "self"]
        if syms != ["<start>"]:
            if len(calls) != 1 or len(asg[0].value.elts) != 1:
                raise Unrecognised("C20.J6", c, f"branch for {syms} is not a single self.parse_*() call")
            meth = m.get(f"TarParser.{calls[0].func.attr}")
            if not isinstance(meth, ast.FunctionDef):
                raise Unrecognised("C20.J6", c, f"method {calls[0].func.attr} not found")
            lab = _root_label(meth, calls[0])
            if lab is None:
                raise Unrecognised("C20.J6", f"{TAR}:TarParser.{meth.name}", "root label of the returned tree is not constant")
            for sym in syms:
                n += 1
                ctx.check(lab == sym, "J6-parser-root-label", c, f"start symbol {sym} -> tree rooted in {sym}", site(calls[0]),
                          f"for start symbol {sym} the parser returns `{src(calls[0])}`, a tree rooted in {lab}: the replacement that ljust_crop_tar / rjust_crop_tar propose for a {sym} argument "
                          f"has the right text and width but is not a tree for {sym}", f"{meth.name} returns {lab}")
        node = orelse[0] if len(orelse) == 1 and isinstance(orelse[0], ast.If) else None
    if n < 15:
        raise Unrecognised("C20.J6", c, f"only {n} start-symbol branches found (expected >= 15)")


def rule_j4(ctx):
    """No predicate (or any other stored callable) is built from a closure that captures a loop variable by reference.  Expected count on today's tree: zero."""
    from ..callgraph import SRC_ISLA

    n_loops = 0
    for rel in SRC_ISLA:
        m = ctx.repo.module(rel, "C20.J4")
        n_loops += sum(1 for n in ast.walk(m.tree) if isinstance(n, ast.For))
        for loop, lam, cap, stmt in late_binding_sites(m.tree):
            ctx.viol("J4-late-binding", f"{rel}:{qual(lam)}", f"closure over loop variable(s) {cap}", site(lam),
                     f"`{' '.join(src(lam).split())[:70]}` is created inside `for {src(loop.target)} in ...` and stored (`{' '.join(src(stmt).split())[:50]}...`) while reading {cap}: all closures stored by the loop see "
                     "the LAST values of these variables - e.g. four justification predicates built in a loop all behave like the last one (rjust pads on the wrong side)")
    fx = ast.parse("P = {}\nfor lj in (False, True):\n    P[lj] = Pred('x', lambda g, t: just(lj, t))\n")
    for n_ in ast.walk(fx):
        for ch in ast.iter_child_nodes(n_):
            ch._parent = n_
    if len(late_binding_sites(fx)) != 1:
        raise Unrecognised("C20.J4", "fixture", "positive fixture did not fire")
    ctx.ok("J4-late-binding", "src/isla", "no stored closure captures a loop variable", "src/isla:0", f"{n_loops} for-loops scanned; fixture fires")


def run(ctx) -> str:
    ctx.guarded("J5", lambda: rule_j5(ctx))
    ctx.guarded("J6", lambda: rule_j6(ctx))
    from ..memo import check_memo_keys

    ctx.guarded("J7", lambda: ctx.inventory.__setitem__("predicate_memo_sites", check_memo_keys(ctx, "J7-memo-key", [PRED, TAR], min_sites=0)))
    ctx.guarded("J4", lambda: rule_j4(ctx))
    ctx.guarded("J3", lambda: rule_j3(ctx))
    ctx.guarded("J", lambda: rule_j(ctx))
    ctx.guarded("A", lambda: rule_a(ctx))
    ctx.assume("parameter names `octal` / `decimal` of the octal_to_dec_* family are the documented argument roles")
    return EXPLANATION
