"""C15 — Integer intervals inferred from a regex are exactly the numbers it matches.

Decided clauses: (a) 'not recognised' (Nothing) is never turned into a positive match;
(b) the partial(handler, fallback) chain is wired correctly.  Exactness of the interval
arithmetic is NOT decided (runtime values)."""

from __future__ import annotations

import ast
from typing import Dict, List, Optional

from ..core import has_fact, Unrecognised, call_name, calls_in, dotted, facts, module_of, qual, site, src, walk_local, parent, positional_arity

Z3H = "src/isla/z3_helpers.py"

EXPLANATION = (
    "Static necessary conditions for C15 over numeric_intervals_from_regex and its handler chain in src/isla/z3_helpers.py: decided: "
    "(K1) every Maybe.value_or(...) used in a boolean position passes a plain falsy default (a thunk such as `lambda: False` is a truthy "
    "object, so 'not recognised' would count as a match); (A1) the partial(handler, fallback) chain: each handler has signature "
    "(fallback, regex), calls fallback(regex) on its not-responsible branch, the chain ends in a function returning Nothing, and "
    "every handler defined for the chain is wired into it; (A2) handlers return Maybe values only (Some/Nothing/merge_intervals/recursive "
    "call/fallback); (M1) merge_intervals merges two sorted intervals into their hull and keeps them apart only with a real gap; (R7) no interval cache is keyed by the "
    "printed (lossy) form of the regular expression; (C1) compress_concatenation_elements only reorders or merges star/plus of the same body. NOT decided: exactness of "
    "interval bounds for every recognised regex."
)

MAYBE_PRODUCERS = {"Some", "numeric_intervals_from_regex", "merge_intervals", "fallback"}


def rule_k1(ctx):
    m = ctx.repo.module(Z3H, "C15.K1")
    n = 0
    for q, fn in m.functions():
        if not q.startswith("numeric_intervals_from"):
            continue
        for c in calls_in(fn, include_nested=True):
            if isinstance(c.func, ast.Attribute) and c.func.attr == "value_or" and len(c.args) == 1:
                n += 1
                a = c.args[0]
                bad = isinstance(a, ast.Lambda) or (isinstance(a, ast.Name) and a.id not in ("False", "None"))
                # boolean position?
                p = parent(c)
                boolean_ctx = isinstance(p, (ast.BoolOp, ast.If, ast.While, ast.UnaryOp, ast.IfExp))
                ok = not (bad and boolean_ctx)
                ctx.check(ok, "K1-value-or-thunk", f"{Z3H}:{q}", f"{src(c.func.value)[-60:]}.value_or({src(a)})", site(c),
                          f"Maybe.value_or returns its argument unchanged; `{src(a)}` is a function object and therefore truthy, so a Nothing "
                          "('expression not recognised') makes this condition true", "default is a plain falsy value")
    if n < 4:
        raise Unrecognised("C15.K1", f"{Z3H}:numeric_intervals_from_*", f"only {n} value_or sites found (expected >= 4)")


def rule_a1(ctx):
    fn = ctx.repo.func(Z3H, "numeric_intervals_from_regex", "C15.A1")
    m = module_of(fn)
    # chain: name = partial(handler, fallback)
    chain: Dict[str, tuple] = {}
    for st in fn.body:
        if isinstance(st, ast.Assign) and len(st.targets) == 1 and isinstance(st.targets[0], ast.Name) and isinstance(st.value, ast.Call) and call_name(st.value) == "partial":
            a = st.value.args
            if len(a) != 2:
                raise Unrecognised("C15.A1", f"{Z3H}:numeric_intervals_from_regex", f"partial with {len(a)} arguments")
            chain[st.targets[0].id] = (a[0], a[1], st)
    if len(chain) < 5:
        raise Unrecognised("C15.A1", f"{Z3H}:numeric_intervals_from_regex", f"only {len(chain)} partial(...) links found (expected >= 5)")
    # entry point: result = X(regex)
    entry = None
    for n in walk_local(fn):
        if isinstance(n, ast.Call) and isinstance(n.func, ast.Name) and n.func.id in chain and len(n.args) == 1 and src(n.args[0]) == "regex":
            entry = n.func.id
    if entry is None:
        raise Unrecognised("C15.A1", f"{Z3H}:numeric_intervals_from_regex", "entry call <link>(regex) not found")
    wired = []
    cur = entry
    seen = set()
    terminal_ok = False
    while True:
        if cur in seen:
            ctx.viol("A1-chain", f"{Z3H}:numeric_intervals_from_regex", f"cycle at {cur}", site(fn), "the handler chain is cyclic: an unrecognised regex never terminates")
            return
        seen.add(cur)
        h, fb, st = chain[cur]
        hname = dotted(h)
        target = m.get(hname) if hname else None
        if not isinstance(target, ast.FunctionDef):
            raise Unrecognised("C15.A1", f"{Z3H}:numeric_intervals_from_regex", f"handler {src(h)} not resolved")
        wired.append(hname)
        lo, hi = positional_arity(target)
        ctx.check(lo == 2 and hi == 2, "A1-chain", f"{Z3H}:{hname}", "signature (fallback, regex)", site(target),
                  f"chain handlers are called as handler(fallback, regex) but {hname} accepts {(lo, hi)} positional arguments", "accepts (fallback, regex)")
        # negative branch calls fallback(regex)
        pn = [a.arg for a in target.args.args]
        fb_calls = [c for c in calls_in(target, include_nested=False) if isinstance(c.func, ast.Name) and c.func.id == pn[0]]
        okfb = bool(fb_calls) and all(len(c.args) == 1 and src(c.args[0]) == pn[1] and isinstance(parent(c), ast.Return) for c in fb_calls)
        ctx.check(okfb, "A1-chain", f"{Z3H}:{hname}", "not-responsible branch returns fallback(regex)", site(target),
                  f"{hname} must hand an expression it is not responsible for to `{pn[0]}({pn[1]})` (found {[src(c) for c in fb_calls]}); otherwise later handlers are skipped or a non-Maybe leaks",
                  "delegates to fallback(regex)")
        if isinstance(fb, ast.Name) and fb.id in chain:
            cur = fb.id
            continue
        # terminal
        if isinstance(fb, ast.Lambda) and dotted(fb.body) == "Nothing" and len(fb.args.args) == 1:
            terminal_ok = True
        ctx.check(terminal_ok, "A1-chain", f"{Z3H}:numeric_intervals_from_regex", "terminal fallback", site(st),
                  f"the chain must end in `lambda _: Nothing` (documented result for unsupported expressions), found {src(fb)}", "ends in Nothing")
        break
    defined = sorted(q for q, f in m.functions() if q.startswith("numeric_intervals_from_") and "." not in q and q != "numeric_intervals_from_regex")
    missing = [d for d in defined if d not in wired]
    ctx.check(not missing, "A1-chain-complete", f"{Z3H}:numeric_intervals_from_regex", "all handlers wired", site(fn),
              f"handlers {missing} are defined but not part of the chain: the regex shapes they recognise are reported as unsupported",
              f"{len(wired)} handlers wired")
    ctx.inventory["chain"] = wired
    # A2: returns are Maybe-typed
    for hname in wired:
        target = m.get(hname)
        pn = [a.arg for a in target.args.args]
        for r in [n for n in walk_local(target) if isinstance(n, ast.Return)]:
            v = r.value
            head = v
            # strip trailing .map/.bind chains
            while isinstance(head, ast.Call) and isinstance(head.func, ast.Attribute) and head.func.attr in ("map", "bind", "lash"):
                head = head.func.value
            name = call_name(head) if isinstance(head, ast.Call) else dotted(head) if head is not None else None
            ok = name in MAYBE_PRODUCERS or name == pn[0] or name == "Nothing" or name == "seqref_to_int" or (isinstance(head, ast.IfExp))
            if isinstance(head, ast.IfExp):
                ok = all((call_name(x) if isinstance(x, ast.Call) else dotted(x)) in MAYBE_PRODUCERS | {"Nothing"} for x in (head.body, head.orelse))
            ctx.check(ok, "A2-returns-maybe", f"{Z3H}:{hname}", f"return {src(v)[:70]}", site(r),
                      "handler returns something that is not a Maybe (Some/Nothing/merge_intervals/recursive result); callers use .map/.value_or on it",
                      "Maybe-typed return")


def rule_c1(ctx):
    """compress_concatenation_elements: each branch appends only elements of the group or Plus(<element of the group>)."""
    fn = ctx.repo.func(Z3H, "compress_concatenation_elements", "C15.C1")
    appends = []
    for c in calls_in(fn, include_nested=False):
        if isinstance(c.func, ast.Attribute) and c.func.attr in ("append", "extend") and dotted(c.func.value) == "new_children":
            appends.append(c)
    if len(appends) < 4:
        raise Unrecognised("C15.C1", f"{Z3H}:compress_concatenation_elements", f"only {len(appends)} result writes found")
    for c in appends:
        a = src(c.args[0])
        ok = a in ("group[0]", "cleaned_group", "group")
        ctx.check(ok, "C1-compress-provenance", f"{Z3H}:compress_concatenation_elements", f"new_children.{c.func.attr}({a})", site(c),
                  "result elements must come from the current group (or its cleaned version)", "element of the group")
    # the star-only compression must be guarded by all(... STAR ...) and the bare duplication branch keeps all elements
    for c in appends:
        if src(c.args[0]) == "group[0]":
            fs = [f.text for f in facts(c) if f.positive]
            ok = any("len(group) == 1" in f for f in fs) or any("Z3_OP_RE_STAR" in f and f.startswith("all(") for f in fs)
            ctx.check(ok, "C1-compress-guard", f"{Z3H}:compress_concatenation_elements", "group collapsed to one element", site(c),
                      "a group may be collapsed to its first element only if it is a singleton or consists of starred copies (r* r* = r*)",
                      "collapse guarded by singleton / all-star test")
    # Plus(...) construction only under 'some star and no plus' branch
    for c in calls_in(fn, include_nested=False):
        if call_name(c) == "z3.Plus":
            fs = facts(c)
            ok = any("Z3_OP_RE_STAR" in f.text and f.text.startswith("any(") and f.positive for f in fs) and any("Z3_OP_RE_PLUS" in f.text and f.text.startswith("any(") and not f.positive for f in fs)
            ctx.check(ok, "C1-compress-guard", f"{Z3H}:compress_concatenation_elements", src(c), site(c),
                      "r r* -> r+ is only valid in the branch 'some element is starred and none is a plus'", "guarded by the star/no-plus branch")


def rule_m1(ctx):
    """merge_intervals: the union of two sorted, touching/overlapping intervals spans min(low) .. max(high)."""
    H = "src/isla/helpers.py"
    f = ctx.repo.func(H, "merge_intervals", "C15.M1")
    g = next((n for n in ast.walk(f) if isinstance(n, ast.FunctionDef) and n.name == "merge_two_intervals"), None)
    if g is None:
        raise Unrecognised("C15.M1", f"{H}:merge_intervals", "merge_two_intervals not found")
    c = f"{H}:merge_intervals.merge_two_intervals"
    a, b = [x.arg for x in g.args.args][:2]
    rets = [r for r in walk_local(g) if isinstance(r, ast.Return)]
    sep = [r for r in rets if src(r.value) == f"[{a}, {b}]"]
    mer = [r for r in rets if r not in sep]
    ok = len(sep) == 1 and any(f_.positive and f_.text == f"{a}[1] + 1 < {b}[0]" for f_ in facts(sep[0]))
    ctx.check(ok, "M1-merge", c, "kept apart only with a gap of at least one integer", site(g), "two intervals are kept separate although they touch or overlap (or merged although there is a gap)", f"separate iff {a}[1] + 1 < {b}[0]")
    if len(mer) != 1:
        raise Unrecognised("C15.M1", c, "merged-interval return not found")
    v = src(mer[0].value).replace(" ", "")
    good = {f"[({a}[0],max({a}[1],{b}[1]))]", f"[({a}[0],max({b}[1],{a}[1]))]", f"[(min({a}[0],{b}[0]),max({a}[1],{b}[1]))]"}
    if v in good:
        ctx.ok("M1-merge", c, "merged = (low of first, max of both highs)", site(mer[0]), "hull of both intervals")
    elif "max(" not in v:
        ctx.viol("M1-merge", c, "merged = (low of first, max of both highs)", site(mer[0]),
                 f"the merged interval is {src(mer[0].value)}: when the second interval is nested in the first ((1, 9) and (3, 5)) its smaller upper bound replaces the larger one and numbers are lost")
    else:
        raise Unrecognised("C15.M1", c, f"merged interval {src(mer[0].value)} not recognised")
    ok = any(isinstance(n, ast.Assert) and src(n.test) == f"{a}[0] <= {b}[0]" for n in walk_local(g))
    srt = any(isinstance(n, ast.Call) and call_name(n) == "sorted" and any(k.arg == "key" and src(k.value) == "lambda interval: interval[0]" for k in n.keywords) for n in ast.walk(f))
    ctx.check(ok and srt, "M1-merge", c, "inputs sorted by lower bound", site(f), "merging assumes intervals sorted by their lower bound", "sorted + asserted")


def rule_u1(ctx):
    """Union: the numbers of a union are the numbers of ALL its alternatives; an alternative outside the recognised shapes makes the whole answer `Nothing`
    (merge_intervals absorbs Nothing) - skipping it would report intervals that miss every number of that alternative."""
    Z = "src/isla/z3_helpers.py"
    f = ctx.repo.func(Z, "numeric_intervals_from_union", "C15.U1")
    c = f"{Z}:numeric_intervals_from_union"
    merges = [x for x in calls_in(f) if call_name(x) == "merge_intervals"]
    if len(merges) != 1 or len(merges[0].args) != 1 or not isinstance(merges[0].args[0], ast.Starred):
        raise Unrecognised("C15.U1", c, "merge_intervals(*<results of the alternatives>) not found")
    a = merges[0].args[0].value
    if isinstance(a, ast.Name):
        d = [x for x in walk_local(f) if isinstance(x, ast.Assign) and len(x.targets) == 1 and src(x.targets[0]) == a.id]
        if len(d) != 1:
            raise Unrecognised("C15.U1", c, f"definition of `{a.id}` not found")
        a = d[0].value
    t = " ".join(src(a).split())
    all_children = t in ("map(numeric_intervals_from_regex, regex.children())", "[numeric_intervals_from_regex(child) for child in regex.children()]",
                         "list(map(numeric_intervals_from_regex, regex.children()))")
    filtered = isinstance(a, (ast.ListComp, ast.GeneratorExp)) and any(g.ifs for g in a.generators) and "regex.children()" in t
    if all_children:
        ctx.ok("U1-union-all-alternatives", c, "every alternative contributes (Nothing is absorbing)", site(merges[0]), t[:70])
    elif filtered or "filter(" in t:
        cond = " ".join(src(a.generators[0].ifs[0]).split()) if filtered else t
        ctx.viol("U1-union-all-alternatives", c, "every alternative contributes (Nothing is absorbing)", site(a),
                 f"alternatives are filtered (`{cond[:60]}`) before merging: an alternative outside the recognised shapes is dropped instead of making the result Nothing, so "
                 "Union([1-3], [1-9][0-9]) is reported as [(1, 3)] although 10..99 are matched")
    else:
        raise Unrecognised("C15.U1", c, f"arguments of merge_intervals not understood: {t[:70]}")
    H = "src/isla/helpers.py"
    g = ctx.repo.func(H, "merge_intervals", "C15.U1")
    tg = " ".join(src(g).split())
    ok = "acc.bind(" in tg and "maybe_intervals.bind(" in tg
    if not ok:
        raise Unrecognised("C15.U1", f"{H}:merge_intervals", "Maybe-chain (acc.bind(... maybe_intervals.bind(...))) not found")
    ctx.ok("U1-union-all-alternatives", f"{H}:merge_intervals", "Nothing is absorbing", site(g), "both operands bound")


def rule_s1(ctx):
    """Use of the intervals in the solver: -sys.maxsize / sys.maxsize stand for 'unbounded' (that is what the interval functions return for signs and stars); such a
    bound must not be emitted as a real bound, or numbers beyond 2^63 - which the grammar derives - are excluded."""
    S = "src/isla/solver.py"
    f = ctx.repo.func(S, "ISLaSolver.solve_smt_formulas_with_language_constraints", "C15.S1")
    c = f"{S}:ISLaSolver.solve_smt_formulas_with_language_constraints"
    cmps = [x for x in ast.walk(f) if isinstance(x, ast.Compare) and len(x.ops) == 1 and isinstance(x.ops[0], (ast.GtE, ast.LtE)) and src(x.left) == "repl_var"
            and isinstance(x.comparators[0], ast.Call) and src(x.comparators[0].func) == "z3.IntVal" and src(x.comparators[0].args[0]).startswith("interval[")]
    if len(cmps) != 2:
        raise Unrecognised("C15.S1", c, f"interval bounds `repl_var >= / <= z3.IntVal(interval[i])` not found ({len(cmps)})")
    for x in cmps:
        lower = isinstance(x.ops[0], ast.GtE)
        idx = src(x.comparators[0].args[0])
        par = getattr(x, "_parent", None)
        want = f"{idx} > -sys.maxsize" if lower else f"{idx} < sys.maxsize"
        guarded = isinstance(par, ast.IfExp) and par.body is x and " ".join(src(par.test).split()) in (want, f"-sys.maxsize < {idx}" if lower else f"sys.maxsize > {idx}") \
            and src(par.orelse) in ("z3.BoolVal(True)", "True")
        if guarded:
            ctx.ok("S1-infinite-bounds", c, f"{'lower' if lower else 'upper'} bound emitted only when finite", site(x), want)
        elif not isinstance(par, ast.IfExp):
            ctx.viol("S1-infinite-bounds", c, f"{'lower' if lower else 'upper'} bound emitted only when finite", site(x),
                     f"`{src(x)}` is emitted unconditionally, but the interval functions use {'-' if lower else ''}sys.maxsize for 'unbounded': numbers "
                     f"{'below -' if lower else 'above '}2^63-1 that the nonterminal derives are excluded (str.to.int(<nat>) > 9223372036854775807 becomes unsatisfiable)")
        else:
            raise Unrecognised("C15.S1", c, f"guard of `{src(x)}` not understood: {src(par.test)[:50]}")


def rule_f2(ctx):
    """Literal, padding and tail cases of the interval inference: (a) a string literal contributes exactly its integer value (the empty word has none);
    (b) zero padding is removed only from the FRONT of a concatenation; (c) the open-ended answers `[d][0-9]*` / `[d][0-9]+` apply to two-element concatenations only."""
    f = ctx.repo.func(Z3H, "numeric_intervals_from_seq_to_re", "C15.F2")
    c = f"{Z3H}:numeric_intervals_from_seq_to_re"
    for r in [x for x in walk_local(f) if isinstance(x, ast.Return)]:
        t = " ".join(src(r.value).split())
        if t == "fallback(regex)":
            continue
        derived = t.startswith("seqref_to_int(regex.children()[0])")
        ctx.check(derived, "F2-literal-value", c, f"answer `{t[:50]}` is the literal's own integer value", site(r),
                  f"the literal case answers `{t[:60]}` without reading the literal's digits: e.g. the empty word \"\" is given the value 0, so Union(Re(\"\"), [3-7]) yields [(0,0),(3,7)] although no "
                  "matched string denotes 0", "seqref_to_int(literal)")
    g = ctx.repo.func(Z3H, "numeric_intervals_from_concat", "C15.F2")
    c2 = f"{Z3H}:numeric_intervals_from_concat"
    # (b) padding removal
    drops = [a for a in walk_local(g) if isinstance(a, ast.Assign) and src(a.targets[0]) == "children" and "children" in src(a.value) and not isinstance(a.value, ast.Call)]
    pad = [a for a in drops if isinstance(a.value, ast.Subscript) and src(a.value) == "children[idx:]"]
    filt = [a for a in drops if isinstance(a.value, (ast.ListComp, ast.GeneratorExp)) and "intervals == [(0, 0)]" in " ".join(src(g).split()) and ("padding" in src(a.value) or "(0, 0)" in src(a.value))]
    if filt:
        ctx.viol("F2-leading-padding-only", c2, "zero padding is dropped from the front only", site(filt[0]),
                 f"`{' '.join(src(filt[0]).split())[:70]}` removes EVERY all-zero element of the concatenation, also literal zeroes inside the number: `0*[1-9]0` (10, 20, ..., 90) is given (1, 9)")
    elif pad:
        wl = [w for w in walk_local(g) if isinstance(w, ast.While) and "idx < len(children)" in src(w.test) and "intervals == [(0, 0)]" in " ".join(src(w.test).split())]
        ctx.check(len(wl) == 1 and has_fact(facts(pad[0]), "idx > 0"), "F2-leading-padding-only", c2, "zero padding is dropped from the front only", site(pad[0]), "prefix removal children[idx:] after counting leading zero elements not found", "children[idx:]")
    else:
        raise Unrecognised("C15.F2", c2, "removal of zero padding not found")
    # (c) open-ended answers
    n = 0
    for r in [x for x in walk_local(g) if isinstance(x, ast.Return)]:
        t = " ".join(src(r.value).split())
        if "sys.maxsize" in t and t.startswith("Some("):
            n += 1
            fs = facts(r)
            two = any(f_.positive and "len(children) == 2" in f_.text for f_ in fs)
            ctx.check(two, "F2-open-ended-two-elements", c2, f"`{t[:40]}` only for a two-element concatenation", site(r),
                      f"the open-ended answer `{t[:50]}` is given without `len(children) == 2`: elements between the leading digit and the trailing [0-9]*/[0-9]+ are ignored, so "
                      "`[1-9][0-9][0-9]+` (numbers >= 100) is given (10, inf) and `[1-9]5[0-9]*` is given (1, inf)", "dominated by len(children) == 2")
    if n < 3:
        raise Unrecognised("C15.F2", c2, f"only {n} open-ended answers found (expected 3)")


def rule_f1(ctx):
    """`[0-9]*` / `[0-9]+` carry no sign: the integer values of the matched strings are the non-negative integers, so the interval's lower bound is 0."""
    f = ctx.repo.func(Z3H, "numeric_intervals_from_full_range", "C15.F1")
    c = f"{Z3H}:numeric_intervals_from_full_range"
    rets = [r for r in walk_local(f) if isinstance(r, ast.Return) and isinstance(r.value, ast.Call) and call_name(r.value) == "Some"]
    if len(rets) != 1:
        raise Unrecognised("C15.F1", c, "expected one Some([...]) answer")
    t = " ".join(src(rets[0].value).split())
    if t == "Some([(0, sys.maxsize)])":
        ctx.ok("F1-full-range-lower-bound", c, "[0-9]*/[0-9]+ -> [0, inf)", site(rets[0]), t)
    elif t == "Some([(-sys.maxsize, sys.maxsize)])":
        ctx.viol("F1-full-range-lower-bound", c, "[0-9]*/[0-9]+ -> [0, inf)", site(rets[0]),
                 "the digits-only expressions Star/Plus(Range('0','9')) are given the interval (-inf, inf): they match no string with a sign, so the exact set of integer values is [0, inf) - "
                 "the union of the inferred intervals contains every negative integer although no matched string denotes one")
    else:
        raise Unrecognised("C15.F1", c, f"answer {t} not understood")
    g = " ".join(src(f).split())
    if "regex.children()[0] == z3.Range('0', '9')" not in g or "z3.Z3_OP_RE_STAR" not in g or "z3.Z3_OP_RE_PLUS" not in g:
        raise Unrecognised("C15.F1", c, "guard of the full-range case changed")


def run(ctx) -> str:
    ctx.guarded("F1", lambda: rule_f1(ctx))
    ctx.guarded("F2", lambda: rule_f2(ctx))
    from . import c05

    ctx.guarded("R7", lambda: c05.rule_r7(ctx))
    ctx.guarded("M1", lambda: rule_m1(ctx))
    ctx.guarded("U1", lambda: rule_u1(ctx))
    ctx.guarded("S1", lambda: rule_s1(ctx))
    from ..memo import check_memo_keys

    # interval caches in the solver (the consumer of numeric_intervals_from_regex) are keyed injectively - a printed regex is not a key (Z3 elides deep terms as `...`)
    ctx.guarded("S2", lambda: ctx.inventory.__setitem__("solver_memo_sites", check_memo_keys(ctx, "S2-memo-key", ["src/isla/solver.py"], min_sites=0)))
    ctx.guarded("K1", lambda: rule_k1(ctx))
    ctx.guarded("A1", lambda: rule_a1(ctx))
    ctx.guarded("C1", lambda: rule_c1(ctx))
    ctx.assume("returns.Maybe.value_or(x) returns x for Nothing (library semantics read from returns/maybe.py)")
    return EXPLANATION
