"""C19 — The isla command line honours its exit-code and output contract."""

from __future__ import annotations

import ast
from typing import List, Optional, Set

from ..core import (
    Unrecognised,
    NotConstant,
    call_name,
    calls_in,
    dotted,
    enclosing_def,
    facts,
    fold,
    has_fact,
    module_of,
    parent,
    qual,
    site,
    src,
    walk_local,
)

CLI = "src/isla/cli.py"
DT = "src/isla/derivation_tree.py"
HELPERS = "src/isla/helpers.py"

EXPLANATION = (
    "Static necessary conditions for C19 over src/isla/cli.py: decided: (E1) exit-code constants USAGE_ERROR == 2 and DATA_FORMAT_ERROR == 65 and "
    "every sys.exit/exit site passes a value from {0, 1, 2, 65} (or do_check's code, itself 0/1); (E2) in parse_grammar and parse_constraint every "
    "call that parses or reads user text lies in a try whose `except Exception` handler prints to stderr and exits with DATA_FORMAT_ERROR; "
    "(E3) missing grammar / constraint / input exit with USAGE_ERROR; (E4) constraints are accumulated by conjunction from true(); (E5) do_check "
    "returns code 0 only after solver.check(tree) was true on the tree obtained from the input, and `check` exits with exactly that code; "
    "(E6) input-text handling in get_input_string cannot raise: no unguarded indexing of the input text, and every function applied to "
    "input-derived data lies inside safe(...) (a `.map(f)` stage of a returns pipeline does not catch exceptions of f). "
    "(E7) every .read() of a user-supplied file handle lies in a try that catches UnicodeDecodeError (or a base class) and ends in sys.exit: a non-UTF-8 file cannot end in a traceback. "
    "(E8) parse_grammar rejects (inside its try, hence with exit 65) a grammar in which a used nonterminal or <start> has no rules. "
    "(E10) the input file's text loses at most one trailing newline and a JSON tree is accepted only under GrammarGraph.tree_is_valid; (E9) in do_check the solver construction and solver.check(tree) lie in a try whose generic handler answers (1, message, Nothing): evaluation errors and "
    "UnknownResultError cannot escape as a traceback. NOT decided: that solve output is accepted by check (needs C01/C03)."
)

ALLOWED_CODES = {0, 1, 2, 65}


def consts(ctx):
    m = ctx.repo.module(CLI, "C19.E1")
    c = m.constants()
    vals = {}
    for name, want in (("USAGE_ERROR", 2), ("DATA_FORMAT_ERROR", 65)):
        if name not in c:
            raise Unrecognised("C19.E1", f"{CLI}:{name}", "exit-code constant not found")
        try:
            v = fold(c[name])
        except NotConstant:
            raise Unrecognised("C19.E1", f"{CLI}:{name}", "not a constant expression")
        vals[name] = v
        ctx.check(v == want, "E1-constants", f"{CLI}:{name}", f"{name} == {want}", site(c[name]), f"documented exit code is {want}, constant is {v}", "documented value")
    return m, vals


def rule_e1(ctx):
    m, vals = consts(ctx)
    n = 0
    for q, fn in m.functions():
        for c in calls_in(fn, include_nested=False):
            if call_name(c) in ("sys.exit", "exit") and len(c.args) <= 1:
                n += 1
                a = c.args[0] if c.args else None
                construct = f"{CLI}:{q}"
                if a is None:
                    ctx.ok("E1-exit-sites", construct, "exit()", site(c), "exit code 0")
                    continue
                if isinstance(a, ast.Name) and a.id in vals:
                    ctx.ok("E1-exit-sites", construct, f"exit({a.id})", site(c), f"named constant {vals[a.id]}")
                    continue
                try:
                    v = fold(a)
                    ctx.check(v in ALLOWED_CODES and isinstance(v, int), "E1-exit-sites", construct, f"exit({src(a)})", site(c),
                              f"exit code {v!r} is outside the documented set {sorted(ALLOWED_CODES)}", "documented exit code")
                    continue
                except NotConstant:
                    pass
                if isinstance(a, ast.Name) and a.id == "code":
                    # must come from do_check
                    ok = any(
                        isinstance(s, ast.Assign) and isinstance(s.value, ast.Call) and call_name(s.value) == "do_check" and isinstance(s.targets[0], ast.Tuple) and src(s.targets[0].elts[0]) == "code"
                        for s in walk_local(fn)
                    )
                    ctx.check(ok, "E1-exit-sites", construct, "exit(code)", site(c), "`code` is not the first component of do_check(...)", "do_check's code (0/1)")
                    continue
                if isinstance(a, ast.Attribute) and src(a).endswith(".returncode"):
                    ctx.note("E1-exit-sites", construct, f"exit({src(a)})", site(c), "propagates a child process return code (fuzz command)")
                    continue
                raise Unrecognised("C19.E1", construct, f"exit argument {src(a)} not understood")
    if n < 20:
        raise Unrecognised("C19.E1", CLI, f"only {n} exit sites found (expected >= 20)")


PARSE_CALLS = {"parse_bnf", "parse_isla", "process_python_extension", "open"}


def _try_with_exception_handler(node: ast.AST, fn: ast.AST) -> Optional[ast.ExceptHandler]:
    cur = node
    p = parent(cur)
    while p is not None and cur is not fn:
        if isinstance(p, ast.Try) and cur in p.body:
            for h in p.handlers:
                names = [] if h.type is None else [dotted(e) for e in (h.type.elts if isinstance(h.type, ast.Tuple) else [h.type])]
                if h.type is None or "Exception" in names or "BaseException" in names:
                    return h
        cur, p = p, parent(p)
    return None


def rule_e2(ctx):
    m, vals = consts(ctx)
    total = 0
    for fname in ("parse_grammar", "parse_constraint"):
        fn = ctx.repo.func(CLI, fname, "C19.E2")
        sites = [c for c in calls_in(fn, include_nested=True) if call_name(c) in PARSE_CALLS or (isinstance(c.func, ast.Attribute) and c.func.attr == "read")]
        if len(sites) < 3:
            raise Unrecognised("C19.E2", f"{CLI}:{fname}", f"only {len(sites)} parsing/reading calls found")
        for c in sites:
            total += 1
            h = _try_with_exception_handler(c, fn)
            construct = f"{CLI}:{fname}"
            if h is None:
                ctx.viol("E2-data-format", construct, src(c)[:60], site(c), "user-supplied text is parsed/read outside a try/except Exception: a malformed file ends with a traceback instead of exit code 65")
                continue
            exits = [x for x in calls_in(h) if call_name(x) in ("sys.exit", "exit")]
            ok_exit = bool(exits) and all(x.args and src(x.args[0]) == "DATA_FORMAT_ERROR" for x in exits)
            last_is_exit = bool(h.body) and isinstance(h.body[-1], ast.Expr) and isinstance(h.body[-1].value, ast.Call) and call_name(h.body[-1].value) in ("sys.exit", "exit")
            prints = [x for x in calls_in(h) if call_name(x) == "print" and any(k.arg == "file" and src(k.value) == "stderr" for k in x.keywords)]
            ctx.check(ok_exit and last_is_exit, "E2-data-format", construct, src(c)[:60], site(c),
                      "the handler guarding this parse does not unconditionally end in sys.exit(DATA_FORMAT_ERROR)", "handler exits with DATA_FORMAT_ERROR")
            ctx.check(bool(prints), "E2-error-message", construct, src(c)[:60], site(h), "the handler exits without printing an error message to stderr", "prints an error message to stderr")
    ctx.inventory["guarded_parse_sites"] = total


def rule_e3(ctx):
    for fname in ("ensure_grammar_present", "ensure_constraint_present"):
        fn = ctx.repo.func(CLI, fname, "C19.E3")
        exits = [c for c in calls_in(fn) if call_name(c) in ("sys.exit", "exit")]
        if not exits:
            ctx.viol("E3-usage", f"{CLI}:{fname}", "exit(USAGE_ERROR)", site(fn), "missing-file check does not exit")
        for c in exits:
            ctx.check(c.args and src(c.args[0]) == "USAGE_ERROR", "E3-usage", f"{CLI}:{fname}", "exit(USAGE_ERROR)", site(c),
                      f"a missing grammar/constraint must end with USAGE_ERROR (2), found exit({src(c.args[0]) if c.args else ''})", "exits with USAGE_ERROR")
            fs = facts(c)
            key = "args.grammar" if "grammar" in fname else "args.constraint"
            ctx.check(has_fact(fs, key, False), "E3-usage", f"{CLI}:{fname}", f"only when {key} is missing", site(c),
                      f"the usage exit is not conditioned on `not {key}` and no matching file", "conditioned on the missing argument")
    fn = ctx.repo.func(CLI, "get_input_string", "C19.E3")
    exits = [c for c in calls_in(fn) if call_name(c) in ("sys.exit", "exit")]
    if len(exits) != 1:
        raise Unrecognised("C19.E3", f"{CLI}:get_input_string", "expected exactly one exit site")
    c = exits[0]
    ctx.check(c.args and src(c.args[0]) == "USAGE_ERROR" and has_fact(facts(c), "len(possible_inputs) == 1", False), "E3-usage", f"{CLI}:get_input_string",
              "exit(USAGE_ERROR) when not exactly one input", site(c), "a missing/ambiguous input must end with USAGE_ERROR under `len(possible_inputs) != 1`", "exits with USAGE_ERROR")
    # every command that needs grammar+constraint calls both ensure_* before parsing
    for cmd in ("do_check", "repair", "mutate"):
        f = ctx.repo.func(CLI, cmd, "C19.E3")
        order = [call_name(c) for c in calls_in(f, include_nested=False) if call_name(c) in ("ensure_grammar_present", "ensure_constraint_present", "parse_grammar", "parse_constraint")]
        ok = order[:2] == ["ensure_grammar_present", "ensure_constraint_present"] or (set(order[:2]) == {"ensure_grammar_present", "ensure_constraint_present"})
        ctx.check(ok and "parse_grammar" in order and "parse_constraint" in order, "E3-order", f"{CLI}:{cmd}", "presence checks before parsing", site(f),
                  f"{cmd} must check presence of grammar and constraint before parsing them (found order {order})", "presence checked first")
    f = ctx.repo.func(CLI, "solve", "C19.E3")
    order = [call_name(c) for c in calls_in(f, include_nested=False) if call_name(c) in ("ensure_grammar_present", "parse_grammar")]
    ctx.check(order[:1] == ["ensure_grammar_present"], "E3-order", f"{CLI}:solve", "grammar presence checked first", site(f), f"found {order}", "presence checked first")


def rule_e4(ctx):
    fn = ctx.repo.func(CLI, "parse_constraint", "C19.E4")
    construct = f"{CLI}:parse_constraint"
    inits = [s for s in walk_local(fn) if isinstance(s, ast.Assign) and src(s.targets[0]) == "constraint"]
    ctx.check(len(inits) == 1 and src(inits[0].value) == "true()", "E4-conjunction", construct, "constraint = true()", site(fn),
              f"accumulator must start as true(), found {[src(i.value) for i in inits]}", "neutral element of conjunction")
    augs = [s for s in ast.walk(fn) if isinstance(s, ast.AugAssign) and src(s.target) == "constraint"]
    if len(augs) < 2:
        raise Unrecognised("C19.E4", construct, "expected >= 2 `constraint &= parse_isla(...)` updates (arguments and files)")
    for a in augs:
        ctx.check(isinstance(a.op, ast.BitAnd) and isinstance(a.value, ast.Call) and call_name(a.value) == "parse_isla", "E4-conjunction", construct, src(a)[:50], site(a),
                  f"all given constraints are combined by conjunction; found operator {type(a.op).__name__}", "combined with &")
    rets = [s for s in walk_local(fn) if isinstance(s, ast.Return)]
    ctx.check(len(rets) == 1 and src(rets[0].value) == "constraint", "E4-conjunction", construct, "return constraint", site(rets[0]) if rets else site(fn),
              "the accumulated conjunction must be returned", "returns the accumulator")
    # both sources are iterated completely (for loops over constraint_arg and .isla files)
    fors = [s for s in ast.walk(fn) if isinstance(s, ast.For)]
    iters = [src(f.iter) for f in fors]
    ok = any(i == "constraint_arg" for i in iters) and any("endswith('.isla')" in i for i in iters)
    ctx.check(ok, "E4-conjunction", construct, "all --constraint args and all .isla files", site(fn), f"constraint sources iterated: {iters}", "both sources iterated")
    for f in fors:
        brk = [n for n in ast.walk(f) if isinstance(n, (ast.Break, ast.Continue))]
        ctx.check(not brk, "E4-conjunction", construct, f"no break/continue in loop over {src(f.iter)[:40]}", site(f), "a break/continue skips constraints", "every element is conjoined")


def rule_e5(ctx):
    fn = ctx.repo.func(CLI, "do_check", "C19.E5")
    construct = f"{CLI}:do_check"
    rets = [s for s in walk_local(fn) if isinstance(s, ast.Return)]
    zero = []
    for r in rets:
        if not (isinstance(r.value, ast.Tuple) and len(r.value.elts) == 3 and isinstance(r.value.elts[0], ast.Constant)):
            raise Unrecognised("C19.E5", construct, f"return {src(r.value)[:50]} is not (code, msg, tree)")
        code = r.value.elts[0].value
        ctx.check(code in (0, 1), "E5-check-code", construct, f"return code {code}", site(r), f"do_check must return 0 or 1, found {code}", "0/1")
        if code == 0:
            zero.append(r)
    if len(zero) != 1:
        raise Unrecognised("C19.E5", construct, f"expected exactly one `return 0, ...` (found {len(zero)})")
    r0 = zero[0]
    # must be a top-level statement directly after the try that raises SemanticError when check fails
    if r0 not in fn.body:
        raise Unrecognised("C19.E5", construct, "`return 0` is not a top-level statement")
    # the nearest preceding try statement (statements without control flow in between do not matter)
    idx0 = fn.body.index(r0) - 1
    while idx0 >= 0 and isinstance(fn.body[idx0], (ast.Assign, ast.AnnAssign, ast.Expr)) and not any(isinstance(x, (ast.Yield, ast.Await)) for x in ast.walk(fn.body[idx0])):
        idx0 -= 1
    prev = fn.body[idx0] if idx0 >= 0 else None
    ok = False
    why = "statement before `return 0` is not the try around solver.check"
    tree_var = None
    if isinstance(prev, ast.Try):
        gate = None
        for s in ast.walk(prev):
            if isinstance(s, ast.If) and isinstance(s.test, ast.UnaryOp) and isinstance(s.test.op, ast.Not) and isinstance(s.test.operand, ast.Call) and (call_name(s.test.operand) or "").endswith(".check"):
                if s.body and isinstance(s.body[0], ast.Raise) and not s.orelse:
                    gate = s
        handlers_ok = all(all(isinstance(x, ast.Return) and isinstance(x.value, ast.Tuple) and isinstance(x.value.elts[0], ast.Constant) and x.value.elts[0].value == 1 for x in h.body[-1:]) for h in prev.handlers)
        names = [dotted(h.type) for h in prev.handlers if h.type is not None]
        if gate is not None and gate in prev.body and handlers_ok and not prev.orelse and not prev.finalbody:
            exc = dotted(gate.body[0].exc.func) if isinstance(gate.body[0].exc, ast.Call) else dotted(gate.body[0].exc)
            if exc in names:
                ok = True
                tree_var = src(gate.test.operand.args[0]) if gate.test.operand.args else None
            else:
                why = f"the gate raises {exc} which no handler of the try converts into a non-zero code"
        else:
            why = "try around solver.check has no `if not solver.check(tree): raise ...` gate with handlers returning code 1"
    ctx.check(ok, "E5-check-gate", construct, "return 0 only after solver.check(tree)", site(r0),
              f"exit code 0 must be dominated by a successful solver.check: {why}", "code 0 only if solver.check(tree) held")
    # statements skipped between the try and `return 0` must not re-bind the checked tree
    between = fn.body[idx0 + 1: fn.body.index(r0)]
    rebinding = [st for st in between for x in ast.walk(st) if isinstance(x, ast.Name) and isinstance(x.ctx, ast.Store) and x.id == tree_var]
    ctx.check(not rebinding, "E5-check-gate", construct, "checked tree not re-bound before it is returned", site(r0), f"`{tree_var}` is assigned again between the check and `return 0`", "same binding")
    # the success tuple carries the checked tree
    ctx.check(tree_var is not None and src(r0.value.elts[2]) == f"Some({tree_var})", "E5-check-gate", construct, "returns the checked tree", site(r0),
              f"the tree handed to `parse` output must be the one that was checked ({tree_var}), found {src(r0.value.elts[2])}", "same tree")
    # the solver is built from the parsed grammar and constraint
    mk = [c for c in calls_in(fn) if call_name(c) == "ISLaSolver"]
    if len(mk) != 1:
        raise Unrecognised("C19.E5", construct, "expected one ISLaSolver(...) construction")
    a = [src(x) for x in mk[0].args[:2]]
    ctx.check(a == ["grammar", "constraint"], "E5-check-gate", construct, "ISLaSolver(grammar, constraint)", site(mk[0]), f"solver built from {a}", "solver built from the parsed grammar and the conjoined constraint")
    # `tree` comes from get_input_string's Success
    ok = any(isinstance(s, ast.Match) and call_name(s.subject) == "get_input_string" for s in fn.body)
    ctx.check(ok, "E5-check-gate", construct, "tree from get_input_string", site(fn), "input tree must come from get_input_string", "input obtained via get_input_string")
    # unparsable input -> 1
    for s in fn.body:
        if isinstance(s, ast.Match):
            for case in s.cases:
                if src(case.pattern).startswith("Failure"):
                    rr = [x for x in case.body if isinstance(x, ast.Return)]
                    ctx.check(bool(rr) and rr[0].value.elts[0].value == 1, "E5-check-code", construct, "unparsable input -> 1", site(case.body[0]), "an input outside the grammar must yield code 1", "code 1")
    # check(): exits with do_check's code
    chk = ctx.repo.func(CLI, "check", "C19.E5")
    ex = [c for c in calls_in(chk) if call_name(c) in ("sys.exit", "exit")]
    ctx.check(len(ex) == 1 and ex[0].args and src(ex[0].args[0]) == "code", "E5-check-exit", f"{CLI}:check", "sys.exit(code)", site(chk), "check must exit with do_check's code", "exits with do_check's code")
    # parse(): non-zero code exits with that code before anything is written
    prs = ctx.repo.func(CLI, "parse", "C19.E5")
    ex = [c for c in calls_in(prs, include_nested=False) if call_name(c) in ("sys.exit", "exit")]
    ctx.check(len(ex) == 1 and has_fact(facts(ex[0]), "code") and src(ex[0].args[0]) == "code", "E5-check-exit", f"{CLI}:parse", "if code: sys.exit(code)", site(prs), "parse must exit with do_check's non-zero code", "exits with do_check's code")
    # inventory: declared exception of solver.check without handler
    ctx.note("E5-unknown-result", construct, "UnknownResultError", site(prev), "solver.check may raise UnknownResultError (UNKNOWN verdict); do_check has no handler for it - no failing input known, inventoried only")


def _may_raise(fn: ast.AST) -> List[str]:
    """Shallow may-raise summary of a function body (including nested defs)."""
    out = []
    params = set()
    for n in ast.walk(fn):
        if isinstance(n, (ast.FunctionDef, ast.Lambda)):
            params |= {a.arg for a in n.args.args}
    for n in ast.walk(fn):
        if isinstance(n, ast.Assert):
            out.append("assert")
        elif isinstance(n, ast.Raise):
            out.append("raise")
        elif isinstance(n, ast.Assign) and isinstance(n.targets[0], (ast.Tuple, ast.List)) and isinstance(n.value, ast.Name) and n.value.id in params:
            out.append(f"unpack {src(n.targets[0])} = {n.value.id}")
    return out


def rule_e6(ctx):
    fn = ctx.repo.func(CLI, "get_input_string", "C19.E6")
    construct = f"{CLI}:get_input_string"
    # (a) indexing of the input text
    n_sub = 0
    for n in walk_local(fn):
        if isinstance(n, ast.Subscript) and isinstance(n.ctx, ast.Load) and src(n.value) == "inp" and not isinstance(n.slice, ast.Slice):
            n_sub += 1
            fs = facts(n)
            ok = has_fact(fs, "inp") or any(f.positive and f.text in ("len(inp) > 0", "len(inp) >= 1", "inp != ''") for f in fs)
            ctx.check(ok, "E6-input-total", construct, f"IndexError: {src(n)}", site(n),
                      "the input text may be empty (empty input file): indexing it raises IndexError and the command ends with a traceback", "guarded by non-emptiness")
    if n_sub == 0:
        ctx.ok("E6-input-total", construct, "no unguarded index on the input text", site(fn), "input text only sliced / tested with str methods")
    # possible_inputs[0] is guarded by the length test
    for n in walk_local(fn):
        if isinstance(n, ast.Subscript) and src(n.value) == "possible_inputs":
            ctx.check(has_fact(facts(n), "len(possible_inputs) == 1"), "E6-input-total", construct, src(n), site(n), "possible_inputs[0] without the exactly-one test", "dominated by len(possible_inputs) == 1")
    # (b) pipeline stages
    rets = [s for s in fn.body if isinstance(s, ast.Return)]
    if len(rets) != 1:
        raise Unrecognised("C19.E6", construct, "expected a single return of the parsing pipeline")
    stages = []
    cur = rets[0].value
    while isinstance(cur, ast.Call) and isinstance(cur.func, ast.Attribute) and cur.func.attr in ("map", "bind", "lash", "alt"):
        stages.append((cur.func.attr, cur.args[0], cur))
        cur = cur.func.value
    head = cur
    if not (isinstance(head, ast.Call) and isinstance(head.func, ast.Call) and call_name(head.func) == "safe"):
        raise Unrecognised("C19.E6", construct, f"pipeline does not start with safe(...)(): {src(head)[:60]}")
    ctx.ok("E6-pipeline", construct, "head safe(...)()", site(head), "first stage runs inside safe")
    # order: a JSON derivation tree is recognised first, parsing the text is the fallback (documented: 'If an input is recognized as a
    # valid derivation tree in JSON format, it is treated as such and not parsed')
    def reaches(e, name, depth=0):
        for x in ast.walk(e):
            if isinstance(x, ast.Call) and call_name(x) == name:
                return True
            if isinstance(x, ast.Name) and depth < 2:
                for d in ast.walk(fn):
                    if isinstance(d, ast.FunctionDef) and d.name == x.id and d is not fn and reaches(d, name, depth + 1):
                        return True
        return False

    head_json = reaches(head.func.args[0], "json.loads")
    head_text = any(isinstance(x, ast.Attribute) and x.attr == "parse" for x in ast.walk(head.func.args[0]))
    ctx.check(head_json and not head_text, "E6-json-first", construct, "JSON tree recognised before the text is parsed", site(head),
              "the input is parsed as plain text first and only read as a JSON derivation tree if that fails: a tree file written by `isla parse` whose JSON text is itself a word of the "
              "grammar is read back as a different tree", "JSON first, text as fallback")
    m = module_of(fn)
    dt = ctx.repo.module(DT, "C19.E6")
    hp = ctx.repo.module(HELPERS, "C19.E6")
    for kind, f, call in reversed(stages):
        key = f".{kind}({src(f)[:50]})"
        if kind in ("lash", "alt"):
            # recovery stage: must itself be safe
            inner_safe = any(call_name(c) == "safe" for c in calls_in(f)) if not isinstance(f, ast.Name) else False
            calls = [c for c in calls_in(f) if call_name(c) not in ("safe",)]
            ctx.check(inner_safe or not calls, "E6-pipeline", construct, key, site(call), "the recovery stage parses the input outside safe(...): a SyntaxError would escape", "recovery stage wrapped in safe")
            continue
        # map/bind: function applied to input-derived data, exceptions NOT caught
        effects: List[str] = []
        targets = []
        if isinstance(f, ast.Lambda):
            for c in calls_in(f):
                targets.append(call_name(c))
        else:
            targets.append(dotted(f))
        for t in targets:
            if t is None:
                continue
            short = t.split(".")[-1]
            cand = dt.get(f"DerivationTree.{short}") or hp.get(short) or m.get(short)
            if cand is not None and t not in ("graph",):
                effects += [f"{t}: {e}" for e in _may_raise(cand)]
        ctx.check(not effects, "E6-pipeline", construct, key, site(call),
                  f"a `.{kind}(f)` stage does not catch exceptions of f, and f may raise on input-derived data ({sorted(set(effects))[:4]}): e.g. the input text `123` "
                  "is valid JSON but not a parse tree, so the command ends with a TypeError traceback instead of parsing the text",
                  "stage function cannot raise")


DECODE_CATCHERS = {"UnicodeDecodeError", "UnicodeError", "ValueError", "Exception", "BaseException"}


def rule_e10(ctx):
    """get_input_string: the text of the input file is the input except for (at most) ONE trailing newline, and a JSON tree is accepted only if the grammar
    graph says it is a valid derivation tree."""
    fn = ctx.repo.func(CLI, "get_input_string", "C19.E10")
    c = f"{CLI}:get_input_string"
    binds = [a for a in walk_local(fn) if isinstance(a, ast.Assign) and src(a.targets[0]) == "inp"]
    norm = [a for a in binds if "inp" in {x.id for x in ast.walk(a.value) if isinstance(x, ast.Name)}]
    for a in norm:
        v = a.value
        one_newline = isinstance(v, ast.IfExp) and src(v.body) == "inp[:-1]" and src(v.test) == "inp.endswith('\\n')" and src(v.orelse) == "inp"
        strips = [x for x in ast.walk(v) if isinstance(x, ast.Call) and isinstance(x.func, ast.Attribute) and x.func.attr in ("strip", "rstrip", "lstrip", "replace", "splitlines", "split")]
        if one_newline:
            ctx.ok("E10-input-text", c, "file text minus exactly one trailing newline", site(a), "inp[:-1] if inp.endswith('\\n') else inp")
        elif strips:
            ctx.viol("E10-input-text", c, "file text minus exactly one trailing newline", site(a),
                     f"the input text is normalised with `{src(strips[0])[:50]}`, which can remove more than the single newline appended when the file was written: for a grammar whose words end "
                     "in a newline (or contain the stripped characters at the end) the word printed by `isla solve` is no longer what `isla check` checks")
        else:
            raise Unrecognised("C19.E10", c, f"normalisation `{src(a)[:70]}` of the input text not understood")
    pj = next((d for d in ast.walk(fn) if isinstance(d, ast.FunctionDef) and d.name == "parse_json_tree"), None)
    if pj is None:
        raise Unrecognised("C19.E10", c, "parse_json_tree not found")
    rets = [r for r in walk_local(pj) if isinstance(r, ast.Return)]
    if len(rets) != 1 or not (isinstance(rets[0].value, ast.Call) and call_name(rets[0].value) == "eassert" and len(rets[0].value.args) == 2):
        raise Unrecognised("C19.E10", c, "parse_json_tree does not return eassert(tree, <validity>)")
    cond = rets[0].value.args[1]
    valid_calls = [x for x in ast.walk(cond) if isinstance(x, ast.Call) and isinstance(x.func, ast.Attribute) and x.func.attr == "tree_is_valid" and x.args and src(x.args[0]) == src(rets[0].value.args[0])]
    ctx.check(bool(valid_calls), "E10-json-tree-valid", c, "a JSON tree is accepted only if GrammarGraph.tree_is_valid(tree)", site(cond),
              f"the JSON tree is accepted under `{' '.join(src(cond).split())[:80]}` without the grammar graph's validity check: a tree with known symbols but an expansion the grammar does not have "
              "makes `isla check` exit 0 for an input outside the language", "graph().tree_is_valid(tree)")
    if valid_calls:
        recv = valid_calls[0].func.value
        g = next((d for d in ast.walk(fn) if isinstance(d, ast.FunctionDef) and d.name == "graph"), None)
        ok = isinstance(recv, ast.Call) and call_name(recv) == "graph" and g is not None and any(isinstance(r, ast.Return) and src(r.value) == "gg.GrammarGraph.from_grammar(grammar)" for r in ast.walk(g))
        ctx.check(ok, "E10-json-tree-valid", c, "validity judged against the given grammar", site(recv), "graph() must be GrammarGraph.from_grammar(grammar)", "graph of the reference grammar")
    mk = [a for a in walk_local(pj) if isinstance(a, ast.Assign) and src(a.targets[0]) == "tree"]
    ok = len(mk) == 1 and src(mk[0].value) == "DerivationTree.from_parse_tree(json.loads(inp))"
    ctx.check(ok, "E10-json-tree-valid", c, "tree read from the input text", site(pj), f"tree is `{src(mk[0].value) if mk else None}`", "from_parse_tree(json.loads(inp))")


def rule_e7(ctx):
    """Reading a user-supplied file decodes it (UTF-8): every `.read()` of a file handle in cli.py lies in a try whose handler catches
    UnicodeDecodeError (or a base class) and ends in sys.exit(<documented code>) - otherwise a binary / Latin-1 file ends the command with a traceback."""
    m = ctx.repo.module(CLI, "C19.E7")
    n = 0
    for q, fn in m.functions():
        for c in calls_in(fn, include_nested=False):
            if not (isinstance(c.func, ast.Attribute) and c.func.attr in ("read", "read_text", "readlines") and not c.args):
                continue
            recv = src(c.func.value)
            if recv.startswith("pathlib.Path(") and "islarc" in src(fn):
                ctx.note("E7-decode-guard", f"{CLI}:{q}", f"{src(c)[:50]}", site(c), "configuration file (.islarc), not an input file of the property")
                continue
            n += 1
            construct = f"{CLI}:{q}"
            handler = None
            cur, p_ = c, parent(c)
            while p_ is not None and cur is not fn:
                if isinstance(p_, ast.Try) and cur in p_.body:
                    for h in p_.handlers:
                        names = {"BaseException"} if h.type is None else {dotted(e) for e in (h.type.elts if isinstance(h.type, ast.Tuple) else [h.type])}
                        if names & DECODE_CATCHERS:
                            handler = h
                            break
                if handler:
                    break
                cur, p_ = p_, parent(p_)
            if handler is None:
                ctx.viol("E7-decode-guard", construct, f"{src(c)[:50]} guarded against UnicodeDecodeError", site(c),
                         "a user-supplied file is read (and decoded as UTF-8) outside any try that catches UnicodeDecodeError: `isla check -g g.bnf input.bin` with a byte 0xff in the file "
                         "ends with an uncaught UnicodeDecodeError traceback instead of an error message and exit code")
                continue
            ends_in_exit = bool(handler.body) and isinstance(handler.body[-1], ast.Expr) and isinstance(handler.body[-1].value, ast.Call) and call_name(handler.body[-1].value) in ("sys.exit", "exit")
            ctx.check(ends_in_exit, "E7-decode-guard", construct, f"{src(c)[:50]} guarded against UnicodeDecodeError", site(c), "the handler does not end in sys.exit(...)", "handler prints and exits")
    if n < 3:
        raise Unrecognised("C19.E7", CLI, f"only {n} file reads found (expected >= 3: read_files, parse_constraint, parse_grammar)")
    ctx.inventory["file_reads"] = n
    # positioning calls on user-supplied streams: `-` / /dev/stdin fed through a pipe is not seekable -> io.UnsupportedOperation (an OSError and ValueError)
    SEEK_CATCHERS = {"OSError", "IOError", "ValueError", "io.UnsupportedOperation", "UnsupportedOperation", "Exception", "BaseException"}

    def seek_sites(fn):
        own = {src(w.optional_vars) for w in ast.walk(fn) if isinstance(w, ast.withitem) and w.optional_vars is not None and isinstance(w.context_expr, ast.Call) and call_name(w.context_expr) == "open"}
        # files the command opened itself (regular files on disk) are seekable; only streams handed in by the user are at stake
        return [c for c in calls_in(fn, include_nested=False) if isinstance(c.func, ast.Attribute) and c.func.attr in ("seek", "tell", "truncate") and src(c.func.value) not in own]

    n_seek = 0
    for q, fn in m.functions():
        for c in seek_sites(fn):
            n_seek += 1
            handler = None
            cur, p_ = c, parent(c)
            while p_ is not None and cur is not fn and handler is None:
                if isinstance(p_, ast.Try) and cur in p_.body:
                    for h in p_.handlers:
                        names = {"BaseException"} if h.type is None else {dotted(e) for e in (h.type.elts if isinstance(h.type, ast.Tuple) else [h.type])}
                        if names & SEEK_CATCHERS:
                            handler = h
                            break
                cur, p_ = p_, parent(p_)
            ctx.check(handler is not None, "E7-seekable", f"{CLI}:{q}", f"{src(c)[:50]} guarded against io.UnsupportedOperation", site(c),
                      f"`{src(c)[:50]}` is applied to a user-supplied stream: an input given as `-` or /dev/stdin through a pipe is not seekable, the call raises io.UnsupportedOperation "
                      "(not a UnicodeDecodeError) and `isla solve ... | isla check g.bnf c.isla -` ends with a traceback", "handler for OSError / ValueError")
    ctx.inventory["stream_positioning_calls"] = n_seek
    fx = ast.parse("def read_files(files):\n    try:\n        return {f.name: (f.seek(0), f.read())[1] for f in files}\n    except UnicodeDecodeError:\n        sys.exit(65)\n")
    if len(seek_sites(fx.body[0])) != 1:
        raise Unrecognised("C19.E7", "fixture", "positive fixture (seek on a stream) did not fire")


def _validated_by(fn, expr, validator: str, depth=0):
    """Does every value the expression `expr` (inside function `fn`) can produce pass through `validator(...)`?  Follows Maybe chains (.map/.bind/.bind_optional with a
    function argument), conditional expressions and local helper functions.  Returns (ok, offending node or None); raises KeyError for shapes it does not know."""
    if depth > 5:
        raise KeyError("depth")
    if isinstance(expr, ast.Call) and isinstance(expr.func, ast.Attribute) and expr.func.attr in ("map", "bind", "bind_optional") and len(expr.args) == 1:
        ok, off = _applies_validator(fn, expr.args[0], validator, depth)
        if ok:
            return True, None
        # maybe an earlier link of the chain validates
        try:
            ok2, _ = _validated_by(fn, expr.func.value, validator, depth + 1)
        except KeyError:
            ok2 = False
        return (True, None) if ok2 else (False, off)
    if isinstance(expr, ast.Call) and call_name(expr) == validator:
        return True, None
    if isinstance(expr, ast.Call) and isinstance(expr.func, ast.Attribute) and expr.func.attr in ("from_optional", "from_value"):
        return False, expr
    raise KeyError(src(expr)[:60])


def _applies_validator(fn, f_expr, validator: str, depth):
    """Is `f_expr` (a function value) the validator, or a local function / lambda all of whose results are validated?"""
    if isinstance(f_expr, ast.Name) and f_expr.id == validator:
        return True, None
    body_exprs = []
    if isinstance(f_expr, ast.Lambda):
        body_exprs = [f_expr.body]
    elif isinstance(f_expr, ast.Name):
        local = [n for n in ast.walk(fn) if isinstance(n, ast.FunctionDef) and n.name == f_expr.id]
        if len(local) != 1:
            raise KeyError(f_expr.id)
        body_exprs = [r.value for r in walk_local(local[0]) if isinstance(r, ast.Return) and r.value is not None]
    else:
        raise KeyError(src(f_expr)[:40])

    def branches(e):
        return branches(e.body) + branches(e.orelse) if isinstance(e, ast.IfExp) else [e]

    for e in body_exprs:
        for b in branches(e):
            if not (isinstance(b, ast.Call) and call_name(b) == validator):
                return False, b
    return bool(body_exprs), None


def rule_e12(ctx):
    """Python extension files: whatever the file's `grammar` symbol yields - the value of a variable OR the result of calling a function - is checked to be a
    Dict[str, List[str]] (exit 65 with a message otherwise) before anything else sees it; likewise `predicates`."""
    f = ctx.repo.func(CLI, "process_python_extension", "C19.E12")
    c = f"{CLI}:process_python_extension"
    for var, validator, what in (("grammar", "assert_is_valid_grammar", "grammar"), ("predicates", "assert_is_set_of_predicates", "predicate set")):
        asg = [a for a in walk_local(f) if isinstance(a, ast.Assign) and len(a.targets) == 1 and src(a.targets[0]) == var]
        if len(asg) != 1:
            raise Unrecognised("C19.E12", c, f"assignment of `{var}` not found")
        try:
            ok, off = _validated_by(f, asg[0].value, validator)
        except KeyError as e:
            raise Unrecognised("C19.E12", c, f"construction of `{var}` not understood ({e})")
        ctx.check(ok, "E12-extension-validated", c, f"every {what} taken from the extension file passes {validator}", site(off if off is not None else asg[0]),
                  f"`{' '.join(src(off).split())[:60] if off is not None else var}` reaches `{var}` without {validator}: a malformed {what} returned by the extension file's function is not "
                  "rejected with exit code 65 and a message - later stages fail with a misleading verdict (`input could not be parsed`, exit 1) or an uncaught exception",
                  f"via {validator}")
    val = [n for n in ast.walk(f) if isinstance(n, ast.FunctionDef) and n.name == "assert_is_valid_grammar"]
    if len(val) != 1:
        raise Unrecognised("C19.E12", c, "assert_is_valid_grammar not found")
    t = " ".join(src(val[0]).split())
    ok = "isinstance(maybe_grammar, dict)" in t and "isinstance(key, str)" in t and "isinstance(expansions, list)" in t and "isinstance(expansion, str)" in t and "sys.exit(DATA_FORMAT_ERROR)" in t
    if not ok:
        raise Unrecognised("C19.E12", f"{c}.assert_is_valid_grammar", "validator body not in the recognised shape")
    ctx.ok("E12-extension-validated", f"{c}.assert_is_valid_grammar", "dict of str -> list of str, else exit 65", site(val[0]), "four isinstance tests")


def rule_e13(ctx):
    """`isla solve` writes each solution followed by exactly ONE line break that is not part of it (print's default end); `isla check` / `parse` remove exactly one
    trailing line break from an input file (E10).  The two are a writer/reader pair: an `end` that depends on the solution text drops the separator for solutions that end
    in a line break themselves, and the reader then strips a line break that belongs to the word."""
    f = ctx.repo.func(CLI, "solve", "C19.E13")
    c = f"{CLI}:solve"
    prints = [x for x in calls_in(f) if call_name(x) == "print" and any(k.arg == "file" and src(k.value) == "stdout" for k in x.keywords) and x.args and isinstance(x.args[0], ast.Name)]
    sol = [p_ for p_ in prints if p_.args[0].id == "result"]
    if len(sol) != 1:
        raise Unrecognised("C19.E13", c, "print(result, ..., file=stdout) not found")
    end = next((k.value for k in sol[0].keywords if k.arg == "end"), None)
    if end is None or (isinstance(end, ast.Constant) and end.value == "\n"):
        ctx.ok("E13-solution-separator", c, "every printed solution is followed by one separator line break", site(sol[0]), "print's default end")
    elif isinstance(end, ast.Constant):
        ctx.viol("E13-solution-separator", c, "every printed solution is followed by one separator line break", site(sol[0]), f"solutions are printed with end={end.value!r}")
    elif any(isinstance(x, ast.Name) and x.id == "result" for x in ast.walk(end)):
        ctx.viol("E13-solution-separator", c, "every printed solution is followed by one separator line break", site(sol[0]),
                 f"the separator depends on the solution text (`end={' '.join(src(end).split())[:50]}`): a solution that itself ends in a line break is written without separator, and "
                 "`isla check` - which removes one trailing line break from an input file - then strips a character of the word (solve > f; check f answers 1)")
    else:
        raise Unrecognised("C19.E13", c, f"end={src(end)[:40]} not understood")


def rule_e8(ctx):
    """A grammar that is syntactically fine but uses a nonterminal without rules (or has no <start>) is malformed: parse_grammar must reject it inside its
    try (-> exit 65); otherwise GrammarGraph.from_grammar fails an assertion later and the command ends in a traceback."""
    fn = ctx.repo.func(CLI, "parse_grammar", "C19.E8")
    c = f"{CLI}:parse_grammar"
    tries = [n for n in fn.body if isinstance(n, ast.Try)]
    if len(tries) != 1:
        raise Unrecognised("C19.E8", c, "top-level try not found")
    t = tries[0]
    val_calls = [x for st in t.body for x in calls_in(st) if call_name(x) in ("def_used_nonterminals", "is_valid_grammar") and x.args and src(x.args[0]) == "grammar"]
    top_val = [st for st in t.body if any(call_name(x) in ("def_used_nonterminals", "is_valid_grammar") for x in calls_in(st))]
    if not val_calls:
        ctx.viol("E8-grammar-closed", c, "used nonterminals are defined (incl. <start>)", site(t),
                 "the assembled grammar is returned without checking that every used nonterminal (and <start>) has rules: `isla solve` with the grammar `<start> ::= <b>` ends with an uncaught "
                 "AssertionError ('Grammar has no rules for <b>') from GrammarGraph.from_grammar instead of exit code 65")
        return
    if not top_val:
        raise Unrecognised("C19.E8", c, "validation call is not a top-level statement of the try body (must apply to both the -g and the file branch)")
    idx = t.body.index(top_val[0])
    rejecting = [st for st in t.body[idx:] if isinstance(st, ast.If) and any(isinstance(x, ast.Raise) or (isinstance(x, ast.Call) and call_name(x) in ("sys.exit", "exit")) for x in ast.walk(st))]
    ctx.check(bool(rejecting), "E8-grammar-closed", c, "used nonterminals are defined (incl. <start>)", site(top_val[0]), "the validation result does not lead to a raise/exit inside the try", "raise inside the try -> exit 65")
    rets = [r for r in walk_local(fn) if isinstance(r, ast.Return)]
    ok = len(rets) == 1 and src(rets[0].value) == "grammar" and rets[0] is fn.body[-1]
    ctx.check(ok, "E8-grammar-closed", c, "the validated grammar is what is returned", site(fn), "parse_grammar must return `grammar` after the try", "returns grammar")
    # the helper counts the start symbol as used
    H = "src/isla/helpers.py"
    du = ctx.repo.func(H, "def_used_nonterminals", "C19.E8")
    ok = any(isinstance(a, ast.Assign) and src(a.targets[0]) == "used_nonterminals" and src(a.value) == "{_start_symbol}" for a in walk_local(du))
    ctx.check(ok, "E8-grammar-closed", f"{H}:def_used_nonterminals", "<start> counts as used", site(du), "used_nonterminals must start from {_start_symbol}", "start symbol required")


def rule_e9(ctx):
    """do_check (check / find / parse): whatever constraint evaluation raises is turned into a non-zero result instead of escaping as a traceback."""
    fn = ctx.repo.func(CLI, "do_check", "C19.E9")
    c = f"{CLI}:do_check"
    chk = [x for x in calls_in(fn, include_nested=False) if call_name(x) == "solver.check"]
    if len(chk) != 1:
        raise Unrecognised("C19.E9", c, f"expected one solver.check call (found {len(chk)})")
    h = _try_with_exception_handler(chk[0], fn)
    if h is None:
        ctx.viol("E9-check-exceptions", c, "solver.check(tree) inside try/except Exception", site(chk[0]),
                 "an exception raised while evaluating the constraint (e.g. the assertion in level_check for `level(\"XX\", ...)`, or UnknownResultError) escapes do_check: "
                 "`isla check` ends with an uncaught traceback")
        return
    rets = [r for r in ast.walk(h) if isinstance(r, ast.Return)]
    ok = bool(rets) and all(isinstance(r.value, ast.Tuple) and isinstance(r.value.elts[0], ast.Constant) and r.value.elts[0].value == 1 and src(r.value.elts[2]) == "Nothing" for r in rets)
    exits = [x for x in calls_in(h) if call_name(x) in ("sys.exit", "exit")]
    ok = ok or (bool(exits) and all(x.args and src(x.args[0]) in ("1", "DATA_FORMAT_ERROR") for x in exits))
    ctx.check(ok, "E9-check-exceptions", c, "handler answers with a non-zero code and no tree", site(h), "the generic handler must return (1, <message>, Nothing)", "(1, message, Nothing)")
    mk = [x for x in calls_in(fn, include_nested=False) if call_name(x) == "ISLaSolver"]
    for x in mk:
        ctx.check(_try_with_exception_handler(x, fn) is not None, "E9-check-exceptions", c, "ISLaSolver(...) construction inside the same guard", site(x), "solver construction can raise for a constraint/grammar mismatch", "guarded")


def run(ctx) -> str:
    ctx.guarded("E9", lambda: rule_e9(ctx))
    ctx.guarded("E10", lambda: rule_e10(ctx))
    ctx.guarded("E8", lambda: rule_e8(ctx))
    ctx.guarded("E12", lambda: rule_e12(ctx))
    ctx.guarded("E13", lambda: rule_e13(ctx))
    ctx.guarded("E7", lambda: rule_e7(ctx))
    ctx.guarded("E1", lambda: rule_e1(ctx))
    ctx.guarded("E2", lambda: rule_e2(ctx))
    ctx.guarded("E3", lambda: rule_e3(ctx))
    ctx.guarded("E4", lambda: rule_e4(ctx))
    ctx.guarded("E5", lambda: rule_e5(ctx))
    ctx.guarded("E6", lambda: rule_e6(ctx))
    ctx.assume("argparse handles option errors itself (exit 2); SystemExit is not an Exception subclass")
    return EXPLANATION
