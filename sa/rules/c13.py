"""C13 — Tree insertion yields valid trees keeping all original nodes and the new tree (gate-only)."""

from __future__ import annotations

import ast

from ..core import Unrecognised, call_name, calls_in, facts, has_fact, parent, site, src, walk_local, enclosing_def

EH = "src/isla/existential_helpers.py"

EXPLANATION = (
    "Weakest level (gate only) for C13 over insert_tree in src/isla/existential_helpers.py: decided: (I1) the result list is written only inside "
    "add_to_result, and every result.append(new_tree) is dominated by graph.tree_is_valid(new_tree) (validity), by "
    "all(new_tree.find_node(node.id) is not None for every node of in_tree) (all original nodes retained) and by new_tree.find_node(tree) is not None "
    "(inserted tree contained); insert_tree returns exactly that list; (I2) every insertion method's output reaches the result only through add_to_result; "
    "(I3) the three methods are invoked under their method-selection bits. NOT decided: that retained nodes keep their labels and that the root is "
    "unchanged (the retention gate compares ids), validity checking inside grammar_graph."
)


def rule_i1(ctx):
    f = ctx.repo.func(EH, "insert_tree", "C13.I1")
    c = f"{EH}:insert_tree"
    atr = next((n for n in ast.walk(f) if isinstance(n, ast.FunctionDef) and n.name == "add_to_result"), None)
    if atr is None:
        raise Unrecognised("C13.I1", c, "add_to_result not found")
    writes = []
    for x in calls_in(f):
        if isinstance(x.func, ast.Attribute) and src(x.func.value) == "result" and x.func.attr in ("append", "extend", "insert"):
            writes.append(x)
    for n in ast.walk(f):
        if isinstance(n, (ast.Assign, ast.AugAssign)):
            tg = n.targets if isinstance(n, ast.Assign) else [n.target]
            if any(src(t) == "result" for t in tg) and not (isinstance(n, ast.Assign) and src(n.value) == "[]") and enclosing_def(n) is f:
                writes.append(n)
    if not writes:
        raise Unrecognised("C13.I1", c, "no write to result found")
    for w in writes:
        inside = enclosing_def(w) is atr
        ctx.check(inside, "I1-result-gate", c, f"{src(w)[:40]} inside add_to_result", site(w), "the result list is written outside add_to_result, bypassing its validity/retention checks", "only add_to_result writes the result")
        if not inside or not isinstance(w, ast.Call):
            continue
        fs = facts(w, inherit_closure=False)
        ok_valid = has_fact(fs, "graph.tree_is_valid(new_tree)")
        ok_keep = any(f_.positive and f_.text.replace("\n", " ") == "all((new_tree.find_node(node.id) is not None for _, node in in_tree.paths()))" for f_ in fs)
        ok_contains = has_fact(fs, "new_tree.find_node(tree) is None", False) or any(f_.text == "new_tree.find_node(tree) is None" and not f_.positive for f_ in fs)
        # ... or through a local: tree_path = new_tree.find_node(tree); `tree_path is not None`
        tp = [a for a in walk_local(atr) if isinstance(a, ast.Assign) and src(a.targets[0]) == "tree_path" and src(a.value) == "new_tree.find_node(tree)"]
        if tp:
            ok_contains = ok_contains or has_fact(fs, "tree_path is None", False)
        # the inserted tree must be contained AS IT IS (only its open leaves may have been expanded): context addition re-inserts displaced subtrees and
        # could otherwise re-expand a closed node of the inserted tree (the node keeps the inserted tree's id, so the id test alone is satisfied)
        intact_texts = ("tree.is_prefix(new_tree.get_subtree(tree_path))", "tree.is_prefix(new_tree.get_subtree(new_tree.find_node(tree)))",
                        "new_tree.get_subtree(tree_path).structurally_equal(tree)")
        ok_intact = any(f_.positive and " ".join(f_.text.split()) in intact_texts for f_ in fs)
        ctx.check(ok_intact, "I1-result-gate", c, "append dominated by 'the inserted tree is contained unchanged (as a prefix)'", site(w),
                  "a result is accepted when a node with the inserted tree's id exists, whatever is below it: context addition can re-expand a closed (epsilon) node of the inserted tree - "
                  "inserting '{}' into '{}' for <s> ::= '{' <ss> '}', <ss> ::= '' | <s><ss> yields '{{}<ss>}' whose outer <s> carries the inserted tree's id", "dominated by tree.is_prefix(<subtree found>)")
        ctx.check(ok_valid, "I1-result-gate", c, "append dominated by graph.tree_is_valid(new_tree)", site(w), "an inserted tree is accepted without the validity check", "dominated")
        ctx.check(ok_keep, "I1-result-gate", c, "append dominated by 'every node of in_tree is still present'", site(w),
                  "an inserted tree is accepted without checking that all original nodes (by id, over in_tree.paths()) are retained", "dominated")
        ctx.check(ok_contains, "I1-result-gate", c, "append dominated by 'the inserted tree is contained'", site(w), "an inserted tree is accepted without containing the tree to insert", "dominated")
        ctx.check(src(w.args[0]) == "new_tree", "I1-result-gate", c, "the checked tree is the one appended", site(w), f"appends {src(w.args[0])}", "same object")
    rets = [r for r in walk_local(f) if isinstance(r, ast.Return)]
    ctx.check(len(rets) == 1 and src(rets[0].value) == "result", "I1-result-gate", c, "returns the gated list", site(f), f"returns {[src(r.value) for r in rets]}", "returns result")


def rule_i2(ctx):
    f = ctx.repo.func(EH, "insert_tree", "C13.I2")
    c = f"{EH}:insert_tree"
    want = {"compute_direct_embeddings": "DIRECT_EMBEDDING", "compute_self_embeddings": "SELF_EMBEDDING", "compute_context_additions": "CONTEXT_ADDITION"}
    seen = {}
    for x in calls_in(f, include_nested=False):
        nm = call_name(x)
        if nm in want:
            p = parent(x)
            ok = isinstance(p, ast.Call) and call_name(p) == "add_to_result"
            ctx.check(ok, "I2-methods-gated", c, f"{nm} -> add_to_result", site(x), f"the output of {nm} is not passed through add_to_result", "through the gate")
            bit = want[nm]
            ok = has_fact(facts(x), f"methods & {bit}")
            ctx.check(ok, "I3-method-bits", c, f"{nm} under methods & {bit}", site(x), f"{nm} runs although its method bit {bit} may be off (or under the wrong bit)", "under its own bit")
            # tree / in_tree passed in the right roles
            args = [src(a) for a in x.args]
            ok = "tree" in args and "in_tree" in args and args.index("tree") < args.index("in_tree")
            ctx.check(ok, "I2-methods-gated", c, f"{nm}(.., tree, in_tree, ..)", site(x), f"arguments {args}", "tree to insert before host tree")
            seen[nm] = True
    missing = set(want) - set(seen)
    if missing:
        raise Unrecognised("C13.I2", c, f"insertion methods not found: {sorted(missing)}")
    # constants are distinct bits
    m = ctx.repo.module(EH, "C13.I3")
    consts = m.constants()
    vals = {}
    for k in want.values():
        if k in consts and isinstance(consts[k], ast.Constant):
            vals[k] = consts[k].value
    ok = len(vals) == 3 and len(set(vals.values())) == 3 and all(v > 0 and (v & (v - 1)) == 0 for v in vals.values())
    ctx.check(ok, "I3-method-bits", f"{EH}:<module>", "three distinct single-bit flags", f"{EH}:0", f"method flags {vals}", "distinct powers of two")


def rule_i4(ctx):
    """compute_context_additions keeps only candidates that retain EVERY node of the host tree (the re-insertion it relies on is known to lose nodes)."""
    f = ctx.repo.func(EH, "compute_context_additions", "C13.I4")
    c = f"{EH}:compute_context_additions"
    rets = [r for r in walk_local(f) if isinstance(r, ast.Return) and isinstance(r.value, ast.ListComp)]
    if len(rets) != 1:
        raise Unrecognised("C13.I4", c, "filtered result comprehension not found")
    comp = rets[0].value
    cand = src(comp.elt)
    alls = [x for x in ast.walk(comp) if isinstance(x, ast.Call) and call_name(x) == "all" and x.args and isinstance(x.args[0], ast.GeneratorExp)
            and len(x.args[0].generators) == 1 and src(x.args[0].generators[0].iter) == "in_tree.paths()"]
    if not alls:
        raise Unrecognised("C13.I4", c, "no retention filter over in_tree.paths() in the result comprehension")
    for a in alls:
        g = a.args[0].generators[0]
        elt_ok = src(a.args[0].elt) == f"{cand}.find_node(node.id) is not None" and src(g.target) == "(_, node)"
        if not elt_ok:
            raise Unrecognised("C13.I4", c, f"retention condition `{src(a.args[0].elt)}` not understood")
        ctx.check(not g.ifs, "I4-context-addition-retention", c, "every node of in_tree.paths() must be found in the candidate", site(a),
                  f"the retention filter skips host nodes (`if {src(g.ifs[0]) if g.ifs else ''}`): a candidate that lost such a node (e.g. one of two epsilon-expanded occurrences of a nullable "
                  "nonterminal) passes the filter and reaches insert_tree's gate, which then fails instead of the candidate being discarded", "unfiltered quantification over all nodes")
    src_ok = any(isinstance(g.iter, ast.Name) and g.iter.id == "result" for g in comp.generators)
    ctx.check(src_ok, "I4-context-addition-retention", c, "candidates come from insert_trees(...)", site(comp), "filtered list is not the insert_trees result", "result of insert_trees")


def rule_i5(ctx):
    """wrap_in_tree_starting_in: the wrapper follows a NON-trivial derivation path and continues it through exactly one child per step."""
    f = ctx.repo.func(EH, "wrap_in_tree_starting_in", "C13.I5")
    c = f"{EH}:wrap_in_tree_starting_in"
    dp = [a for a in walk_local(f) if isinstance(a, ast.Assign) and src(a.targets[0]) == "derivation_path"]
    if len(dp) != 1:
        raise Unrecognised("C13.I5", c, "derivation_path binding not found")
    calls = [call_name(x) for x in calls_in(dp[0].value)]
    if "graph.shortest_non_trivial_path" in calls:
        ctx.ok("I5-wrapper-path", c, "derivation path is non-trivial", site(dp[0]), "graph.shortest_non_trivial_path(start_node, end_node)")
    elif "graph.shortest_path" in calls:
        ctx.viol("I5-wrapper-path", c, "derivation path is non-trivial", site(dp[0]),
                 "the wrapper path is graph.shortest_path(start, end): when the open leaf carries the same (recursive) nonterminal as the root of the tree to insert the path is the single node, "
                 "no wrapper is built and the result is a childless node that does not contain the inserted tree")
    else:
        raise Unrecognised("C13.I5", c, f"derivation path computed by {calls}")
    loops = [n for n in walk_local(f) if isinstance(n, ast.For) and "shortest_alt_for_path_nonterminal" in src(n.iter)]
    if len(loops) != 1:
        raise Unrecognised("C13.I5", c, "loop over the chosen alternative not found")
    lp = loops[0]
    tests = [n for n in lp.body if isinstance(n, ast.If)]
    if len(tests) != 1:
        raise Unrecognised("C13.I5", c, "continuation test not found")
    t = tests[0].test
    by_index = isinstance(t, ast.Compare) and isinstance(t.ops[0], ast.Eq) and {src(t.left), src(t.comparators[0])} == {"alt_idx", "idx_of_next_nonterminal"} and src(lp.iter) == "enumerate(shortest_alt_for_path_nonterminal)"
    by_symbol = isinstance(t, ast.Compare) and isinstance(t.ops[0], ast.Eq) and "next_nonterminal" in {src(t.left), src(t.comparators[0])}
    if by_index:
        ctx.ok("I5-wrapper-path", c, "exactly one child continues the path (selected by position)", site(t), "alt_idx == idx_of_next_nonterminal")
    elif by_symbol:
        ctx.viol("I5-wrapper-path", c, "exactly one child continues the path (selected by position)", site(t),
                 f"the continuing child is selected by symbol equality (`{src(t)}`): an expansion that mentions the next nonterminal twice (<pair> ::= <item>,<item>) gets two continuation children, "
                 "the second one a closed childless nonterminal - an invalid derivation tree")
    else:
        raise Unrecognised("C13.I5", c, f"continuation test `{src(t)}` not understood")
    idx = [a for a in walk_local(f) if isinstance(a, ast.Assign) and src(a.targets[0]) == "idx_of_next_nonterminal"]
    ok = len(idx) == 1 and src(idx[0].value).replace("\n", "").replace(" ", "") == "shortest_alt_for_path_nonterminal.index(next_nonterminal)"
    desc = [a for a in lp.body if False]
    nxt = [a for a in walk_local(f) if isinstance(a, ast.Assign) and src(a.targets[0]) == "curr_tree" and isinstance(a.value, ast.Subscript)]
    ok2 = len(nxt) == 1 and "".join(src(nxt[0].value).split()) in ("curr_tree[1][idx_of_next_nonterminal]", "curr_tree[1][shortest_alt_for_path_nonterminal.index(next_nonterminal)]")
    if not (ok2 and (ok or not by_index)):
        raise Unrecognised("C13.I5", c, "descent into the continuation child not in the recognised shape")
    ctx.ok("I5-wrapper-path", c, "descends into the continuation child", site(nxt[0]), "curr_tree[1][index of next nonterminal]")
    # open siblings: nonterminal siblings stay open (None), terminal siblings are closed leaves
    sib = [x for x in ast.walk(lp) if isinstance(x, ast.Tuple) and len(x.elts) == 2 and src(x.elts[1]) == "None if is_nonterminal(alt_symbol) else []"]
    ctx.check(len(sib) == 1 and src(sib[0].elts[0]) == "alt_symbol", "I5-wrapper-path", c, "siblings: nonterminals open, terminals closed", site(lp), "sibling construction changed", "(alt_symbol, None if is_nonterminal(alt_symbol) else [])")


def run(ctx) -> str:
    from . import c16

    # the containment gate of insert_tree rests on DerivationTree.is_prefix
    ctx.guarded("I6", lambda: c16.rule_h2(ctx))
    ctx.guarded("I4", lambda: rule_i4(ctx))
    ctx.guarded("I5", lambda: rule_i5(ctx))
    ctx.guarded("I1", lambda: rule_i1(ctx))
    ctx.guarded("I2", lambda: rule_i2(ctx))
    ctx.assume("asserts are enabled (the validity and retention gates are assert statements); grammar_graph.tree_is_valid is correct")
    return EXPLANATION
