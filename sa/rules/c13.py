"""C13 — Tree insertion yields valid trees keeping all original nodes and the new tree (gate-only)."""

from __future__ import annotations

import ast

from ..core import Unrecognised, call_name, calls_in, facts, has_fact, parent, site, src, walk_local, enclosing_def

EH = "src/isla/existential_helpers.py"

EXPLANATION = (
    "Weakest level (gate only) for C13 over insert_tree in src/isla/existential_helpers.py: decided: (I1) the result list is written only inside "
    "add_to_result, and every result.append(new_tree) is dominated by graph.tree_is_valid(new_tree) (validity), by "
    "all(new_tree.find_node(node.id) is not None for every node of in_tree) (all original nodes retained) and by new_tree.find_node(tree) is not None "
    "(inserted tree contained); insert_tree returns exactly that list; (I2) every insertion method's output reaches the result only through add_to_result; "
    "(I3) the three methods are invoked under their method-selection bits. NOT decided: that retained nodes keep their labels and that the root is "
    "unchanged (the retention gate compares ids), validity checking inside grammar_graph."
)


def rule_i1(ctx):
    f = ctx.repo.func(EH, "insert_tree", "C13.I1")
    c = f"{EH}:insert_tree"
    atr = next((n for n in ast.walk(f) if isinstance(n, ast.FunctionDef) and n.name == "add_to_result"), None)
    if atr is None:
        raise Unrecognised("C13.I1", c, "add_to_result not found")
    writes = []
    for x in calls_in(f):
        if isinstance(x.func, ast.Attribute) and src(x.func.value) == "result" and x.func.attr in ("append", "extend", "insert"):
            writes.append(x)
    for n in ast.walk(f):
        if isinstance(n, (ast.Assign, ast.AugAssign)):
            tg = n.targets if isinstance(n, ast.Assign) else [n.target]
            if any(src(t) == "result" for t in tg) and not (isinstance(n, ast.Assign) and src(n.value) == "[]") and enclosing_def(n) is f:
                writes.append(n)
    if not writes:
        raise Unrecognised("C13.I1", c, "no write to result found")
    for w in writes:
        inside = enclosing_def(w) is atr
        ctx.check(inside, "I1-result-gate", c, f"{src(w)[:40]} inside add_to_result", site(w), "the result list is written outside add_to_result, bypassing its validity/retention checks", "only add_to_result writes the result")
        if not inside or not isinstance(w, ast.Call):
            continue
        fs = facts(w, inherit_closure=False)
        ok_valid = has_fact(fs, "graph.tree_is_valid(new_tree)")
        ok_keep = any(f_.positive and f_.text.replace("\n", " ") == "all((new_tree.find_node(node.id) is not None for _, node in in_tree.paths()))" for f_ in fs)
        ok_contains = has_fact(fs, "new_tree.find_node(tree) is None", False) or any(f_.text == "new_tree.find_node(tree) is None" and not f_.positive for f_ in fs)
        # ... or through a local: tree_path = new_tree.find_node(tree); `tree_path is not None`
        tp = [a for a in walk_local(atr) if isinstance(a, ast.Assign) and src(a.targets[0]) == "tree_path" and src(a.value) == "new_tree.find_node(tree)"]
        if tp:
            ok_contains = ok_contains or has_fact(fs, "tree_path is None", False)
        # the inserted tree must be contained AS IT IS (only its open leaves may have been expanded): context addition re-inserts displaced subtrees and
        # could otherwise re-expand a closed node of the inserted tree (the node keeps the inserted tree's id, so the id test alone is satisfied)
        intact_texts = ("tree.is_prefix(new_tree.get_subtree(tree_path))", "tree.is_prefix(new_tree.get_subtree(new_tree.find_node(tree)))",
                        "new_tree.get_subtree(tree_path).structurally_equal(tree)")
        ok_intact = any(f_.positive and " ".join(f_.text.split()) in intact_texts for f_ in fs)
        ctx.check(ok_intact, "I1-result-gate", c, "append dominated by 'the inserted tree is contained unchanged (as a prefix)'", site(w),
                  "a result is accepted when a node with the inserted tree's id exists, whatever is below it: context addition can re-expand a closed (epsilon) node of the inserted tree - "
                  "inserting '{}' into '{}' for <s> ::= '{' <ss> '}', <ss> ::= '' | <s><ss> yields '{{}<ss>}' whose outer <s> carries the inserted tree's id", "dominated by tree.is_prefix(<subtree found>)")
        ctx.check(ok_valid, "I1-result-gate", c, "append dominated by graph.tree_is_valid(new_tree)", site(w), "an inserted tree is accepted without the validity check", "dominated")
        ctx.check(ok_keep, "I1-result-gate", c, "append dominated by 'every node of in_tree is still present'", site(w),
                  "an inserted tree is accepted without checking that all original nodes (by id, over in_tree.paths()) are retained", "dominated")
        ctx.check(ok_contains, "I1-result-gate", c, "append dominated by 'the inserted tree is contained'", site(w), "an inserted tree is accepted without containing the tree to insert", "dominated")
        ctx.check(src(w.args[0]) == "new_tree", "I1-result-gate", c, "the checked tree is the one appended", site(w), f"appends {src(w.args[0])}", "same object")
    rets = [r for r in walk_local(f) if isinstance(r, ast.Return)]
    ctx.check(len(rets) == 1 and src(rets[0].value) == "result", "I1-result-gate", c, "returns the gated list", site(f), f"returns {[src(r.value) for r in rets]}", "returns result")


def rule_i2(ctx):
    f = ctx.repo.func(EH, "insert_tree", "C13.I2")
    c = f"{EH}:insert_tree"
    want = {"compute_direct_embeddings": "DIRECT_EMBEDDING", "compute_self_embeddings": "SELF_EMBEDDING", "compute_context_additions": "CONTEXT_ADDITION"}
    seen = {}
    for x in calls_in(f, include_nested=False):
        nm = call_name(x)
        if nm in want:
            p = parent(x)
            ok = isinstance(p, ast.Call) and call_name(p) == "add_to_result"
            ctx.check(ok, "I2-methods-gated", c, f"{nm} -> add_to_result", site(x), f"the output of {nm} is not passed through add_to_result", "through the gate")
            bit = want[nm]
            ok = has_fact(facts(x), f"methods & {bit}")
            ctx.check(ok, "I3-method-bits", c, f"{nm} under methods & {bit}", site(x), f"{nm} runs although its method bit {bit} may be off (or under the wrong bit)", "under its own bit")
            # tree / in_tree passed in the right roles
            args = [src(a) for a in x.args]
            ok = "tree" in args and "in_tree" in args and args.index("tree") < args.index("in_tree")
            ctx.check(ok, "I2-methods-gated", c, f"{nm}(.., tree, in_tree, ..)", site(x), f"arguments {args}", "tree to insert before host tree")
            seen[nm] = True
    missing = set(want) - set(seen)
    if missing:
        raise Unrecognised("C13.I2", c, f"insertion methods not found: {sorted(missing)}")
    # constants are distinct bits
    m = ctx.repo.module(EH, "C13.I3")
    consts = m.constants()
    vals = {}
    for k in want.values():
        if k in consts and isinstance(consts[k], ast.Constant):
            vals[k] = consts[k].value
    ok = len(vals) == 3 and len(set(vals.values())) == 3 and all(v > 0 and (v & (v - 1)) == 0 for v in vals.values())
    ctx.check(ok, "I3-method-bits", f"{EH}:<module>", "three distinct single-bit flags", f"{EH}:0", f"method flags {vals}", "distinct powers of two")


def rule_i7(ctx):
    """Memoisation in the insertion helpers: a dict memo must be keyed by every parameter the computation reads (the grammar!), and lru_cache'd helpers must not hand out
    tree nodes they build (shared ids).  Expected number of dict memos on today's tree: zero - the rule is armed for the day one is added."""
    from ..memo import check_memo_keys, cached_functions

    n = check_memo_keys(ctx, "I7-memo-key", [EH], min_sites=0)
    ctx.inventory["existential_helpers_dict_memos"] = n
    m = ctx.repo.module(EH, "C13.I7")
    k = 0
    for q, fn in cached_functions(m):
        k += 1
        params = [a.arg for a in fn.args.args]
        ctx.ok("I7-memo-key", f"{EH}:{q}", "lru_cache keyed by all parameters", site(fn), f"parameters {params}")
    ctx.inventory["existential_helpers_lru_caches"] = k


def rule_i8(ctx):
    """find_higher_up_insertion_points: an insertion point may only move up through nodes with a single child - replacing a node that has further children by a connecting
    tree discards those children (original nodes of the host are lost, open leaves included: they carry identities that constraints refer to)."""
    f = ctx.repo.func(EH, "find_higher_up_insertion_points", "C13.I8")
    c = f"{EH}:find_higher_up_insertion_points"
    loops = [n for n in walk_local(f) if isinstance(n, ast.While)]
    if len(loops) != 1 or src(loops[0].test) != "p":
        raise Unrecognised("C13.I8", c, "upward walk `while p:` not found")
    loop = loops[0]
    ups = [n for n in loop.body if isinstance(n, ast.Assign) and src(n.targets[0]) == "p" and src(n.value) == "p[:-1]"]
    if len(ups) != 1:
        raise Unrecognised("C13.I8", c, "`p = p[:-1]` step not found")
    guard = "len(tree.get_subtree(p).children or []) > 1"
    sinks = [n for n in ast.walk(loop) if (isinstance(n, ast.Assign) and isinstance(n.targets[0], ast.Subscript) and src(n.targets[0].value) == "result") or isinstance(n, ast.Continue)]
    if len(sinks) < 2:
        raise Unrecognised("C13.I8", c, "insertion-point store / continue not found")
    n_ok = 0
    for sk in sinks:
        fs = facts(sk)
        if has_fact(fs, guard, False):
            n_ok += 1
            ctx.ok("I8-single-child-chain", c, f"{' '.join(src(sk).split())[:40]} only past single-child nodes", site(sk), f"not ({guard})")
        else:
            others = [x for x in fs if "children" in x.text]
            exits = [n for n in loop.body if isinstance(n, ast.If) and any(isinstance(b, ast.Return) for b in n.body)]
            if not others and not exits:
                ctx.viol("I8-single-child-chain", c, f"{' '.join(src(sk).split())[:40]} only past single-child nodes", site(sk),
                         "the upward walk no longer stops at a node with more than one child: a connecting tree inserted there replaces the node and discards its other children")
            else:
                ctx.shape(False, "I8-single-child-chain", c, f"{" ".join(src(sk).split())[:40]} only past single-child nodes", site(sk),
                          f"the stop condition of the upward walk is not `{guard}` (found {[str(x)[:80] for x in others] or [' '.join(src(e.test).split())[:80] for e in exits]}): whether every "
                          "sibling of the path survives cannot be decided from its shape")
    # the guard is evaluated on the NEW p (after the step), before anything else in the iteration
    idx = loop.body.index(ups[0])
    nxt = loop.body[idx + 1] if idx + 1 < len(loop.body) else None
    ok = isinstance(nxt, ast.If) and " ".join(src(nxt.test).split()) == guard and any(isinstance(b, ast.Return) for b in nxt.body)
    if n_ok == len(sinks):
        ctx.check(ok, "I8-single-child-chain", c, "guard evaluated right after the step", site(ups[0]), "the single-child guard is not evaluated on the new position first", "first statement after the step")


def rule_i9(ctx):
    """connect_trees: the result keeps (a) the inserted tree by identity - it is placed into the connecting tree on every path - and (b) the id of the host node that the
    connecting tree replaces."""
    f = ctx.repo.func(EH, "connect_trees", "C13.I9")
    c = f"{EH}:connect_trees"
    params = [a.arg for a in f.args.args]
    add, host = params[0], params[1]
    app = [x for x in calls_in(f) if isinstance(x.func, ast.Attribute) and x.func.attr == "append" and src(x.func.value) == "result"]
    if len(app) != 1 or not isinstance(app[0].args[0], ast.Name):
        raise Unrecognised("C13.I9", c, "result.append(<name>) not found")

    def defs(name):
        return [n for n in walk_local(f) if isinstance(n, ast.Assign) and len(n.targets) == 1 and src(n.targets[0]) == name]

    def branches(e):
        if isinstance(e, ast.IfExp):
            return branches(e.body) + branches(e.orelse)
        return [e]

    def is_replace(e, recv=None):
        return isinstance(e, ast.Call) and isinstance(e.func, ast.Attribute) and e.func.attr == "replace_path" and len(e.args) == 2 and (recv is None or src(e.func.value) == recv)

    nt = defs(app[0].args[0].id)
    if len(nt) != 1 or not is_replace(nt[0].value, host) or not isinstance(nt[0].value.args[1], ast.Name):
        raise Unrecognised("C13.I9", c, f"the appended tree is not `{host}.replace_path(path, <connecting tree>)`")
    ctx.ok("I9-connect-keeps-identities", c, "result = host with the instantiated connecting tree at the insertion path", site(nt[0]), " ".join(src(nt[0].value).split())[:80])
    inst = defs(nt[0].value.args[1].id)
    if len(inst) != 1:
        raise Unrecognised("C13.I9", c, "definition of the instantiated connecting tree not found")
    def places_add(b, depth=0):
        if is_replace(b) and src(b.args[1]) == add:
            return True
        if isinstance(b, ast.Name) and depth < 3:
            d = defs(b.id)
            return len(d) == 1 and all(places_add(x, depth + 1) for x in branches(d[0].value))
        return False

    def is_bare_connecting_tree(b):
        """a name bound to the freshly built connecting tree (DerivationTree(...)) or used as the receiver of the instantiating replace_path elsewhere"""
        if not isinstance(b, ast.Name):
            return False
        d = defs(b.id)
        built = len(d) == 1 and isinstance(d[0].value, ast.Call) and call_name(d[0].value) == "DerivationTree"
        recv_elsewhere = any(is_replace(x) and src(x.func.value) == b.id for x in ast.walk(f))
        return built or recv_elsewhere

    bad = [b for b in branches(inst[0].value) if not places_add(b)]
    if bad and all(is_bare_connecting_tree(b) for b in bad):
        ctx.viol("I9-connect-keeps-identities", c, f"`{add}` placed into the connecting tree on every path", site(bad[0]),
                 f"on some path the connecting tree is used as it is (`{src(bad[0])}`) instead of `.replace_path(leaf, {add})`: the node `{add}` itself (its id, which the "
                 "constraint refers to) is not part of the result even when it is a bare open leaf")
    elif bad:
        raise Unrecognised("C13.I9", c, f"instantiation `{' '.join(src(bad[0]).split())[:60]}` not understood")
    else:
        ctx.ok("I9-connect-keeps-identities", c, f"`{add}` placed into the connecting tree on every path", site(inst[0]), "replace_path(leaf, tree_to_add)")
    def resolved_branches(e, depth=0):
        out = []
        for b in branches(e):
            if isinstance(b, ast.Name) and depth < 3 and len(defs(b.id)) == 1:
                out += resolved_branches(defs(b.id)[0].value, depth + 1)
            else:
                out.append(b)
        return out

    recv = {src(b.func.value) for b in resolved_branches(inst[0].value) if is_replace(b)}
    if len(recv) != 1:
        raise Unrecognised("C13.I9", c, "receiver of the instantiation not unique")
    wid = defs(recv.pop())
    ok = len(wid) == 1 and isinstance(wid[0].value, ast.Call) and call_name(wid[0].value) == "DerivationTree" and len(wid[0].value.args) == 3 \
        and " ".join(src(wid[0].value.args[2]).split()) == f"{host}.get_subtree(insertion_path).id"
    ctx.check(ok, "I9-connect-keeps-identities", c, "connecting tree takes over the id of the host node it replaces", site(wid[0] if wid else f),
              "the connecting tree's root does not get the id of the replaced host node: that original node disappears from the result", "id of parent_tree.get_subtree(insertion_path)")


def rule_i4(ctx):
    """compute_context_additions keeps only candidates that retain EVERY node of the host tree (the re-insertion it relies on is known to lose nodes)."""
    f = ctx.repo.func(EH, "compute_context_additions", "C13.I4")
    c = f"{EH}:compute_context_additions"
    rets = [r for r in walk_local(f) if isinstance(r, ast.Return) and isinstance(r.value, ast.ListComp)]
    if len(rets) != 1:
        raise Unrecognised("C13.I4", c, "filtered result comprehension not found")
    comp = rets[0].value
    cand = src(comp.elt)
    alls = [x for x in ast.walk(comp) if isinstance(x, ast.Call) and call_name(x) == "all" and x.args and isinstance(x.args[0], ast.GeneratorExp)
            and len(x.args[0].generators) == 1 and src(x.args[0].generators[0].iter) == "in_tree.paths()"]
    if not alls:
        raise Unrecognised("C13.I4", c, "no retention filter over in_tree.paths() in the result comprehension")
    for a in alls:
        g = a.args[0].generators[0]
        elt_ok = src(a.args[0].elt) == f"{cand}.find_node(node.id) is not None" and src(g.target) == "(_, node)"
        if not elt_ok:
            raise Unrecognised("C13.I4", c, f"retention condition `{src(a.args[0].elt)}` not understood")
        ctx.check(not g.ifs, "I4-context-addition-retention", c, "every node of in_tree.paths() must be found in the candidate", site(a),
                  f"the retention filter skips host nodes (`if {src(g.ifs[0]) if g.ifs else ''}`): a candidate that lost such a node (e.g. one of two epsilon-expanded occurrences of a nullable "
                  "nonterminal) passes the filter and reaches insert_tree's gate, which then fails instead of the candidate being discarded", "unfiltered quantification over all nodes")
    src_ok = any(isinstance(g.iter, ast.Name) and g.iter.id == "result" for g in comp.generators)
    ctx.check(src_ok, "I4-context-addition-retention", c, "candidates come from insert_trees(...)", site(comp), "filtered list is not the insert_trees result", "result of insert_trees")


def rule_i5(ctx):
    """wrap_in_tree_starting_in: the wrapper follows a NON-trivial derivation path and continues it through exactly one child per step."""
    f = ctx.repo.func(EH, "wrap_in_tree_starting_in", "C13.I5")
    c = f"{EH}:wrap_in_tree_starting_in"
    dp = [a for a in walk_local(f) if isinstance(a, ast.Assign) and src(a.targets[0]) == "derivation_path"]
    if len(dp) != 1:
        raise Unrecognised("C13.I5", c, "derivation_path binding not found")
    calls = [call_name(x) for x in calls_in(dp[0].value)]
    if "graph.shortest_non_trivial_path" in calls:
        ctx.ok("I5-wrapper-path", c, "derivation path is non-trivial", site(dp[0]), "graph.shortest_non_trivial_path(start_node, end_node)")
    elif "graph.shortest_path" in calls:
        ctx.viol("I5-wrapper-path", c, "derivation path is non-trivial", site(dp[0]),
                 "the wrapper path is graph.shortest_path(start, end): when the open leaf carries the same (recursive) nonterminal as the root of the tree to insert the path is the single node, "
                 "no wrapper is built and the result is a childless node that does not contain the inserted tree")
    else:
        raise Unrecognised("C13.I5", c, f"derivation path computed by {calls}")
    loops = [n for n in walk_local(f) if isinstance(n, ast.For) and "shortest_alt_for_path_nonterminal" in src(n.iter)]
    if len(loops) != 1:
        raise Unrecognised("C13.I5", c, "loop over the chosen alternative not found")
    lp = loops[0]
    tests = [n for n in lp.body if isinstance(n, ast.If)]
    if len(tests) != 1:
        raise Unrecognised("C13.I5", c, "continuation test not found")
    t = tests[0].test
    # `if not a == b: B else: A` and `if a != b: B else: A` select the same child in the other branch
    if isinstance(t, ast.UnaryOp) and isinstance(t.op, ast.Not) and isinstance(t.operand, ast.Compare) and tests[0].orelse:
        t = t.operand
    elif isinstance(t, ast.Compare) and len(t.ops) == 1 and isinstance(t.ops[0], ast.NotEq) and tests[0].orelse:
        t = ast.Compare(left=t.left, ops=[ast.Eq()], comparators=t.comparators)
        ast.copy_location(t, tests[0].test)
    by_index = isinstance(t, ast.Compare) and isinstance(t.ops[0], ast.Eq) and {src(t.left), src(t.comparators[0])} == {"alt_idx", "idx_of_next_nonterminal"} and src(lp.iter) == "enumerate(shortest_alt_for_path_nonterminal)"
    by_symbol = isinstance(t, ast.Compare) and isinstance(t.ops[0], ast.Eq) and "next_nonterminal" in {src(t.left), src(t.comparators[0])}
    if by_index:
        ctx.ok("I5-wrapper-path", c, "exactly one child continues the path (selected by position)", site(t), "alt_idx == idx_of_next_nonterminal")
    elif by_symbol:
        ctx.viol("I5-wrapper-path", c, "exactly one child continues the path (selected by position)", site(t),
                 f"the continuing child is selected by symbol equality (`{src(t)}`): an expansion that mentions the next nonterminal twice (<pair> ::= <item>,<item>) gets two continuation children, "
                 "the second one a closed childless nonterminal - an invalid derivation tree")
    else:
        raise Unrecognised("C13.I5", c, f"continuation test `{src(t)}` not understood")
    idx = [a for a in walk_local(f) if isinstance(a, ast.Assign) and src(a.targets[0]) == "idx_of_next_nonterminal"]
    ok = len(idx) == 1 and src(idx[0].value).replace("\n", "").replace(" ", "") == "shortest_alt_for_path_nonterminal.index(next_nonterminal)"
    desc = [a for a in lp.body if False]
    nxt = [a for a in walk_local(f) if isinstance(a, ast.Assign) and src(a.targets[0]) == "curr_tree" and isinstance(a.value, ast.Subscript)]
    ok2 = len(nxt) == 1 and "".join(src(nxt[0].value).split()) in ("curr_tree[1][idx_of_next_nonterminal]", "curr_tree[1][shortest_alt_for_path_nonterminal.index(next_nonterminal)]")
    if not (ok2 and (ok or not by_index)):
        raise Unrecognised("C13.I5", c, "descent into the continuation child not in the recognised shape")
    ctx.ok("I5-wrapper-path", c, "descends into the continuation child", site(nxt[0]), "curr_tree[1][index of next nonterminal]")
    # open siblings: nonterminal siblings stay open (None), terminal siblings are closed leaves
    sib = [x for x in ast.walk(lp) if isinstance(x, ast.Tuple) and len(x.elts) == 2 and src(x.elts[1]) == "None if is_nonterminal(alt_symbol) else []"]
    ctx.check(len(sib) == 1 and src(sib[0].elts[0]) == "alt_symbol", "I5-wrapper-path", c, "siblings: nonterminals open, terminals closed", site(lp), "sibling construction changed", "(alt_symbol, None if is_nonterminal(alt_symbol) else [])")


def run(ctx) -> str:
    from . import c16

    # the containment gate of insert_tree rests on DerivationTree.is_prefix
    ctx.guarded("I6", lambda: c16.rule_h2(ctx))
    ctx.guarded("I7", lambda: rule_i7(ctx))
    ctx.guarded("I8", lambda: rule_i8(ctx))
    ctx.guarded("I9", lambda: rule_i9(ctx))
    ctx.guarded("I4", lambda: rule_i4(ctx))
    ctx.guarded("I5", lambda: rule_i5(ctx))
    ctx.guarded("I1", lambda: rule_i1(ctx))
    ctx.guarded("I2", lambda: rule_i2(ctx))
    ctx.assume("asserts are enabled (the validity and retention gates are assert statements); grammar_graph.tree_is_valid is correct")
    return EXPLANATION
