"""C13 — Tree insertion yields valid trees keeping all original nodes and the new tree (gate-only)."""

from __future__ import annotations

import ast

from ..core import Unrecognised, call_name, calls_in, facts, has_fact, parent, site, src, walk_local, enclosing_def

EH = "src/isla/existential_helpers.py"

EXPLANATION = (
    "Weakest level (gate only) for C13 over insert_tree in src/isla/existential_helpers.py: decided: (I1) the result list is written only inside "
    "add_to_result, and every result.append(new_tree) is dominated by graph.tree_is_valid(new_tree) (validity), by "
    "all(new_tree.find_node(node.id) is not None for every node of in_tree) (all original nodes retained) and by new_tree.find_node(tree) is not None "
    "(inserted tree contained); insert_tree returns exactly that list; (I2) every insertion method's output reaches the result only through add_to_result; "
    "(I3) the three methods are invoked under their method-selection bits. NOT decided: that retained nodes keep their labels and that the root is "
    "unchanged (the retention gate compares ids), validity checking inside grammar_graph."
)


def rule_i1(ctx):
    f = ctx.repo.func(EH, "insert_tree", "C13.I1")
    c = f"{EH}:insert_tree"
    atr = next((n for n in ast.walk(f) if isinstance(n, ast.FunctionDef) and n.name == "add_to_result"), None)
    if atr is None:
        raise Unrecognised("C13.I1", c, "add_to_result not found")
    writes = []
    for x in calls_in(f):
        if isinstance(x.func, ast.Attribute) and src(x.func.value) == "result" and x.func.attr in ("append", "extend", "insert"):
            writes.append(x)
    for n in ast.walk(f):
        if isinstance(n, (ast.Assign, ast.AugAssign)):
            tg = n.targets if isinstance(n, ast.Assign) else [n.target]
            if any(src(t) == "result" for t in tg) and not (isinstance(n, ast.Assign) and src(n.value) == "[]") and enclosing_def(n) is f:
                writes.append(n)
    if not writes:
        raise Unrecognised("C13.I1", c, "no write to result found")
    for w in writes:
        inside = enclosing_def(w) is atr
        ctx.check(inside, "I1-result-gate", c, f"{src(w)[:40]} inside add_to_result", site(w), "the result list is written outside add_to_result, bypassing its validity/retention checks", "only add_to_result writes the result")
        if not inside or not isinstance(w, ast.Call):
            continue
        fs = facts(w, inherit_closure=False)
        ok_valid = has_fact(fs, "graph.tree_is_valid(new_tree)")
        ok_keep = any(f_.positive and f_.text.replace("\n", " ") == "all((new_tree.find_node(node.id) is not None for _, node in in_tree.paths()))" for f_ in fs)
        ok_contains = has_fact(fs, "new_tree.find_node(tree) is None", False) or any(f_.text == "new_tree.find_node(tree) is None" and not f_.positive for f_ in fs)
        ctx.check(ok_valid, "I1-result-gate", c, "append dominated by graph.tree_is_valid(new_tree)", site(w), "an inserted tree is accepted without the validity check", "dominated")
        ctx.check(ok_keep, "I1-result-gate", c, "append dominated by 'every node of in_tree is still present'", site(w),
                  "an inserted tree is accepted without checking that all original nodes (by id, over in_tree.paths()) are retained", "dominated")
        ctx.check(ok_contains, "I1-result-gate", c, "append dominated by 'the inserted tree is contained'", site(w), "an inserted tree is accepted without containing the tree to insert", "dominated")
        ctx.check(src(w.args[0]) == "new_tree", "I1-result-gate", c, "the checked tree is the one appended", site(w), f"appends {src(w.args[0])}", "same object")
    rets = [r for r in walk_local(f) if isinstance(r, ast.Return)]
    ctx.check(len(rets) == 1 and src(rets[0].value) == "result", "I1-result-gate", c, "returns the gated list", site(f), f"returns {[src(r.value) for r in rets]}", "returns result")


def rule_i2(ctx):
    f = ctx.repo.func(EH, "insert_tree", "C13.I2")
    c = f"{EH}:insert_tree"
    want = {"compute_direct_embeddings": "DIRECT_EMBEDDING", "compute_self_embeddings": "SELF_EMBEDDING", "compute_context_additions": "CONTEXT_ADDITION"}
    seen = {}
    for x in calls_in(f, include_nested=False):
        nm = call_name(x)
        if nm in want:
            p = parent(x)
            ok = isinstance(p, ast.Call) and call_name(p) == "add_to_result"
            ctx.check(ok, "I2-methods-gated", c, f"{nm} -> add_to_result", site(x), f"the output of {nm} is not passed through add_to_result", "through the gate")
            bit = want[nm]
            ok = has_fact(facts(x), f"methods & {bit}")
            ctx.check(ok, "I3-method-bits", c, f"{nm} under methods & {bit}", site(x), f"{nm} runs although its method bit {bit} may be off (or under the wrong bit)", "under its own bit")
            # tree / in_tree passed in the right roles
            args = [src(a) for a in x.args]
            ok = "tree" in args and "in_tree" in args and args.index("tree") < args.index("in_tree")
            ctx.check(ok, "I2-methods-gated", c, f"{nm}(.., tree, in_tree, ..)", site(x), f"arguments {args}", "tree to insert before host tree")
            seen[nm] = True
    missing = set(want) - set(seen)
    if missing:
        raise Unrecognised("C13.I2", c, f"insertion methods not found: {sorted(missing)}")
    # constants are distinct bits
    m = ctx.repo.module(EH, "C13.I3")
    consts = m.constants()
    vals = {}
    for k in want.values():
        if k in consts and isinstance(consts[k], ast.Constant):
            vals[k] = consts[k].value
    ok = len(vals) == 3 and len(set(vals.values())) == 3 and all(v > 0 and (v & (v - 1)) == 0 for v in vals.values())
    ctx.check(ok, "I3-method-bits", f"{EH}:<module>", "three distinct single-bit flags", f"{EH}:0", f"method flags {vals}", "distinct powers of two")


def run(ctx) -> str:
    ctx.guarded("I1", lambda: rule_i1(ctx))
    ctx.guarded("I2", lambda: rule_i2(ctx))
    ctx.assume("asserts are enabled (the validity and retention gates are assert statements); grammar_graph.tree_is_valid is correct")
    return EXPLANATION
