"""C16 — Derivation-tree operations keep paths, strings, openness and identity consistent."""

from __future__ import annotations

import ast
import math
from typing import Dict, List, Optional, Set, Tuple

from ..callgraph import SRC_ISLA
from ..core import Unrecognised, NotConstant, origins, call_name, calls_in, dotted, enclosing_def, facts, fold, has_fact, module_of, parent, qual, site, src, walk_local

DT = "src/isla/derivation_tree.py"
TRIE = "src/isla/trie.py"

EXPLANATION = (
    "Static necessary conditions for C16 over src/isla/derivation_tree.py and src/isla/trie.py: decided: (O1) immutability - the identity fields "
    "(value, children, id) are written only by __init__ (and the deserialiser), the memo fields only by __init__, the deserialiser and their own "
    "memo accessors with a computed (non-constant) value under an 'is None'/'not in' guard; no module in src/ writes a tree's private fields from "
    "outside (thorough: also tests/ and evaluations/); cached methods take hashable arguments only; (T1) the path index is total for any branching "
    "degree: every character the key encoder can emit for a child index i >= 0 lies in the trie's alphabet (interval reasoning over the encoder "
    "expression against the constant-folded alphabet), the code is prefix-free, and encoder/decoder agree on their constants; relative paths of a "
    "sub-trie are cut by path length; (V1) path lookup, node search, filtering, leaves and the trie are all views of paths(), which is the pre-order "
    "traversal; get_subtree/is_valid_path walk children[idx]; (R1) replace_path rebuilds exactly children[:idx] + (replacement,) + children[idx+1:] "
    "with the parent's value and id, and passes a definite is_open flag only in the two sound cases; (H1) the structural hash never reads node ids, "
    "the identity hash does. NOT decided: cached openness arithmetic along arbitrary operation sequences, hash collision behaviour."
)

IDENTITY = {"_DerivationTree__value", "_DerivationTree__children", "_id"}
MEMO = {
    "_DerivationTree__len": {"__len__"},
    "_DerivationTree__hash": {"__hash__", "compute_hash_iteratively"},
    "_DerivationTree__structural_hash": {"structural_hash", "compute_hash_iteratively"},
    "_DerivationTree__is_open": {"is_open"},
    "_DerivationTree__k_paths": {"k_paths", "recompute_k_paths"},
    "_DerivationTree__concrete_k_paths": {"k_paths"},
}


def mangle(name: str) -> str:
    return f"_DerivationTree{name}" if name.startswith("__") and not name.endswith("__") else name


def attr_stores(tree: ast.AST):
    """(node, owner expr, mangled attr, value expr or None, is_subscript_store)"""
    for n in ast.walk(tree):
        if isinstance(n, (ast.Assign, ast.AugAssign, ast.AnnAssign)):
            targets = n.targets if isinstance(n, ast.Assign) else [n.target]
            val = getattr(n, "value", None)
            for t in targets:
                for x in ast.walk(t):
                    if isinstance(x, ast.Attribute) and isinstance(x.ctx, ast.Store):
                        yield n, x.value, mangle(x.attr), val, False
                    if isinstance(x, ast.Subscript) and isinstance(x.ctx, ast.Store) and isinstance(x.value, ast.Attribute):
                        yield n, x.value.value, mangle(x.value.attr), val, True
        elif isinstance(n, ast.Delete):
            for t in n.targets:
                if isinstance(t, ast.Attribute):
                    yield n, t.value, mangle(t.attr), None, False


def rule_o1(ctx):
    m = ctx.repo.module(DT, "C16.O1")
    cls = m.get("DerivationTree")
    if not isinstance(cls, ast.ClassDef):
        raise Unrecognised("C16.O1", f"{DT}:DerivationTree", "class not found")
    init = m.get("DerivationTree.__init__")
    # fields of the class
    fields = set()
    for n, owner, attr, val, sub in attr_stores(init):
        if src(owner) == "self":
            fields.add(attr)
    if not IDENTITY <= fields or not set(MEMO) <= fields:
        raise Unrecognised("C16.O1", f"{DT}:DerivationTree.__init__", f"expected identity/memo fields not all assigned in __init__ (found {sorted(fields)})")
    new = fields - IDENTITY - set(MEMO)
    if new:
        raise Unrecognised("C16.O1", f"{DT}:DerivationTree.__init__", f"unclassified fields {sorted(new)}: extend the identity/memo table of the checker")
    n_id = n_memo = 0
    for n, owner, attr, val, sub in attr_stores(cls):
        fn = enclosing_def(n)
        fq = qual(n)
        top = fq.split(".")[1] if fq.startswith("DerivationTree.") and len(fq.split(".")) > 1 else fq
        construct = f"{DT}:{fq}"
        if attr in IDENTITY:
            n_id += 1
            ctx.check(top == "__init__", "O1-identity-writers", construct, f"{src(owner)}.{attr} written", site(n),
                      f"identity field {attr} is written outside __init__: trees are shared between states and every memo (paths, trie, hashes, lru caches keyed by the tree) assumes they never change",
                      "written only by the constructor")
        elif attr in MEMO:
            n_memo += 1
            if top in ("__init__", "from_json"):
                ctx.ok("O1-memo-writers", construct, f"{attr} initialised", site(n), "constructor / deserialiser")
                continue
            allowed = top in MEMO[attr]
            computed = sub or isinstance(val, ast.Call) or (isinstance(val, ast.Name) and _assigned_from_call(fn, val.id))
            own = src(owner)
            fs = facts(n)
            guarded = sub or any((f.text == f"{own}.{_unmangle(attr)} is None" and f.positive) for f in fs) or any(("is None" in f.text and _unmangle(attr) in f.text) for f in fs) or top == "compute_hash_iteratively" or top == "recompute_k_paths"
            ctx.check(allowed and computed and guarded, "O1-memo-writers", construct, f"{own}.{attr} memoised", site(n),
                      f"memo field {attr} is written in {top} "
                      + ("which is not one of its memo accessors; " if not allowed else "")
                      + ("with a constant instead of a computed value; " if not computed else "")
                      + ("without an 'is None' guard" if not guarded else ""),
                      "memoised computed value under an is-None guard")
    if n_id < 3 or n_memo < 8:
        raise Unrecognised("C16.O1", f"{DT}:DerivationTree", f"too few field writes recognised (identity {n_id}, memo {n_memo})")
    # __dict__ writes
    for c in calls_in(cls):
        if isinstance(c.func, ast.Attribute) and c.func.attr in ("update", "pop", "clear", "setdefault") and src(c.func.value).endswith(".__dict__"):
            fq = qual(c)
            ctx.check(fq.startswith("DerivationTree.from_json"), "O1-identity-writers", f"{DT}:{fq}", f"{src(c.func)}(...)", site(c),
                      "a tree's __dict__ is mutated outside the deserialiser", "deserialiser only")
    # id setter must refuse
    setter = m.get("DerivationTree.id#2") or m.get("DerivationTree.id")
    for q, f in m.functions():
        if q.startswith("DerivationTree.id") and any(src(d).endswith(".setter") for d in f.decorator_list):
            ctx.check(isinstance(f.body[-1], ast.Raise), "O1-identity-writers", f"{DT}:{q}", "id setter refuses", site(f), "the id property must not be settable", "setter raises")


def _unmangle(attr: str) -> str:
    return attr.replace("_DerivationTree", "") if attr.startswith("_DerivationTree__") else attr


def _assigned_from_call(fn, name: str) -> bool:
    for n in ast.walk(fn):
        if isinstance(n, ast.Assign) and any(isinstance(t, ast.Name) and t.id == name for t in n.targets):
            if not isinstance(n.value, (ast.Call, ast.IfExp)):
                return False
    return True


def rule_o3(ctx, extra: List[str] = ()):
    files = [f for f in SRC_ISLA if f != DT] + ["src/isla/optimizer.py", "src/isla/performance_evaluator.py"] + list(extra)
    n = 0
    for rel in files:
        try:
            m = ctx.repo.module(rel, "C16.O3")
        except Unrecognised:
            continue
        n += 1
        bad = []
        for node in ast.walk(m.tree):
            if isinstance(node, ast.Attribute) and node.attr.startswith("_DerivationTree__") and isinstance(node.ctx, (ast.Store, ast.Del)):
                bad.append((node, f"stores {node.attr}"))
            if isinstance(node, ast.Attribute) and node.attr == "_id" and isinstance(node.ctx, (ast.Store, ast.Del)):
                bad.append((node, "stores _id"))
            if isinstance(node, ast.Call) and dotted(node.func) in ("object.__setattr__", "setattr") and len(node.args) >= 2 and isinstance(node.args[1], ast.Constant) and isinstance(node.args[1].value, str):
                name = node.args[1].value
                if name.startswith("_DerivationTree__") or name in ("_id",):
                    bad.append((node, f"setattr {name}"))
            if isinstance(node, ast.Constant) and isinstance(node.value, str) and node.value.startswith("_DerivationTree__") and rel != "src/isla/cli.py":
                p = parent(node)
                if isinstance(p, ast.Subscript) and isinstance(p.ctx, (ast.Store, ast.Del)):
                    bad.append((node, f"__dict__[{node.value!r}] store"))
        ctx.check(not bad, "O3-no-external-writer", rel, "no write to a tree's private fields", site(bad[0][0]) if bad else f"{rel}:0",
                  f"module writes private DerivationTree state from outside the class: {[b for _, b in bad]}", "no external writer")
    if n < 10:
        raise Unrecognised("C16.O3", "src/isla", f"only {n} modules scanned")
    # embedded positive fixture (zero-expected rule must be able to fire)
    fx = ast.parse("def f(t):\n    t._DerivationTree__children = ()\n    object.__setattr__(t, '_id', 3)\n")
    hits = sum(1 for node in ast.walk(fx) if (isinstance(node, ast.Attribute) and node.attr.startswith("_DerivationTree__") and isinstance(node.ctx, ast.Store)) or (isinstance(node, ast.Call) and dotted(node.func) == "object.__setattr__"))
    if hits != 2:
        raise Unrecognised("C16.O3", "fixture", "positive fixture did not fire")


def rule_o4(ctx):
    m = ctx.repo.module(DT, "C16.O4")
    n = 0
    for q, f in m.functions():
        if not q.startswith("DerivationTree."):
            continue
        if any((dotted(d) or dotted(getattr(d, "func", d)) or "") in ("lru_cache", "cache", "functools.lru_cache", "functools.cache") for d in f.decorator_list):
            n += 1
            bad = []
            for a in f.args.args[1:] + f.args.kwonlyargs:
                ann = src(a.annotation) if a.annotation is not None else ""
                if any(t in ann for t in ("List", "Dict", "Set[", "list", "dict", "Callable")) and "Tuple" not in ann:
                    bad.append(f"{a.arg}: {ann}")
            ctx.check(not bad, "O4-cache-args", f"{DT}:{q}", "hashable cache key", site(f), f"cached method takes unhashable/mutable arguments {bad}", "arguments are hashable")
    if n < 4:
        raise Unrecognised("C16.O4", DT, f"only {n} cached methods found")
    cls = m.get("DerivationTree")
    has_hash = m.get("DerivationTree.__hash__") is not None
    has_eq = m.get("DerivationTree.__eq__") is not None
    ctx.check(has_hash and has_eq, "O4-cache-args", f"{DT}:DerivationTree", "__hash__ and __eq__ defined", site(cls), "lru caches keyed by the tree need __hash__/__eq__", "defined")


# ---------------------------------------------------------------------------
# T1: trie alphabet vs encoder


def interval(e: ast.expr, var: str) -> Tuple[float, float]:
    """Interval of an integer expression over var >= 0."""
    if isinstance(e, ast.Constant) and isinstance(e.value, int):
        return (e.value, e.value)
    if isinstance(e, ast.Name) and e.id == var:
        return (0, math.inf)
    if isinstance(e, ast.BinOp):
        l, r = interval(e.left, var), interval(e.right, var)
        if isinstance(e.op, ast.Add):
            return (l[0] + r[0], l[1] + r[1])
        if isinstance(e.op, ast.Sub):
            return (l[0] - r[1], l[1] - r[0])
        if isinstance(e.op, ast.Mod) and r[0] == r[1] and r[0] > 0 and l[0] >= 0:
            return (0, min(l[1], r[0] - 1))
        if isinstance(e.op, ast.FloorDiv) and r[0] == r[1] and r[0] > 0 and l[0] >= 0:
            return (l[0] // r[0], l[1] // r[0] if l[1] != math.inf else math.inf)
        if isinstance(e.op, ast.Mult) and l[0] >= 0 and r[0] >= 0:
            return (l[0] * r[0], l[1] * r[1])
    if isinstance(e, ast.Call) and call_name(e) == "min" and len(e.args) == 2:
        a, b = interval(e.args[0], var), interval(e.args[1], var)
        return (min(a[0], b[0]), min(a[1], b[1]))
    raise NotConstant(src(e))


def emitted_chars(e: ast.expr, var: str) -> List[Tuple[Tuple[float, float], ast.expr]]:
    """Intervals of code points an element expression can emit."""
    if isinstance(e, ast.Call) and call_name(e) == "chr" and len(e.args) == 1:
        return [(interval(e.args[0], var), e)]
    if isinstance(e, ast.BinOp) and isinstance(e.op, ast.Add):
        return emitted_chars(e.left, var) + emitted_chars(e.right, var)
    if isinstance(e, ast.BinOp) and isinstance(e.op, ast.Mult):
        for a in (e.left, e.right):
            if isinstance(a, ast.Call) and call_name(a) == "chr":
                return emitted_chars(a, var)
    raise NotConstant(src(e))


def rule_t1(ctx):
    m = ctx.repo.module(TRIE, "C16.T1")
    init = ctx.repo.func(TRIE, "SubtreesTrie.__init__", "C16.T1")
    mk = [c for c in calls_in(init) if call_name(c) == "datrie.Trie"]
    if len(mk) != 1:
        raise Unrecognised("C16.T1", f"{TRIE}:SubtreesTrie.__init__", "datrie.Trie(...) construction not found")
    try:
        if mk[0].args:
            alphabet = set(ord(c) for c in fold(mk[0].args[0]))
        else:
            rng = next(k.value for k in mk[0].keywords if k.arg == "ranges")
            alphabet = set()
            for lo, hi in fold(rng):
                alphabet |= set(range(ord(lo), ord(hi) + 1))
    except (NotConstant, StopIteration, TypeError) as exc:
        raise Unrecognised("C16.T1", f"{TRIE}:SubtreesTrie.__init__", f"alphabet not a constant table: {exc}")
    ctx.inventory["trie_alphabet"] = f"{min(alphabet)}..{max(alphabet)} ({len(alphabet)} symbols)"
    ctx.check(len(alphabet) <= 255, "T1-alphabet", f"{TRIE}:SubtreesTrie.__init__", "alphabet fits datrie", site(mk[0]), f"datrie supports at most 255 symbols, alphabet has {len(alphabet)}", "<= 255 symbols")
    enc = ctx.repo.func(TRIE, "path_to_trie_key", "C16.T1")
    rets = [r for r in walk_local(enc) if isinstance(r, ast.Return)]
    joined = None
    for r in rets:
        for c in calls_in(r):
            if isinstance(c.func, ast.Attribute) and c.func.attr == "join" and c.args and isinstance(c.args[0], (ast.ListComp, ast.GeneratorExp)):
                joined = c.args[0]
    if joined is None:
        raise Unrecognised("C16.T1", f"{TRIE}:path_to_trie_key", "`''.join(<code of i> for i in path)` not found")
    gen = joined.generators[0]
    if not isinstance(gen.target, ast.Name) or gen.ifs:
        raise Unrecognised("C16.T1", f"{TRIE}:path_to_trie_key", "comprehension shape not understood")
    var = gen.target.id
    # an explicit bound check in the encoder (assert / raise) would also make it total-or-loud
    bound = None
    for n in walk_local(enc):
        if isinstance(n, ast.Assert):
            for s in ast.walk(n.test):
                if isinstance(s, ast.Compare) and len(s.ops) == 1 and isinstance(s.ops[0], (ast.Lt, ast.LtE)) and isinstance(s.comparators[0], ast.Constant):
                    bound = s.comparators[0].value - (1 if isinstance(s.ops[0], ast.Lt) else 0)
    try:
        chars = emitted_chars(joined.elt, var)
    except NotConstant as exc:
        raise Unrecognised("C16.T1", f"{TRIE}:path_to_trie_key", f"code expression not understood: {exc}")
    construct = f"{TRIE}:path_to_trie_key"
    last_iv = None
    for (lo, hi), node in chars:
        if bound is not None and hi == math.inf:
            hi = lo + bound
        ok = lo >= 1 and hi != math.inf and all(cp in alphabet for cp in range(int(lo), int(hi) + 1))
        ctx.check(ok, "T1-index-total", construct, f"{src(node)} in alphabet", site(node),
                  f"for child indices i >= 0 this emits code points [{lo}, {hi}] but the trie alphabet is {ctx.inventory['trie_alphabet']}: datrie silently drops keys with "
                  "characters outside its alphabet, so subtrees of nodes with many children vanish from the path index (forall/exists skip them)",
                  f"code points [{int(lo)}, {hi}] are all in the alphabet")
        last_iv = (lo, hi)
    # prefix-freeness: only the last emitted char may overlap nothing else; escape chars must be outside the digit interval and != root marker
    root_marker = 1
    if len(chars) > 1:
        digit = chars[-1][0]
        for (lo, hi), node in chars[:-1]:
            disjoint = hi < digit[0] or lo > digit[1]
            ctx.check(disjoint and lo == hi, "T1-prefix-free", construct, f"escape {src(node)} disjoint from digit codes", site(node),
                      "the escape character collides with a digit code: key prefixes no longer coincide with path prefixes (sub-trie queries return foreign subtrees)",
                      "escape code point is outside the digit interval")
    if last_iv is not None:
        ctx.check(not (last_iv[0] <= root_marker <= last_iv[1]) and last_iv[0] >= 1, "T1-prefix-free", construct, "root marker chr(1) and chr(0) not digit codes", site(enc),
                  "a digit code equals the root marker chr(1) or the ignored chr(0)", "digit codes start above the root marker")
    # encoder / decoder constants agree
    dec = ctx.repo.func(TRIE, "trie_key_to_path", "C16.T1")

    def consts_of(fn):
        return {n.value for n in ast.walk(fn) if isinstance(n, ast.Constant) and isinstance(n.value, int) and not isinstance(n.value, bool)}

    ce, cd = consts_of(enc) - {0}, consts_of(dec) - {0}
    ctx.check(ce == cd, "T1-codec-constants", f"{TRIE}:trie_key_to_path", "encoder and decoder use the same constants", site(dec),
              f"encoder uses integer constants {sorted(ce)}, decoder {sorted(cd)}: offset / radix / escape disagree, decoded paths differ from encoded ones", f"constants {sorted(ce)} on both sides")
    # relative path cut
    multi = len(chars) > 1
    uses_len_field = False
    for meth in ("values", "items"):
        f = ctx.repo.func(TRIE, f"SubtreesTrie.{meth}", "C16.T1")
        cuts = [n for n in ast.walk(f) if isinstance(n, ast.Subscript) and isinstance(n.slice, ast.Slice) and src(n.value) == "value[0]"]
        if not cuts:
            if any(call_name(c) in ("self.items", "self.values") for c in calls_in(f)):
                ctx.ok("T1-relative-path", f"{TRIE}:SubtreesTrie.{meth}", "delegates to the sibling view", site(f), "no own cut")
                continue
            raise Unrecognised("C16.T1", f"{TRIE}:SubtreesTrie.{meth}", "relative-path slice value[0][k:] not found")
        for cut in cuts:
            k = src(cut.slice.lower) if cut.slice.lower is not None else ""
            o = origins(f, cut.slice.lower) if cut.slice.lower is not None else set()
            by_path_len = "self.root_path_len" in o
            by_key_len = ("self.root_path" in o) and not by_path_len
            if not (by_path_len or by_key_len):
                raise Unrecognised("C16.T1", f"{TRIE}:SubtreesTrie.{meth}", f"cut {k} not understood")
            uses_len_field = uses_len_field or by_path_len
            ctx.check(by_path_len or not multi, "T1-relative-path", f"{TRIE}:SubtreesTrie.{meth}", f"cut at {k}", site(cut),
                      "the encoder emits more than one character per index (indices >= 27), so the length of the encoded root key is not the length of the root path: relative paths of a "
                      "sub-trie whose root path contains such an index are cut at the wrong place (nested quantifiers then address the wrong nodes)",
                      "relative paths cut at the root path's length")
    if multi and uses_len_field:
        lens = [n for n in walk_local(init) if isinstance(n, ast.Assign) and src(n.targets[0]) == "self.root_path_len"] + [n for n in walk_local(init) if isinstance(n, ast.AnnAssign) and src(n.target) == "self.root_path_len"]
        vals = sorted(src(n.value) for n in lens)
        ctx.check(vals == ["0", "len(root_path)"], "T1-relative-path", f"{TRIE}:SubtreesTrie.__init__", "root_path_len = len(root_path)", site(init), f"root_path_len assigned {vals}", "length of the root path")
    # get_subtrie shares the trie and passes the new root
    gs = ctx.repo.func(TRIE, "SubtreesTrie.get_subtrie", "C16.T1")
    c = [c for c in calls_in(gs) if call_name(c) == "SubtreesTrie"]
    kw = {k.arg: src(k.value) for k in c[0].keywords} if c else {}
    ctx.check(kw.get("init_trie") == "self.trie" and kw.get("root_path") == "new_root_path", "T1-relative-path", f"{TRIE}:SubtreesTrie.get_subtrie", "shares trie, sets root", site(gs), f"found {kw}", "same trie, new root path")


def rule_v1(ctx):
    m = ctx.repo.module(DT, "C16.V1")

    def fn(name):
        return ctx.repo.func(DT, f"DerivationTree.{name}", "C16.V1")

    trie = fn("trie")
    r = [x for x in walk_local(trie) if isinstance(x, ast.Return)]
    ok = len(r) == 1 and src(r[0].value) == "SubtreesTrie({path: (path, tree) for path, tree in self.paths()})"
    ctx.check(ok, "V1-views", f"{DT}:DerivationTree.trie", "trie built from paths()", site(trie),
              f"the path index must map every (path, subtree) of self.paths() to itself; found {src(r[0].value) if r else None}", "index = {path: (path, tree)} over paths()")
    for name, pred in (("filter", "f(subtree)"), ("find_node", "subtree.id == node_or_id"), ("leaves", "not sub_tree.children"), ("open_leaves", "sub_tree.children is None")):
        f = fn(name)
        iters = [src(g.iter) for n in ast.walk(f) if isinstance(n, (ast.For, ast.comprehension)) for g in [n]]
        ctx.check("self.paths()" in iters, "V1-views", f"{DT}:DerivationTree.{name}", "iterates paths()", site(f), f"{name} must enumerate self.paths(); iterates {iters}", "view of paths()")
        tests = [src(n) for n in ast.walk(f) if isinstance(n, (ast.Compare, ast.Call, ast.UnaryOp))]
        ctx.check(pred in tests, "V1-views", f"{DT}:DerivationTree.{name}", f"selects by `{pred}`", site(f), f"selection predicate `{pred}` not found", "documented selection")
    paths = fn("paths")
    calls = [c for c in calls_in(paths) if call_name(c) == "self.traverse"]
    ok = len(calls) == 1 and any(k.arg == "kind" and src(k.value).endswith("TRAVERSE_PREORDER") for k in calls[0].keywords)
    ctx.check(ok, "V1-views", f"{DT}:DerivationTree.paths", "pre-order traversal", site(paths), "paths() must be the pre-order traversal (quantifier instantiation order, next_path, trie key order)", "pre-order")
    app = [c for c in calls_in(paths) if isinstance(c.func, ast.Attribute) and c.func.attr == "append"]
    ctx.check(len(app) == 1 and src(app[0].args[0]) == "(path, node)", "V1-views", f"{DT}:DerivationTree.paths", "records (path, node)", site(paths), "each visited node is recorded with its own path", "(path, node)")
    # traverse: child paths are path + (index,) with index matching the child taken
    tr = fn("traverse")
    np = [n for n in ast.walk(tr) if isinstance(n, ast.Assign) and src(n.targets[0]) == "new_path"]
    ok = len(np) == 1 and src(np[0].value).replace("\n", "") == "path + (len(node.children) - idx - 1 if reverse else idx,)"
    ctx.check(ok, "V1-views", f"{DT}:DerivationTree.traverse", "child path = path + (child index,)", site(tr),
              f"child index bookkeeping in traverse: {src(np[0].value) if np else None}", "index of the child actually visited")
    for name in ("get_subtree", "is_valid_path"):
        f = fn(name)
        steps = [src(n.value) for n in ast.walk(f) if isinstance(n, ast.Assign) and src(n.targets[0]) == "curr_node"]
        ctx.check("curr_node.children[path[0]]" in steps and any(src(n) == "path = path[1:]" for n in ast.walk(f) if isinstance(n, ast.Assign)), "V1-views", f"{DT}:DerivationTree.{name}",
                  "walks children[path[0]] / path[1:]", site(f), f"path walk steps {steps}", "descends by the first index and drops it")


def rule_r1(ctx):
    f = ctx.repo.func(DT, "DerivationTree.replace_path", "C16.R1")
    construct = f"{DT}:DerivationTree.replace_path"
    nc = [n for n in ast.walk(f) if isinstance(n, ast.Assign) and src(n.targets[0]) == "new_children"]
    ok = len(nc) == 1 and src(nc[0].value) == "children[:idx] + (replacement,) + children[idx + 1:]"
    ctx.check(ok, "R1-replace-shape", construct, "children[:idx] + (replacement,) + children[idx+1:]", site(nc[0]) if nc else site(f),
              f"replace_path must change exactly the child at idx; found {src(nc[0].value) if nc else None}", "only the addressed child changes")
    mk = [c for c in calls_in(f) if call_name(c) == "DerivationTree" and c.args and src(c.args[0]) == "parent.value"]
    ok = len(mk) == 1 and src(mk[0].args[1]) == "new_children" and any(k.arg == "id" and src(k.value) == "parent.id" for k in mk[0].keywords)
    ctx.check(ok, "R1-replace-shape", construct, "ancestors keep value and id", site(mk[0]) if mk else site(f), "rebuilt ancestors must keep their label and identity", "DerivationTree(parent.value, new_children, id=parent.id, ...)")
    ds = [n for n in ast.walk(f) if isinstance(n, ast.Assign) and src(n.targets[0]) == "stack" and "self" in src(n.value)]
    loops = [n for n in walk_local(f) if isinstance(n, ast.For)]
    its = [src(l.iter) for l in loops]
    ctx.check(its == ["path", "reversed(path)"], "R1-replace-shape", construct, "descend along path, rebuild in reverse", site(f), f"loops iterate {its}", "path then reversed(path)")
    # is_open flag: definite values only in the sound cases
    for n in ast.walk(f):
        if isinstance(n, ast.Assign) and src(n.targets[0]) == "is_open" and isinstance(n.value, ast.Constant):
            fs = facts(n)
            v = n.value.value
            if v is True:
                ok = any(f_.positive and f_.text in ("replacement.__is_open is True", "replacement.children is None") for f_ in fs) or any("replacement.__is_open is True or replacement.children is None" in f_.text for f_ in fs)
                # `or` condition under positive branch is not split; accept textual test of the enclosing if
                p = parent(n)
                ok = ok or (isinstance(p, ast.If) and src(p.test) == "replacement.__is_open is True or replacement.children is None")
                ctx.check(ok, "R1-open-flag", construct, "is_open=True only if the replacement is open", site(n), "ancestor marked open without the replacement being open", "replacement open => ancestors open")
            elif v is False:
                p = parent(n)
                ok = isinstance(p, ast.If) and src(p.test) == "replacement.__is_open is False and parent.__is_open is False"
                ctx.check(ok, "R1-open-flag", construct, "is_open=False only if replacement and parent were closed", site(n),
                          "an ancestor is marked closed although a sibling subtree may be open (the cached flag would hide open leaves from the solver)", "closed replacement in a closed parent")
    for n in ast.walk(f):
        if isinstance(n, ast.Assign) and src(n.targets[0]) == "is_open" and not isinstance(n.value, ast.Constant):
            ctx.viol("R1-open-flag", construct, f"is_open = {src(n.value)[:50]}", site(n),
                     "the cached openness flag of a rebuilt ancestor is copied from another node instead of being one of {True if the replacement is open, False if replacement and parent "
                     "were closed, None = recompute}: a stale flag makes is_open()/is_complete() disagree with the leaves (e.g. after the only open leaf was replaced by a terminal)")
    # retain_id copy keeps value/children
    mk2 = [c for c in calls_in(f) if call_name(c) == "DerivationTree" and c.args and src(c.args[0]) == "replacement_tree.value"]
    ok = len(mk2) == 1 and src(mk2[0].args[1]) == "replacement_tree.children" and any(k.arg == "is_open" and src(k.value) == "replacement_tree.is_open()" for k in mk2[0].keywords)
    ctx.check(ok, "R1-replace-shape", construct, "retain_id copy keeps label, children, openness", site(f), "retain_id must only change the id", "same value, children and openness")
    # no other is_open= call site in src/isla
    n_sites = 0
    for rel in SRC_ISLA:
        m = ctx.repo.module(rel, "C16.R1")
        for c in calls_in(m.tree):
            if call_name(c) in ("DerivationTree", "isla.derivation_tree.DerivationTree") and any(k.arg in ("is_open", "hash", "structural_hash") for k in c.keywords):
                n_sites += 1
                ok = rel == DT and qual(c).startswith("DerivationTree.replace_path")
                ctx.check(ok, "R1-open-flag", f"{rel}:{qual(c)}", f"{src(c)[:60]}", site(c), "a cached flag/hash is injected into a tree outside replace_path: nothing establishes that it is right", "only replace_path passes cached flags")
    ctx.inventory["cached_flag_injection_sites"] = n_sites


def rule_h1(ctx):
    f = ctx.repo.func(DT, "DerivationTree.compute_hash_iteratively", "C16.H1")
    construct = f"{DT}:DerivationTree.compute_hash_iteratively"
    n = 0
    for x in ast.walk(f):
        if isinstance(x, ast.IfExp) and src(x.test) == "structural":
            n += 1
            reads_id = any(isinstance(a, ast.Attribute) and a.attr in ("id", "_id") for a in ast.walk(x.body))
            ctx.check(not reads_id, "H1-structural-hash", construct, f"structural branch {src(x.body)[:40]}", site(x),
                      "the structural hash depends on a node id: structurally equal trees get different structural hashes (duplicate-state detection in the solver queue fails)",
                      "structural branch is id-free")
            reads_id2 = any(isinstance(a, ast.Attribute) and a.attr in ("id", "_id") for a in ast.walk(x.orelse))
            ctx.check(reads_id2, "H1-identity-hash", construct, f"identity branch {src(x.orelse)[:40]}", site(x), "the identity hash ignores the id although __eq__ compares ids", "identity branch reads the id")
            reads_val = any(isinstance(a, ast.Attribute) and a.attr == "value" for a in ast.walk(x.body))
            ctx.check(reads_val, "H1-structural-hash", construct, f"structural branch reads the label", site(x), "label not hashed", "label hashed")
    if n < 2:
        raise Unrecognised("C16.H1", construct, "expected two `... if structural else ...` hash inputs")
    # children hashes are folded in for inner nodes
    ok = any(src(x) == "children_values.append(stack.pop())" for x in ast.walk(f) if isinstance(x, ast.Call)) and any("tuple(children_values)" in src(x) for x in ast.walk(f) if isinstance(x, ast.BinOp))
    ctx.check(ok, "H1-structural-hash", construct, "children hashes folded in", site(f), "children do not contribute to the hash", "tuple(children_values) hashed")
    se = ctx.repo.func(DT, "DerivationTree.structurally_equal", "C16.H1")
    t = " ".join(src(se).split())
    distinguishes = "self.children is None and other.children is not None" in t and "other.children is None and self.children is not None" in t
    collapses = "num_children()" in t and not distinguishes
    if not distinguishes and not collapses and "children is None" not in t:
        raise Unrecognised("C16.H1", f"{DT}:DerivationTree.structurally_equal", "open-vs-empty comparison not in a recognised shape")
    ctx.check(distinguishes, "H1-open-vs-empty", f"{DT}:DerivationTree.structurally_equal", "open leaf (children None) != empty node (children [])", site(se),
              "structural equality treats an unexpanded leaf (children is None) and a node with no children alike, while structural_hash, is_open() and the string tell them apart: "
              "structurally equal trees then have different structural hashes", "None and [] distinguished in both directions")
    reads_id = any(isinstance(a, ast.Attribute) and a.attr in ("id", "_id") for a in ast.walk(se))
    ctx.check(not reads_id, "H1-structural-hash", f"{DT}:DerivationTree.structurally_equal", "structural equality ignores ids", site(se), "structurally_equal reads ids", "id-free")


def rule_t2(ctx):
    """Key decoder: the continuation offset (one chr(29) = +27) applies to ONE path component and is reset once the component has been emitted."""
    TRIE_ = "src/isla/trie.py"
    f = ctx.repo.func(TRIE_, "trie_key_to_path", "C16.T2")
    c = f"{TRIE_}:trie_key_to_path"
    loops = [n for n in walk_local(f) if isinstance(n, ast.For)]
    if len(loops) != 1:
        raise Unrecognised("C16.T2", c, "decoder loop not found")
    lp = loops[0]
    appends = [x for x in ast.walk(lp) if isinstance(x, ast.Call) and isinstance(x.func, ast.Attribute) and x.func.attr == "append" and src(x.func.value) == "path"]
    # the encoder repeats the continuation character (`chr(29) * (i // 27)`): the decoder's transfer function on chr(29) must therefore ACCUMULATE
    # (state' = state + 27); an idempotent update (a flag or constant assignment) makes k >= 2 continuation characters decode like one
    enc = ctx.repo.func(TRIE_, "path_to_trie_key", "C16.T2")
    repeated = [x for x in ast.walk(enc) if isinstance(x, ast.BinOp) and isinstance(x.op, ast.Mult) and "chr(29)" in (src(x.left), src(x.right)) and "// 27" in src(x)]
    if not repeated:
        raise Unrecognised("C16.T2", f"{TRIE_}:path_to_trie_key", "repeated continuation character `chr(29) * (i // 27)` not found in the encoder")
    esc_branches = [x for x in ast.walk(lp) if isinstance(x, ast.If) and any(isinstance(k, ast.Constant) and k.value == 29 for k in ast.walk(x.test))]
    if len(esc_branches) != 1:
        raise Unrecognised("C16.T2", c, "branch for the continuation character (29) not found")
    esc_updates = [x for st in esc_branches[0].body for x in ast.walk(st) if isinstance(x, (ast.Assign, ast.AugAssign))]
    accumulates = any(isinstance(x, ast.AugAssign) and isinstance(x.op, ast.Add) and src(x.value) == "27" for x in esc_updates) or any(
        isinstance(x, ast.Assign) and isinstance(x.value, ast.BinOp) and isinstance(x.value.op, ast.Add) and src(x.targets[0]) in (src(x.value.left), src(x.value.right)) and "27" in (src(x.value.left), src(x.value.right))
        for x in esc_updates)
    idempotent = [x for x in esc_updates if isinstance(x, ast.Assign) and isinstance(x.value, ast.Constant)]
    if not accumulates and not idempotent:
        raise Unrecognised("C16.T2", c, "state update of the continuation branch not understood")
    ctx.check(accumulates, "T2-decoder-continuation-accumulates", c, "each chr(29) adds 27 to the pending offset", site(esc_branches[0]),
              f"the decoder's update on the continuation character is idempotent (`{src(idempotent[0]) if idempotent else ''}`) while the encoder emits one chr(29) per 27 (`{src(repeated[0])}`): "
              "two or more continuation characters decode like one, so child indices >= 54 come back as index - 27*(k-1) and trie keys()/items() disagree with paths() for nodes with 55 or more children",
              "offset += 27 per continuation character")
    if not accumulates:
        return
    if len(appends) != 1 or "offset" not in src(appends[0]):
        raise Unrecognised("C16.T2", c, "emission `path.append(offset + ...)` not found")
    ap_stmt = appends[0]
    while not isinstance(getattr(ap_stmt, "_parent", None), (ast.If, ast.For)) and getattr(ap_stmt, "_parent", None) is not None:
        ap_stmt = ap_stmt._parent
    block = None
    par = ap_stmt._parent
    for fld in ("body", "orelse"):
        b = getattr(par, fld, [])
        if ap_stmt in b:
            block = b
    if block is None:
        raise Unrecognised("C16.T2", c, "statement block of the emission not found")
    after = block[block.index(ap_stmt) + 1:]
    reset = any(isinstance(x, ast.Assign) and src(x.targets[0]) == "offset" and src(x.value) == "0" for x in after)
    incs = [x for x in ast.walk(lp) if (isinstance(x, ast.AugAssign) and src(x.target) == "offset")
            or (isinstance(x, ast.Assign) and src(x.targets[0]) == "offset" and isinstance(x.value, ast.BinOp) and isinstance(x.value.op, ast.Add) and "offset" in (src(x.value.left), src(x.value.right)))]
    if not incs:
        raise Unrecognised("C16.T2", c, "offset accumulation not found")
    ctx.check(reset, "T2-decoder-offset-reset", c, "offset reset after each emitted component", site(appends[0]),
              "the decoder keeps the accumulated continuation offset after emitting a path component: every component that follows an index >= 27 is shifted too "
              "(key of (27, 0) decodes to (27, 27)), so trie keys()/items() disagree with paths() for nodes with 28 or more children", "offset = 0 after path.append(...)")


def rule_h2(ctx):
    """Pairwise child comparison needs equal child counts: zip() silently stops at the shorter list."""
    for meth in ("structurally_equal", "__eq__", "is_prefix"):
        f = ctx.repo.func(DT, f"DerivationTree.{meth}", "C16.H2")
        c = f"{DT}:DerivationTree.{meth}"
        zips = [x for x in ast.walk(f) if isinstance(x, ast.Call) and call_name(x) == "zip" and len(x.args) == 2 and all("children" in src(a) for a in x.args)]
        for z in zips:
            fs = facts(z)
            ok = any((not f_.positive and "len(" in f_.text and "!=" in f_.text and "children" in f_.text) or (f_.positive and "len(" in f_.text and "==" in f_.text and "children" in f_.text) for f_ in fs)
            ctx.check(ok, "H2-child-count", c, "zip over two child lists only after their lengths were compared", site(z),
                      f"`{src(z)}` pairs the children up to the shorter list and no length comparison dominates it: a node whose children are a proper prefix of the other's compares as "
                      "(structurally) equal although the structural hashes differ", "dominated by a length comparison")
        if not zips:
            idx_loops = [x for x in ast.walk(f) if isinstance(x, ast.GeneratorExp) and "range(len(self.children))" in src(x)]
            if meth == "is_prefix":
                gens = [x for x in ast.walk(f) if isinstance(x, ast.GeneratorExp) and "enumerate(self.children)" in src(x)]
                if not gens:
                    raise Unrecognised("C16.H2", c, "child comparison of is_prefix not found")
                ok = has_fact(facts(gens[0]), "len(self.children) != len(other.children)", False)
                ctx.check(ok, "H2-child-count", c, "children compared index-wise only after their numbers were compared", site(gens[0]), "missing length comparison before the index-wise comparison", "dominated by a length comparison")
            if meth == "structurally_equal":
                if not idx_loops:
                    raise Unrecognised("C16.H2", c, "child comparison not found")
                fs = facts(idx_loops[0])
                ok = has_fact(fs, "len(self.children) != len(other.children)", False)
                ctx.check(ok, "H2-child-count", c, "children compared index-wise only after their numbers were compared", site(idx_loops[0]), "missing length comparison before the index-wise comparison", "dominated by a length comparison")


def rule_o5(ctx):
    """Node identity: a memoised (lru_cache / cache) function must not hand out DerivationTree nodes it constructs - every caller would get the SAME node objects
    (same ids) and two places of a tree would share a node."""
    from ..memo import cached_functions
    from ..callgraph import SRC_ISLA

    def constructed_in_return(fn):
        hits = []
        for r in [x for x in ast.walk(fn) if isinstance(x, ast.Return) and x.value is not None]:
            for c_ in ast.walk(r.value):
                if isinstance(c_, ast.Call) and (call_name(c_) or "").split(".")[-1] in ("DerivationTree", "from_parse_tree"):
                    hits.append(c_)
        return hits

    n = 0
    for rel in SRC_ISLA:
        m = ctx.repo.module(rel, "C16.O5")
        for q, fn in cached_functions(m):
            n += 1
            hits = constructed_in_return(fn)
            ctx.check(not hits, "O5-no-cached-nodes", f"{rel}:{q}", "memoised function does not return freshly built tree nodes", site(fn),
                      f"`{q}` is memoised and returns nodes built by `{src(hits[0])[:50] if hits else ''}`: all callers share these node objects, so two open leaves expanded with the same alternative get "
                      "children with identical ids - find_node() of one returns the path of the other and replace_path() changes the wrong subtree", "nodes are created per use")
    fx = ast.parse("@cache\ndef expansions(nt):\n    return [[DerivationTree(c, None) for c in e] for e in G[nt]]\n")
    if not constructed_in_return(fx.body[0]):
        raise Unrecognised("C16.O5", "fixture", "positive fixture did not fire")
    if n < 15:
        raise Unrecognised("C16.O5", "src/isla", f"only {n} memoised functions found")


def rule_o6(ctx):
    """Fresh node identities: (a) no dict memo in derivation_tree.py stores freshly built nodes for reuse; in expand_one_step every open leaf gets its own children;
    (b) decoding a tree keeps the global id counter above EVERY restored node's id, not only the root's."""
    m = ctx.repo.module(DT, "C16.O6")
    n_stores = 0
    for q, fn in m.functions():
        if not isinstance(fn, ast.FunctionDef):
            continue
        tested = {src(c.comparators[0]) for c in ast.walk(fn) if isinstance(c, ast.Compare) and len(c.ops) == 1 and isinstance(c.ops[0], (ast.In, ast.NotIn))}
        for a in ast.walk(fn):
            if isinstance(a, ast.Assign) and isinstance(a.targets[0], ast.Subscript) and src(a.targets[0].value) in tested:
                builds = [c for c in ast.walk(a.value) if isinstance(c, ast.Call) and (call_name(c) or "").split(".")[-1] in ("DerivationTree", "from_parse_tree")]
                if builds:
                    n_stores += 1
                    ctx.viol("O6-fresh-nodes", f"{DT}:{q}", f"{src(a.targets[0])[:40]} does not cache built nodes", site(a),
                             f"`{src(a.targets[0].value)}` memoises node objects built by `{src(builds[0])[:50]}`: every later lookup hands out the SAME nodes (same ids) - two open leaves expanded "
                             "with the same alternative share their children, find_node() of one returns the other's path and replace_path()/substitute() change the wrong subtree")
    e = ctx.repo.func(DT, "DerivationTree.expand_one_step", "C16.O6")
    c = f"{DT}:DerivationTree.expand_one_step"
    comps = [x for x in ast.walk(e) if isinstance(x, (ast.DictComp, ast.ListComp, ast.For)) and "self.open_leaves()" in (src(x.generators[0].iter) if not isinstance(x, ast.For) else src(x.iter))]
    builds = [x for x in ast.walk(e) if isinstance(x, ast.Call) and call_name(x) == "DerivationTree"]
    if not comps or not builds:
        raise Unrecognised("C16.O6", c, "iteration over the open leaves / construction of the new children not found")
    per_leaf = [b for b in builds if any(b in list(ast.walk(cp)) for cp in comps)]
    if not per_leaf and n_stores == 0:
        raise Unrecognised("C16.O6", c, "the new children are not built inside the iteration over the open leaves: whether every leaf gets its own nodes cannot be established")
    if per_leaf:
        ctx.ok("O6-fresh-nodes", c, "children built per open leaf", site(per_leaf[0]), "DerivationTree(child, ...) inside the iteration over self.open_leaves()")
    fj = ctx.repo.func(DT, "DerivationTree.from_json", "C16.O6")
    c2 = f"{DT}:DerivationTree.from_json"
    bumps = [a for a in ast.walk(fj) if isinstance(a, ast.Assign) and src(a.targets[0]) == "DerivationTree.next_id"]
    if not bumps:
        raise Unrecognised("C16.O6", c2, "id-counter adjustment not found")
    helper = next((d for d in ast.walk(fj) if isinstance(d, ast.FunctionDef) and d.name == "from_dict"), None)
    for b in bumps:
        inside = helper is not None and b in list(ast.walk(helper))
        uses_max = "max(" in src(b.value)
        ctx.check(inside or uses_max, "O6-id-counter", c2, "id counter raised above every restored node's id", site(b),
                  f"`{' '.join(src(b).split())}` runs once for the decoded root only: inner nodes usually have larger ids than the root (after expand_one_step / replace_path), so nodes created after "
                  "decoding a pickled tree reuse ids that already occur in it - find_node() returns wrong paths", "adjusted per restored node (inside from_dict) or with max over all nodes")


def run(ctx) -> str:
    ctx.guarded("O6", lambda: rule_o6(ctx))
    ctx.guarded("T2", lambda: rule_t2(ctx))
    ctx.guarded("H2", lambda: rule_h2(ctx))
    ctx.guarded("O5", lambda: rule_o5(ctx))
    ctx.guarded("O1", lambda: rule_o1(ctx))
    ctx.guarded("O3", lambda: rule_o3(ctx))
    ctx.guarded("O4", lambda: rule_o4(ctx))
    ctx.guarded("T1", lambda: rule_t1(ctx))
    ctx.guarded("V1", lambda: rule_v1(ctx))
    ctx.guarded("R1", lambda: rule_r1(ctx))
    ctx.guarded("H1", lambda: rule_h1(ctx))
    ctx.assume("datrie drops/ignores characters outside its alphabet and chr(0) (library behaviour observed once, documented in trie.py)")
    ctx.assume("child indices are non-negative integers")
    return EXPLANATION


def run_thorough(ctx):
    extra = ctx.repo.all_py("tests", "evaluations", "src/isla_formalizations")
    ctx.guarded("O3-thorough", lambda: rule_o3(ctx, extra))
