"""C09 — Formula negation and normal-form rewrites preserve meaning."""

from __future__ import annotations

import ast
import itertools
from typing import Dict, List, Optional, Sequence, Set, Tuple

from ..core import origins, Unrecognised, call_name, calls_in, dotted, enclosing_def, facts, module_of, parent, qual, site, src, walk_local, significant_body
from ..dispatch import check_flow_arity, find_flow_tables, first_guard, resolve_handler
from ..formulas import DUAL, LANG, QUANT_FIELDS, PropError, expand_classes, formula_classes, if_chain, isinstance_classes, prop_eval

EVAL = "src/isla/evaluator.py"
SOLVER = "src/isla/solver.py"

EXPLANATION = (
    "Static necessary conditions for C09 over src/isla/language.py (+ evaluator.py, solver.py for arity-genericity): decided: (N1) the duality "
    "table of Formula.__neg__ (negation -> operand, and <-> or over negated args, forall <-> exists and forall int <-> exists int with the same "
    "bound variable / in-variable / match expression and negated body, atoms -> NegatedFormula, SMTFormula negates its Z3 term and keeps its "
    "variables and substitutions); (N2) the same table for the convert_*_to_nnf handlers under `negate`, plus arity and exhaustiveness of the "
    "convert_to_nnf dispatch table over all concrete Formula classes; (N3) arity-genericity: no fixed index / fixed-length unpacking of the args of "
    "an n-ary combinator or of a product over them; (N4) every rewrite that rebuilds a quantifier passes the original's bound variable, "
    "in-variable and match expression; (N5) each simplifying early return of Formula.__and__/__or__ is a valid propositional identity under its "
    "guard (checked by a 4-row truth table over the two operands). NOT decided: distribution in DNF beyond shape, capture-avoidance of renaming."
)


def field_args(call: ast.Call, cls: str) -> Dict[str, ast.expr]:
    fields = QUANT_FIELDS[cls]
    out: Dict[str, ast.expr] = {}
    for i, a in enumerate(call.args):
        if i < len(fields):
            out[fields[i]] = a
    for k in call.keywords:
        if k.arg in fields:
            out[k.arg] = k.value
    return out


def returns_of(body: Sequence[ast.stmt]) -> List[ast.Return]:
    out = []
    for st in body:
        for n in [st] + list(walk_local(st)):
            if isinstance(n, ast.Return):
                out.append(n)
    return out


def reduce_shape(e: ast.expr) -> Optional[Tuple[str, str, str]]:
    """reduce(lambda a, b: a OP b, [ELT for x in ITER]) -> (OP, ELT with var X, ITER)"""
    if not (isinstance(e, ast.Call) and call_name(e) in ("reduce", "functools.reduce") and len(e.args) >= 2):
        return None
    lam, seq = e.args[0], e.args[1]
    if not (isinstance(lam, ast.Lambda) and isinstance(lam.body, ast.BinOp) and len(lam.args.args) == 2):
        if dotted(lam) in ("Formula.__and__", "operator.and_"):
            op = "&"
        elif dotted(lam) in ("Formula.__or__", "operator.or_"):
            op = "|"
        else:
            return None
    else:
        a, b = lam.args.args[0].arg, lam.args.args[1].arg
        if {src(lam.body.left), src(lam.body.right)} != {a, b}:
            return None
        op = "&" if isinstance(lam.body.op, ast.BitAnd) else "|" if isinstance(lam.body.op, ast.BitOr) else "?"
    if isinstance(seq, ast.Name):
        # local list: args = [f(arg) for arg in formula.args]
        fn = enclosing_def(e)
        name = seq.id
        bound = [n.value for n in walk_local(fn) if isinstance(n, ast.Assign) and len(n.targets) == 1 and src(n.targets[0]) == name]
        if len(bound) == 1:
            seq = bound[0]
    if not (isinstance(seq, (ast.ListComp, ast.GeneratorExp)) and len(seq.generators) == 1 and isinstance(seq.generators[0].target, ast.Name) and not seq.generators[0].ifs):
        return None
    var = seq.generators[0].target.id
    import re

    elt = re.sub(rf"\b{re.escape(var)}\b", "X", src(seq.elt))
    return op, elt, src(seq.generators[0].iter)


def rule_n1(ctx):
    concrete, abstract = formula_classes(ctx.repo, "C09.N1")
    m = ctx.repo.module(LANG, "C09.N1")
    neg = ctx.repo.func(LANG, "Formula.__neg__", "C09.N1")
    construct = f"{LANG}:Formula.__neg__"
    chain = if_chain(neg.body)
    seen: Set[str] = set()
    for test, body, node in chain:
        if test is None:
            continue
        classes = isinstance_classes(test, "self")
        if classes is None or len(classes) != 1:
            raise Unrecognised("C09.N1", construct, f"branch test {src(test)} not understood")
        c = classes[0]
        seen.add(c)
        rets = returns_of(body)
        if len(rets) != 1:
            raise Unrecognised("C09.N1", construct, f"branch for {c} has {len(rets)} returns")
        r = rets[0].value
        if c == "NegatedFormula":
            ctx.check(src(r) == "self.args[0]", "N1-duality", construct, "not not A = A", site(rets[0]), f"negating a negation must yield its operand, found {src(r)}", "operand")
        elif c in ("ConjunctiveFormula", "DisjunctiveFormula"):
            sh = reduce_shape(r)
            if sh is None:
                raise Unrecognised("C09.N1", construct, f"branch for {c}: {src(r)} not a reduce over negated args")
            want = "|" if c == "ConjunctiveFormula" else "&"
            ctx.check(sh == (want, "-X", "self.args"), "N1-duality", construct, f"De Morgan for {c}", site(rets[0]),
                      f"negation of a {c} must be the {'disjunction' if want == '|' else 'conjunction'} of ALL negated arguments; found operator {sh[0]} over {sh[1]} for X in {sh[2]}",
                      f"{want} over -arg for every arg")
        elif c in DUAL:
            if not (isinstance(r, ast.Call) and (dotted(r.func) or "").split(".")[-1] in QUANT_FIELDS):
                raise Unrecognised("C09.N1", construct, f"branch for {c}: {src(r)} is not a quantifier construction")
            got = (dotted(r.func) or "").split(".")[-1]
            ctx.check(got == DUAL[c], "N1-duality", construct, f"not {c} -> {DUAL[c]}", site(rets[0]), f"negating {c} must build {DUAL[c]}, builds {got}", "dual quantifier")
            fa = field_args(r, got)
            for f in QUANT_FIELDS[got]:
                want = "-self.inner_formula" if f == "inner_formula" else f"self.{f}"
                ctx.check(f in fa and src(fa[f]) == want, "N1-duality", construct, f"{c}: {f} = {want}", site(rets[0]),
                          f"dual of {c} must be built with {f}={want}; found {src(fa[f]) if f in fa else 'argument missing (dropped)'}", "field carried over")
        else:
            raise Unrecognised("C09.N1", construct, f"unexpected class {c} in the duality table")
    # fall-through
    last = neg.body[-1]
    ctx.check(isinstance(last, ast.Return) and src(last.value) == "NegatedFormula(self)", "N1-duality", construct, "atoms -> NegatedFormula(self)", site(last),
              f"formulas without a dual must be wrapped in NegatedFormula, found {src(last)}", "wrapped")
    need = {"NegatedFormula", "ConjunctiveFormula", "DisjunctiveFormula", "ForallFormula", "ExistsFormula", "ForallIntFormula", "ExistsIntFormula"} & set(concrete)
    missing = need - seen
    ctx.check(not missing, "N1-duality", construct, "every composite class has a dual", site(neg), f"classes {sorted(missing)} fall through to NegatedFormula(self): negation is not pushed inside and NNF/DNF invariants of the solver break", "all composite classes dualised")
    # SMTFormula.__neg__
    sneg = ctx.repo.func(LANG, "SMTFormula.__neg__", "C09.N1")
    rets = returns_of(sneg.body)
    c2 = f"{LANG}:SMTFormula.__neg__"
    if len(rets) == 1:
        deleg = [x for x in ast.walk(rets[0].value) if isinstance(x, ast.Call) and call_name(x) == "convert_smt_formula_to_nnf"]
        if deleg:
            d = deleg[0]
            neg_arg = src(d.args[1]) if len(d.args) > 1 else next((src(k.value) for k in d.keywords if k.arg == "negate"), None)
            ok = src(d.args[0]) == "self" and neg_arg == "True" and src(rets[0].value).replace(" ", "").endswith(".unwrap())") or src(rets[0].value).replace(" ", "").endswith(".unwrap()")
            ctx.check(ok and src(d.args[0]) == "self" and neg_arg == "True", "N1-smt-neg", c2, "delegates to convert_smt_formula_to_nnf(self, negate=True)", site(d),
                      f"SMT negation must be the NNF conversion of self under negate=True, found {src(d)}", "delegation with negate=True (its body is judged by N2/N11)")
            return
    if len(rets) != 1 or not (isinstance(rets[0].value, ast.Call) and call_name(rets[0].value) == "SMTFormula"):
        raise Unrecognised("C09.N1", c2, "expected a single SMTFormula(...) construction")
    call = rets[0].value
    a0 = src(call.args[0]).replace(" ", "")
    ctx.check(a0 in ("z3_push_in_negations(self.formula,negate=True)", "z3_push_in_negations(self.formula,True)", "z3.Not(self.formula)"), "N1-smt-neg", c2, "negated Z3 term", site(call),
              f"SMT negation must negate the Z3 term, found {src(call.args[0])}", "Z3 term negated")
    kws = {k.arg: src(k.value) for k in call.keywords}
    star = [src(a.value) for a in call.args[1:] if isinstance(a, ast.Starred)]
    ctx.check(star in (["self.free_variables()"], ["self.free_variables_"]), "N1-smt-neg", c2, "free variables kept", site(call), f"free variables passed: {star}", "kept")
    for k in ("instantiated_variables", "substitutions", "auto_eval", "auto_subst"):
        ctx.check(kws.get(k) == f"self.{k}", "N1-smt-neg", c2, f"{k} kept", site(call), f"{k} of the negated formula is {kws.get(k)}; tree substitutions/instantiations would be lost", "kept")


def rule_n2(ctx):
    concrete, abstract = formula_classes(ctx.repo, "C09.N2")
    m = ctx.repo.module(LANG, "C09.N2")
    fn = ctx.repo.func(LANG, "convert_to_nnf", "C09.N2")
    tables = check_flow_arity(ctx, "N2-arity", fn, min_handlers=6, raising_is_note=False)
    t = tables[0]
    covered: Set[str] = set()
    handlers = {}
    for h in t.handlers:
        target = resolve_handler(h, t.call, m)
        g = first_guard(target)
        if g is None:
            raise Unrecognised("C09.N2", f"{LANG}:{src(h)}", "no responsibility guard")
        # guards: not isinstance(f, C) [and not isinstance(f, D)]
        sig = significant_body(target)
        test = sig[0].test if sig and isinstance(sig[0], ast.If) else None
        if test is None:
            raise Unrecognised("C09.N2", f"{LANG}:{src(h)}", "responsibility guard is not the first significant statement")
        classes: List[str] = []
        for sub in ast.walk(test):
            if isinstance(sub, ast.Call) and call_name(sub) == "isinstance":
                classes += isinstance_classes(sub) or []
        cov = expand_classes(classes, concrete, abstract, m)
        covered |= cov
        handlers[src(h)] = (target, classes)
    missing = set(concrete) - covered
    ctx.check(not missing, "N2-exhaustive", f"{LANG}:convert_to_nnf", "handlers cover all concrete Formula classes", site(t.call),
              f"no NNF handler is responsible for {sorted(missing)}: convert_to_nnf raises NotImplementedError for such formulas (the solver converts every state)",
              f"{len(concrete)} concrete classes covered")
    # per-handler duality
    def H(name):
        if name not in handlers:
            raise Unrecognised("C09.N2", f"{LANG}:convert_to_nnf", f"handler {name} not in table")
        return handlers[name][0]

    # negated
    f = H("convert_negated_formula_to_nnf")
    rets = [r for r in returns_of(f.body) if src(r.value) != "Nothing"]
    ok = len(rets) == 1 and src(rets[0].value) == "Some(convert_to_nnf(formula.args[0], not negate))"
    ctx.check(ok, "N2-duality", f"{LANG}:{f.name}", "not A under negate -> A under (not negate)", site(f), f"found {src(rets[0].value) if rets else None}", "polarity flipped on the operand")
    # conj / disj
    for name, pos, negop in (("convert_conjunctive_formula_to_nnf", "&", "|"), ("convert_disjunctive_formula_to_nnf", "|", "&")):
        f = H(name)
        args_ok = any(isinstance(n, ast.Assign) and src(n.value) == "[convert_to_nnf(arg, negate) for arg in formula.args]" for n in walk_local(f))
        ctx.check(args_ok, "N2-duality", f"{LANG}:{name}", "all args converted with the same polarity", site(f), "arguments must all be converted with `negate`", "every argument converted")
        for r in returns_of(f.body):
            if src(r.value) == "Nothing":
                continue
            inner = r.value.args[0] if isinstance(r.value, ast.Call) and call_name(r.value) == "Some" else None
            sh = reduce_shape(inner) if inner is not None else None
            if sh is None:
                raise Unrecognised("C09.N2", f"{LANG}:{name}", f"return {src(r.value)} not understood")
            fs = facts(r)
            under_neg = any(f_.text == "negate" and f_.positive for f_ in fs)
            under_pos = any(f_.text == "negate" and not f_.positive for f_ in fs)
            if not (under_neg or under_pos):
                raise Unrecognised("C09.N2", f"{LANG}:{name}", "return not under a `negate` test")
            want = negop if under_neg else pos
            ctx.check(sh[0] == want, "N2-duality", f"{LANG}:{name}", f"{'negated' if under_neg else 'positive'} polarity -> {want}", site(r),
                      f"under negate={under_neg} the arguments must be combined with {want}, found {sh[0]}", f"combined with {want}")
    # predicates
    f = H("convert_structural_predicate_formula_to_nnf")
    rets = [r for r in returns_of(f.body) if src(r.value) != "Nothing"]
    ctx.check(len(rets) == 1 and src(rets[0].value) == "Some(-formula if negate else formula)", "N2-duality", f"{LANG}:{f.name}", "atom negated iff negate", site(f), f"found {src(rets[0].value) if rets else None}", "atom negated iff negate")
    # smt
    f = H("convert_smt_formula_to_nnf")
    ok = any(src(c).replace(" ", "") == "z3_push_in_negations(formula.formula,negate)" for c in calls_in(f))
    ctx.check(ok, "N2-duality", f"{LANG}:{f.name}", "Z3 term negated iff negate", site(f), "SMT atoms must be negated exactly when `negate`", "z3_push_in_negations(formula.formula, negate)")
    # quantifiers
    for name, a, b in (("convert_exists_int_formula_to_nnf", "ForallIntFormula", "ExistsIntFormula"), ("convert_quantified_formula_to_nnf", "ForallFormula", "ExistsFormula")):
        f = H(name)
        construct = f"{LANG}:{name}"
        inner = [n for n in walk_local(f) if isinstance(n, ast.Assign) and src(n.targets[0]) == "inner_formula"]
        ok = len(inner) == 1 and src(inner[0].value).replace("\n", " ") in (
            "convert_to_nnf(formula.inner_formula, negate) if negate else formula.inner_formula",
            "convert_to_nnf(formula.inner_formula, negate)",
        )
        ctx.check(ok, "N2-duality", construct, "body converted with the same polarity", site(f), f"inner formula: {src(inner[0].value) if inner else None}", "body negated iff negate")
        chain = if_chain(f.body)
        exist_test = None
        for test, body, node in chain:
            if test is not None and "negate" in src(test) and a in src(test):
                exist_test = (test, body, node)
        if exist_test is None:
            raise Unrecognised("C09.N2", construct, "polarity test selecting the existential result not found")
        want_test = f"isinstance(formula, {a}) and negate or (isinstance(formula, {b}) and (not negate))"
        ctx.check(src(exist_test[0]) == want_test, "N2-duality", construct, f"existential iff ({a} and negate) or ({b} and not negate)", site(exist_test[2]),
                  f"found test {src(exist_test[0])}", "quantifier flips exactly under negate")
        then_ret = returns_of(exist_test[1])
        else_ret = returns_of(exist_test[2].orelse)
        for rets, cls in ((then_ret, b), (else_ret, a)):
            if len(rets) != 1:
                raise Unrecognised("C09.N2", construct, "branch without single return")
            call = rets[0].value.args[0] if isinstance(rets[0].value, ast.Call) and call_name(rets[0].value) == "Some" else None
            got = (dotted(call.func) or "").split(".")[-1] if isinstance(call, ast.Call) else None
            ctx.check(got == cls, "N2-duality", construct, f"branch builds {cls}", site(rets[0]), f"expected {cls}, found {got}", f"builds {cls}")
            if got in QUANT_FIELDS:
                fa = field_args(call, got)
                for fld in QUANT_FIELDS[got]:
                    want = "inner_formula" if fld == "inner_formula" else f"formula.{fld}"
                    ctx.check(fld in fa and src(fa[fld]) == want, "N2-duality", construct, f"{cls}: {fld} = {want}", site(rets[0]),
                              f"{fld} must be carried over as {want}; found {src(fa[fld]) if fld in fa else 'missing'}", "field carried over")


def _narrowed_nary(node: ast.AST) -> Optional[str]:
    """Is `x` in `x.args[...]` known to be an n-ary combinator at this node?  Returns the class fact text."""
    if not (isinstance(node, ast.Attribute) and node.attr == "args"):
        return None
    owner = src(node.value)
    for f in facts(node):
        if f.positive and f.text.startswith(f"isinstance({owner}, ") and any(c in f.text for c in ("ConjunctiveFormula", "DisjunctiveFormula", "PropositionalCombinator")) and "NegatedFormula" not in f.text:
            return f.text
        if f.positive and f.text.startswith(f"type({owner}) is ") and any(c in f.text for c in ("ConjunctiveFormula", "DisjunctiveFormula")):
            return f.text
    # annotation of a parameter
    fn = enclosing_def(node)
    if fn is not None and isinstance(node.value, ast.Name):
        for a in fn.args.args:
            if a.arg == node.value.id and a.annotation is not None and any(c in src(a.annotation) for c in ("ConjunctiveFormula", "DisjunctiveFormula")) and "Formula |" not in src(a.annotation):
                return f"annotation {src(a.annotation)}"
    return None


def rule_n3(ctx):
    n_sites = 0
    for rel in (LANG, EVAL, SOLVER, "src/isla/isla_shortcuts.py", "src/isla/existential_helpers.py"):
        m = ctx.repo.module(rel, "C09.N3")
        for node in ast.walk(m.tree):
            # (1) x.args[<const>] under n-ary narrowing
            if isinstance(node, ast.Subscript) and isinstance(node.value, ast.Attribute) and node.value.attr == "args" and isinstance(node.slice, ast.Constant) and isinstance(node.slice.value, int):
                why = _narrowed_nary(node.value)
                if why is None:
                    continue
                n_sites += 1
                # legitimate: index under a len(x.args) == k fact
                owner = src(node.value)
                ok = any(f.positive and f.text.startswith(f"len({owner})") for f in facts(node))
                ctx.check(ok, "N3-nary", f"{rel}:{qual(node)}", src(node), site(node),
                          f"{src(node)} picks a fixed argument of an n-ary combinator ({why}); arguments beyond the first two are ignored for n-ary formulas", "guarded by an arity test")
            # (2) fixed-length unpacking of x.args or product(*L)
            targets = None
            it = None
            if isinstance(node, (ast.For, ast.comprehension)) and isinstance(node.target, (ast.Tuple, ast.List)):
                targets, it = node.target, node.iter
            elif isinstance(node, ast.Assign) and len(node.targets) == 1 and isinstance(node.targets[0], (ast.Tuple, ast.List)):
                targets, it = node.targets[0], node.value
            if targets is None or any(isinstance(e, ast.Starred) for e in targets.elts):
                continue
            if isinstance(it, ast.Attribute) and it.attr == "args" and isinstance(node, ast.Assign):
                why = _narrowed_nary(it)
                if why:
                    n_sites += 1
                    ctx.viol("N3-nary", f"{rel}:{qual(node)}", src(node)[:70], site(node), f"fixed-length unpacking of the args of an n-ary combinator ({why}) raises ValueError for other arities")
            if isinstance(it, ast.Call) and call_name(it) in ("itertools.product", "product", "zip") and len(it.args) == 1 and isinstance(it.args[0], ast.Starred):
                lst = it.args[0].value
                origin = _list_origin(lst, node)
                if origin is not None:
                    n_sites += 1
                    ctx.viol("N3-nary", f"{rel}:{qual(node)}", f"for {src(targets)} in {src(it)}", site(node),
                             f"{call_name(it)}(*{src(lst)}) yields tuples as long as {origin}, which has one entry per argument of an n-ary formula; unpacking into exactly "
                             f"{len(targets.elts)} names raises ValueError for every other arity (e.g. ConjunctiveFormula(a, b | c, d))")
    ctx.inventory["nary_sites_examined"] = n_sites
    # the rule's positive fixture
    fx = ast.parse("def f(formula):\n    if isinstance(formula, ConjunctiveFormula):\n        l = [g(a) for a in formula.args]\n        for x, y in itertools.product(*l):\n            pass\n")
    for n in ast.walk(fx):
        for c in ast.iter_child_nodes(n):
            c._parent = n
    hit = False
    for node in ast.walk(fx):
        if isinstance(node, ast.For) and isinstance(node.iter, ast.Call) and _list_origin(node.iter.args[0].value, node) is not None:
            hit = True
    if not hit:
        raise Unrecognised("C09.N3", "fixture", "positive fixture did not fire")


def _list_origin(lst: ast.expr, near: ast.AST) -> Optional[str]:
    """If `lst` is a local built as [.. for arg in X.args] (length-preserving over an n-ary args tuple) return a description."""
    if isinstance(lst, ast.Name):
        fn = near
        while fn is not None and not isinstance(fn, (ast.FunctionDef, ast.Module)):
            fn = getattr(fn, "_parent", None)
        if fn is None:
            return None
        for n in ast.walk(fn):
            if isinstance(n, ast.Assign) and len(n.targets) == 1 and src(n.targets[0]) == lst.id:
                return _list_origin(n.value, near)
        return None
    if isinstance(lst, (ast.ListComp, ast.GeneratorExp)) and len(lst.generators) == 1 and not lst.generators[0].ifs:
        it = lst.generators[0].iter
        if isinstance(it, ast.Attribute) and it.attr == "args":
            return f"`{src(lst)[:50]}` (one entry per element of {src(it)})"
    return None


REWRITERS = [
    "replace_formula",
    "convert_to_dnf",
    "ensure_unique_bound_variables",
    "convert_quantified_formula_to_nnf",
    "convert_exists_int_formula_to_nnf",
    "Formula.__neg__",
    "ForallFormula.transform",
    "ExistsFormula.transform",
    "ForallIntFormula.transform",
    "ExistsIntFormula.transform",
    "univ_close_over_var_push_in",
]


def rule_n4(ctx):
    m = ctx.repo.module(LANG, "C09.N4")
    n = 0
    for q in REWRITERS:
        f = m.get(q)
        if not isinstance(f, ast.FunctionDef):
            raise Unrecognised("C09.N4", f"{LANG}:{q}", "rewrite function not found")
        for c in calls_in(f):
            cls = (dotted(c.func) or "").split(".")[-1]
            if cls not in QUANT_FIELDS:
                continue
            fa = field_args(c, cls)
            bv = fa.get("bound_variable")
            if bv is None or not (isinstance(bv, ast.Attribute) and bv.attr == "bound_variable"):
                continue  # builds a new quantifier (not a rebuild)
            owner = src(bv.value)
            n += 1
            construct = f"{LANG}:{q}"
            for fld in QUANT_FIELDS[cls]:
                if fld in ("bound_variable", "inner_formula"):
                    continue
                got = fa.get(fld)
                ok = got is not None and f"{owner}.{fld}" in src(got)
                ctx.check(ok, "N4-rebuild-complete", construct, f"{cls} rebuilt from {owner}: {fld}", site(c),
                          f"the rewrite rebuilds a {cls} from `{owner}` but passes {fld}={src(got) if got is not None else '<nothing>'}: the original's {fld} "
                          "(e.g. its match expression) is silently dropped or replaced", "carried over from the original")
            if "inner_formula" not in fa:
                ctx.viol("N4-rebuild-complete", construct, f"{cls} rebuilt from {owner}: inner_formula", site(c), "inner formula missing")
    if n < 10:
        raise Unrecognised("C09.N4", LANG, f"only {n} quantifier rebuild sites found (expected >= 10)")


def rule_n5(ctx):
    """Early returns of __and__ / __or__ as propositional identities."""
    for meth, op in (("__and__", "and"), ("__or__", "or")):
        f = ctx.repo.func(LANG, f"Formula.{meth}", "C09.N5")
        construct = f"{LANG}:Formula.{meth}"
        n = 0
        for st in f.body:
            if isinstance(st, ast.If) and not st.orelse and len(st.body) == 1 and isinstance(st.body[0], ast.Return):
                cond = src(st.test)
                ret = st.body[0].value
                constraint = _guard_constraint(cond)
                if constraint is None:
                    raise Unrecognised("C09.N5", construct, f"guard `{cond}` not understood")
                n += 1
                bad_rows = []
                for a, b in itertools.product([False, True], repeat=2):
                    if not constraint(a, b):
                        continue
                    try:
                        val = prop_eval(ret, {"A": a, "B": b}, {"self": "A", "other": "B"})
                    except PropError as exc:
                        raise Unrecognised("C09.N5", construct, f"return {src(ret)} not understood ({exc})")
                    want = (a and b) if op == "and" else (a or b)
                    if val != want:
                        bad_rows.append((a, b))
                ctx.check(not bad_rows, "N5-simplification", construct, f"if {cond}: return {src(ret)}", site(st),
                          f"under `{cond}` the result {src(ret)} differs from (self {op} other) for operand values {bad_rows}", f"valid identity for `{op}`")
        last = f.body[-1]
        want = "ConjunctiveFormula(self, other)" if op == "and" else "DisjunctiveFormula(self, other)"
        ctx.check(isinstance(last, ast.Return) and src(last.value) == want, "N5-simplification", construct, f"default {want}", site(last), f"default must build {want}, found {src(last)}", "default builds the combinator over both operands")
        if n < 5:
            raise Unrecognised("C09.N5", construct, f"only {n} simplification cases found")


def _guard_constraint(cond: str):
    table = {
        "self == other": lambda a, b: a == b,
        "isinstance(self, SMTFormula) and self.is_false": lambda a, b: not a,
        "isinstance(other, SMTFormula) and other.is_false": lambda a, b: not b,
        "isinstance(self, SMTFormula) and self.is_true": lambda a, b: a,
        "isinstance(other, SMTFormula) and other.is_true": lambda a, b: b,
        "isinstance(self, SMTFormula) and z3.is_true(self.formula)": lambda a, b: a,
        "isinstance(other, SMTFormula) and z3.is_true(other.formula)": lambda a, b: b,
        "isinstance(self, SMTFormula) and z3.is_false(self.formula)": lambda a, b: not a,
        "isinstance(other, SMTFormula) and z3.is_false(other.formula)": lambda a, b: not b,
        "isinstance(self, NegatedFormula) and self.args[0] == other": lambda a, b: a == (not b),
        "isinstance(other, NegatedFormula) and other.args[0] == self": lambda a, b: b == (not a),
    }
    table.update({
        # `other` is one of the conjuncts of self: self implies other;  one of the disjuncts: other implies self (and symmetrically)
        "other in split_conjunction(self)": lambda a, b: (not a) or b,
        "self in split_conjunction(other)": lambda a, b: (not b) or a,
        "other in split_disjunction(self)": lambda a, b: (not b) or a,
        "self in split_disjunction(other)": lambda a, b: (not a) or b,
    })
    if cond in table:
        return table[cond]
    try:
        e = ast.parse(cond, mode="eval").body
    except SyntaxError:
        return None
    if isinstance(e, ast.BoolOp):
        parts = [_guard_constraint(src(v)) for v in e.values]
        if any(p_ is None for p_ in parts):
            return None
        if isinstance(e.op, ast.Or):
            return lambda a, b: any(p_(a, b) for p_ in parts)
        return lambda a, b: all(p_(a, b) for p_ in parts)
    return None


def rule_n6(ctx):
    """replace_formula / convert_to_dnf / ensure_unique: connective preserved when recursing into combinators."""
    m = ctx.repo.module(LANG, "C09.N6")
    for q in ("replace_formula", "ensure_unique_bound_variables", "convert_to_dnf"):
        f = ctx.repo.func(LANG, q, "C09.N6")
        var = f.args.args[0].arg
        for test, body, node in if_chain(f.body):
            if test is None:
                continue
            cl = isinstance_classes(test, var)
            if cl is None and isinstance(test, ast.BoolOp):
                for v in test.values:
                    cl = cl or isinstance_classes(v, var)
            if not cl or cl[0] not in ("ConjunctiveFormula", "DisjunctiveFormula"):
                continue
            for r in returns_of(body):
                sh = None
                for c in [r.value] + [x for x in ast.walk(r.value) if isinstance(x, ast.Call)]:
                    sh = reduce_shape(c)
                    if sh is not None and sh[2].endswith(".args"):
                        break
                    if sh is not None and q == "convert_to_dnf":
                        break
                if sh is None:
                    if src(r.value) == var:
                        continue
                    raise Unrecognised("C09.N6", f"{LANG}:{q}", f"{cl[0]} branch return {src(r.value)[:60]} not understood")
                want = "&" if cl[0] == "ConjunctiveFormula" else "|"
                if q == "convert_to_dnf" and cl[0] == "ConjunctiveFormula":
                    want = "|"  # a conjunction of DNFs becomes a disjunction of conjunctions
                ctx.check(sh[0] == want, "N6-connective-kept", f"{LANG}:{q}", f"{cl[0]} rebuilt with {want}", site(r),
                          f"the {cl[0]} branch recombines its converted arguments with {sh[0]} instead of {want}", f"recombined with {want}")
    # DNF inner: conjunction of one pick per argument
    f = ctx.repo.func(LANG, "convert_to_dnf", "C09.N6")
    prods = [c for c in calls_in(f) if call_name(c) == "itertools.product"]
    ok = len(prods) == 1 and src(prods[0]) == "itertools.product(*disjuncts_list)"
    ctx.check(ok, "N6-dnf-shape", f"{LANG}:convert_to_dnf", "one disjunct per argument", site(f), "DNF of a conjunction must range over the product of the arguments' disjunct lists", "product over all arguments")
    dl = [n for n in walk_local(f) if isinstance(n, ast.Assign) and src(n.targets[0]) == "disjuncts_list"]
    ok = len(dl) == 1 and src(dl[0].value) == "[split_disjunction(convert_to_dnf(arg)) for arg in formula.args]"
    ctx.check(ok, "N6-dnf-shape", f"{LANG}:convert_to_dnf", "disjunct lists of every argument", site(f), f"found {src(dl[0].value) if dl else None}", "every argument converted and split")


def rule_n7(ctx):
    """Equality of formulas distinguishes the connective / quantifier kind (the simplifying __and__/__or__ return one operand when `self == other`)."""
    concrete, abstract = formula_classes(ctx.repo, "C09.N7")
    m = ctx.repo.module(LANG, "C09.N7")
    allc = {**concrete, **abstract}
    n = 0
    for name, cls in sorted(allc.items()):
        eq = m.get(f"{name}.__eq__")
        if not isinstance(eq, ast.FunctionDef) or any("abstractmethod" in src(d) for d in eq.decorator_list):
            continue
        n += 1
        t = " ".join(src(eq).split())
        covers = expand_classes([name], concrete, abstract, m)
        exact = "type(self) is type(other)" in t or "type(other) is type(self)" in t
        inst = [x for x in ast.walk(eq) if isinstance(x, ast.Call) and call_name(x) == "isinstance" and src(x.args[0]) == "other"]
        split = "split_conjunction(self) == split_conjunction(other)" in t or "split_disjunction(self) == split_disjunction(other)" in t
        if exact or split:
            ctx.ok("N7-eq-distinguishes-kind", f"{LANG}:{name}.__eq__", "exact type test", site(eq), "type identity (or flattening of the same connective)")
            continue
        if not inst:
            raise Unrecognised("C09.N7", f"{LANG}:{name}.__eq__", "no type test recognised")
        for c in inst:
            k = (isinstance_classes(c) or ["?"])
            cov = expand_classes(k, concrete, abstract, m)
            ctx.check(len(cov) <= 1, "N7-eq-distinguishes-kind", f"{LANG}:{name}.__eq__", f"isinstance(other, {', '.join(k)})", site(c),
                      f"equality only requires `other` to be an instance of {k}, which covers the different kinds {sorted(cov)}: e.g. a forall equals the exists with the same binder and body, "
                      "and `f | g` / `f & g` (which return one operand when `self == other`) silently drop the other one", "covers a single concrete class")
    if n < 8:
        raise Unrecognised("C09.N7", LANG, f"only {n} __eq__ methods of formula classes found")
    # ensure_unique_bound_variables: names bound anywhere below must be avoided (recursive collector)
    f = ctx.repo.func(LANG, "ensure_unique_bound_variables", "C09.N7")
    t = " ".join(src(f).split())
    rec = "BoundVariablesCollector().collect(formula).difference(formula.bound_variables())" in t or "BoundVariablesCollector().collect(formula)" in t
    nonrec = ".inner_formula.bound_variables()" in t and not rec
    if not rec and not nonrec:
        raise Unrecognised("C09.N7", f"{LANG}:ensure_unique_bound_variables", "collection of inner bound names not recognised")
    ctx.check(rec, "N7-rename-avoids-inner-binders", f"{LANG}:ensure_unique_bound_variables", "names bound at any depth below are avoided", site(f),
              "the names to avoid are collected with the non-recursive bound_variables() (documented: 'only non-empty for quantified formulas', one level): a variable renamed to "
              "<stem>_<n> can be captured by a quantifier two or more levels further inside that binds the same name", "recursive BoundVariablesCollector")


Z3H = "src/isla/z3_helpers.py"


class _PathEval:
    """Tiny path-sensitive interpreter for z3_push_in_negations: runs the statement list for one (kind of formula, negate) case and returns the shape of what is
    returned: (constructor, flag handed to the recursive calls on the children) - abstract, no repository code is executed."""

    def __init__(self, fname, kind, negate, rule, construct):
        self.fname, self.kind, self.negate, self.rule, self.c = fname, kind, negate, rule, construct
        self.env = {}

    def bad(self, why):
        raise Unrecognised(self.rule, self.c, why)

    def test(self, e) -> bool:
        t = src(e)
        table = {"z3.is_not(formula)": self.kind == "not", "z3.is_and(formula)": self.kind == "and", "z3.is_or(formula)": self.kind == "or",
                 "isinstance(formula, z3.QuantifierRef)": self.kind in ("forall", "exists"), "z3.is_quantifier(formula)": self.kind in ("forall", "exists"),
                 "formula.is_forall()": self.kind == "forall", "formula.is_exists()": self.kind == "exists", "negate": self.negate}
        if t in table:
            return table[t]
        if isinstance(e, ast.UnaryOp) and isinstance(e.op, ast.Not):
            return not self.test(e.operand)
        if isinstance(e, ast.BoolOp):
            vs = [self.test(v) for v in e.values]
            return all(vs) if isinstance(e.op, ast.And) else any(vs)
        self.bad(f"test `{t}` not understood")

    def flag(self, e):
        if isinstance(e, ast.Constant) and isinstance(e.value, bool):
            return e.value
        if isinstance(e, ast.Name) and e.id == "negate":
            return self.negate
        if isinstance(e, ast.UnaryOp) and isinstance(e.op, ast.Not):
            return not self.flag(e.operand)
        self.bad(f"negate argument `{src(e)}` not understood")

    def rec_flag(self, e):
        """flag of the recursive call(s) inside expression e (all must agree); None if there is no recursive call"""
        flags = set()
        for c in [x for x in ast.walk(e) if isinstance(x, ast.Call) and call_name(x) == self.fname]:
            if len(c.args) >= 2:
                flags.add(self.flag(c.args[1]))
            elif any(k.arg == "negate" for k in c.keywords):
                flags.add(self.flag(next(k.value for k in c.keywords if k.arg == "negate")))
            else:
                flags.add(False)
        for n in [x for x in ast.walk(e) if isinstance(x, ast.Name) and x.id in self.env]:
            f_ = self.rec_flag(self.env[n.id])
            if f_ is not None:
                flags.add(f_)
        if len(flags) > 1:
            self.bad(f"children are pushed with different flags in `{src(e)[:60]}`")
        return next(iter(flags)) if flags else None

    def value(self, e):
        if isinstance(e, ast.IfExp):
            return self.value(e.body if self.test(e.test) else e.orelse)
        if isinstance(e, ast.Call):
            n = call_name(e)
            if n == self.fname:
                return ("rec", self.rec_flag(e))
            if n in ("z3.And", "z3.Or", "z3.Exists", "z3.ForAll", "z3_and", "z3_or"):
                return ({"z3_and": "z3.And", "z3_or": "z3.Or"}.get(n, n), self.rec_flag(e))
            if n == "z3.simplify" and len(e.args) == 1:
                return self.value(e.args[0])
            if n == "z3.Not" and len(e.args) == 1 and src(e.args[0]) == "formula":
                return ("z3.Not(formula)", None)
        if isinstance(e, ast.Name) and e.id == "formula":
            return ("formula", None)
        if isinstance(e, ast.Name) and e.id in self.env:
            return self.value(self.env[e.id])
        self.bad(f"returned expression `{src(e)[:70]}` not understood")

    def run(self, stmts):
        for st in stmts:
            if isinstance(st, ast.If):
                r = self.run(st.body if self.test(st.test) else st.orelse)
                if r is not None:
                    return r
            elif isinstance(st, ast.Return):
                return self.value(st.value)
            elif isinstance(st, ast.Assign) and len(st.targets) == 1 and isinstance(st.targets[0], ast.Name):
                self.env[st.targets[0].id] = st.value
            elif isinstance(st, ast.Expr) and isinstance(st.value, ast.Constant):
                continue
            elif isinstance(st, (ast.Assert, ast.Pass)):
                continue  # cannot change what is returned
            else:
                self.bad(f"statement `{src(st)[:60]}` not understood")
        return None


def rule_n9(ctx):
    """z3_push_in_negations (negation normal form INSIDE an SMT atom) - duality table computed per (connective, negate) case."""
    f = ctx.repo.func(Z3H, "z3_push_in_negations", "C09.N9")
    c = f"{Z3H}:z3_push_in_negations"
    want = {("not", False): ("rec", True), ("not", True): ("rec", False),
            ("and", False): ("z3.And", False), ("and", True): ("z3.Or", True), ("or", False): ("z3.Or", False), ("or", True): ("z3.And", True),
            ("forall", False): ("z3.ForAll", False), ("forall", True): ("z3.Exists", True), ("exists", False): ("z3.Exists", False), ("exists", True): ("z3.ForAll", True),
            ("atom", False): ("formula", None), ("atom", True): ("z3.Not(formula)", None)}
    for (kind, negate), expected in want.items():
        got = _PathEval("z3_push_in_negations", kind, negate, "C09.N9", c).run(f.body)
        ctx.check(got == expected, "N9-z3-duality", c, f"{kind} under negate={negate} -> {expected[0]}" + (f" with children pushed under negate={expected[1]}" if expected[1] is not None else ""), site(f),
                  f"for a `{kind}` term under negate={negate} the function builds {got} instead of {expected}: e.g. `not (or a b)` must become `(and (not a) (not b))`", "De Morgan / quantifier duality")


def rule_n10(ctx, prefix="N10"):
    """Substitution never drops a tree quantifier: `forall x in t: phi` with x not free in phi is NOT phi - it holds vacuously when t has no element of x's type
    (and `exists x in t: phi` is false then).  Every return of a quantifier's substitute_* method must rebuild the same quantifier."""
    m = ctx.repo.module(LANG, f"C09.{prefix}")
    n = 0
    for cls in ("ForallFormula", "ExistsFormula", "ForallIntFormula", "ExistsIntFormula"):
        for meth in ("substitute_expressions", "substitute_variables"):
            fn = m.get(f"{cls}.{meth}")
            if not isinstance(fn, ast.FunctionDef):
                continue
            construct = f"{LANG}:{cls}.{meth}"
            for r in [x for x in walk_local(fn) if isinstance(x, ast.Return)]:
                n += 1
                v = r.value
                rebuilt = isinstance(v, ast.Call) and call_name(v) in (cls, f"type(self)", "self.__class__")
                ctx.check(rebuilt, f"{prefix}-quantifier-kept", construct, f"return {src(v)[:40]} rebuilds {cls}", site(r),
                          f"the method can return `{' '.join(src(v).split())[:60]}` instead of a {cls}: the quantifier is dropped (e.g. when its variable does not occur in the body), but over a tree without "
                          f"any element of the bound type a universal formula is vacuously TRUE and an existential one FALSE, whatever the body says - "
                          "evaluate('forall <digit> d in start: exists <var> v in start: v = \"z\"') on 'a := b' answers FALSE", f"always a {cls}")
    if n < 6:
        raise Unrecognised(f"C09.{prefix}", LANG, f"only {n} returns of quantifier substitution methods found")


def rule_n11(ctx):
    """Z3 simplification can remove variables (`not (x = x)` becomes False): whoever wraps a simplified Z3 term into an SMTFormula must pass only the variables that
    still occur (SMTFormula.__init__ asserts the counts agree).  Sibling rule: convert_smt_formula_to_nnf filters by get_symbols; every other site must too."""
    m = ctx.repo.module(LANG, "C09.N11")
    n = 0
    for q, fn in m.functions():
        if not isinstance(fn, ast.FunctionDef):
            continue
        for c in calls_in(fn, include_nested=False):
            if call_name(c) != "SMTFormula" or not c.args:
                continue
            first = c.args[0]
            srcs = [first]
            if isinstance(first, ast.Name):
                srcs += [a.value for a in walk_local(fn) if isinstance(a, ast.Assign) and src(a.targets[0]) == first.id]
            simplifying = any(isinstance(x, ast.Call) and call_name(x) in ("z3_push_in_negations", "z3.simplify") for e in srcs for x in ast.walk(e))
            if not simplifying:
                continue
            n += 1
            star = [a.value for a in c.args if isinstance(a, ast.Starred)]
            construct = f"{LANG}:{q}"
            if not star:
                ctx.ok("N11-vars-after-simplification", construct, "no variables passed", site(c), "formula without free variables")
                continue
            flows = origins(fn, star[0])
            filtered = any(o in ("get_symbols", "actual_symbols") or o.endswith("get_symbols") for o in flows)
            ctx.check(filtered, "N11-vars-after-simplification", construct, f"variables of {src(first)[:40]} filtered by the symbols that are left", site(c),
                      f"the simplified term `{src(first)[:50]}` is wrapped with the variables `{src(star[0])[:40]}` of the original formula: when simplification removes a variable "
                      "(`not (q = q)` -> False) SMTFormula's consistency assertion fails - parse_isla('exists <var> q in start: not (q = q)') raises AssertionError", "filtered through get_symbols(...)")
    if n < 1:
        raise Unrecognised("C09.N11", LANG, "no SMTFormula construction over a simplified term found (expected convert_smt_formula_to_nnf)")


def rule_n12(ctx):
    """The memo of a BindExpression (`prefixes`: tree prefixes whose bindings name the expression's own variable objects) belongs to that object: it is created
    empty by __init__ and filled by to_tree_prefix only.  Copying it to a renamed copy makes the copy answer with the OLD variables."""
    m = ctx.repo.module(LANG, "C09.N12")
    writers = []
    for q, fn in m.functions():
        if not isinstance(fn, ast.FunctionDef):
            continue
        for a in walk_local(fn):
            tg = []
            if isinstance(a, ast.Assign):
                tg = a.targets
            elif isinstance(a, (ast.AugAssign, ast.AnnAssign)):
                tg = [a.target]
            for t in tg:
                base = t.value if isinstance(t, ast.Subscript) else t
                if isinstance(base, ast.Attribute) and base.attr == "prefixes":
                    writers.append((q, a, src(base.value)))
        for c in calls_in(fn, include_nested=False):
            if isinstance(c.func, ast.Attribute) and c.func.attr in ("update", "setdefault") and isinstance(c.func.value, ast.Attribute) and c.func.value.attr == "prefixes":
                writers.append((q, c, src(c.func.value.value)))
    if not writers:
        raise Unrecognised("C09.N12", LANG, "no writer of BindExpression.prefixes found")
    for q, node, recv in writers:
        ok = q in ("BindExpression.__init__", "BindExpression.to_tree_prefix") and recv == "self"
        ctx.check(ok, "N12-mexpr-memo-owner", f"{LANG}:{q}", f"{src(node)[:50]} written by its owner only", site(node),
                  f"the memo `prefixes` of a match expression is written in `{q}` (receiver `{recv}`): its entries map the ORIGINAL variable objects to paths, so a renamed copy "
                  "(substitute_variables, as ensure_unique_bound_variables produces) answers with variables that do not occur in the renamed formula - evaluation yields UNKNOWN instead of a verdict",
                  "created by __init__, filled by to_tree_prefix on self")


def rule_n13(ctx):
    """Traversals recurse into every sub-formula (sibling agreement over the Formula hierarchy): `transform` rebuilds a composite formula from the TRANSFORMED
    sub-formulas, `accept` visits them.  A transformer that silently skips the body of one quantifier kind leaves sugar (XPath / free nonterminals) untranslated there."""
    m = ctx.repo.module(LANG, "C09.N13")
    composite = {"NegatedFormula": "args", "ConjunctiveFormula": "args", "DisjunctiveFormula": "args", "ForallFormula": "inner_formula", "ExistsFormula": "inner_formula",
                 "ForallIntFormula": "inner_formula", "ExistsIntFormula": "inner_formula"}
    n = 0
    for cls, field in composite.items():
        tr = m.get(f"{cls}.transform")
        if not isinstance(tr, ast.FunctionDef):
            raise Unrecognised("C09.N13", f"{LANG}:{cls}", "transform not found")
        pname = tr.args.args[1].arg
        t = " ".join(src(tr).split())
        n += 1
        if field == "inner_formula":
            good = f"self.inner_formula.transform({pname})" in t
            raw = [c for c in calls_in(tr) if call_name(c) == cls and any(src(a) == "self.inner_formula" for a in c.args)]
            if good and not raw:
                ctx.ok("N13-traversal-recurses", f"{LANG}:{cls}.transform", "body transformed", site(tr), f"self.inner_formula.transform({pname})")
            elif raw:
                ctx.viol("N13-traversal-recurses", f"{LANG}:{cls}.transform", "body transformed", site(raw[0]),
                         f"{cls}.transform rebuilds the quantifier with the UNTRANSFORMED body `self.inner_formula`, unlike its sibling classes: transformers (e.g. the XPath / match-expression "
                         "translation) never reach formulas below this quantifier kind, so sugar inside it keeps its untranslated meaning")
            else:
                raise Unrecognised("C09.N13", f"{LANG}:{cls}.transform", "treatment of inner_formula not understood")
        else:
            good = f"arg.transform({pname}) for arg in self.args" in t or f"self.args[0].transform({pname})" in t
            if not good:
                raw = "*self.args" in t or "self.args[0])" in t
                if raw:
                    ctx.viol("N13-traversal-recurses", f"{LANG}:{cls}.transform", "arguments transformed", site(tr), f"{cls}.transform passes its arguments on untransformed")
                else:
                    raise Unrecognised("C09.N13", f"{LANG}:{cls}.transform", "treatment of args not understood")
            else:
                ctx.ok("N13-traversal-recurses", f"{LANG}:{cls}.transform", "arguments transformed", site(tr), "every argument transformed")
        ac = m.get(f"{cls}.accept")
        if isinstance(ac, ast.FunctionDef):
            t2 = " ".join(src(ac).split())
            vn = ac.args.args[1].arg
            rec = (f"self.inner_formula.accept({vn})" in t2) if field == "inner_formula" else (f".accept({vn})" in t2 and "self.args" in t2)
            ctx.check(rec, "N13-traversal-recurses", f"{LANG}:{cls}.accept", "sub-formulas visited", site(ac), f"{cls}.accept does not visit its sub-formulas", "recurses")
    if n < 7:
        raise Unrecognised("C09.N13", LANG, "composite classes missing")


def rule_n8(ctx):
    """Renaming / substitution maps are applied SIMULTANEOUSLY: no substitute_* method folds the map entry by entry over an accumulator
    (a chained map {v0 -> v1, v1 -> v2}, as ensure_unique_bound_variables produces, would collapse v0 and v1)."""
    m = ctx.repo.module(LANG, "C09.N8")
    n = 0
    for q, fn in m.functions():
        if not isinstance(fn, ast.FunctionDef) or fn.name not in ("substitute_variables", "substitute_expressions"):
            continue
        params = [a.arg for a in fn.args.args if a.arg != "self"]
        if not params:
            continue
        mp = params[0]
        n += 1
        construct = f"{LANG}:{q}"
        seq = None
        for loop in [x for x in walk_local(fn) if isinstance(x, ast.For)]:
            if mp not in {y.id for y in ast.walk(loop.iter) if isinstance(y, ast.Name)}:
                continue
            for a in ast.walk(loop):
                if isinstance(a, ast.Assign) and len(a.targets) == 1 and isinstance(a.targets[0], ast.Name):
                    acc = a.targets[0].id
                    reads_acc = any(isinstance(y, ast.Name) and y.id == acc for y in ast.walk(a.value))
                    has_call = any(isinstance(y, ast.Call) for y in ast.walk(a.value))
                    if reads_acc and has_call:
                        seq = (loop, a)
        if seq is None:
            ctx.ok("N8-simultaneous-substitution", construct, f"`{mp}` applied in one pass", site(fn), "no entry-by-entry fold over the map")
        else:
            loop, a = seq
            ctx.viol("N8-simultaneous-substitution", construct, f"`{mp}` applied in one pass", site(a),
                     f"the map `{mp}` is applied one entry at a time (`{' '.join(src(a).split())[:70]}` inside `for {src(loop.target)} in {src(loop.iter)}`): this is sequential, not simultaneous "
                     "substitution - for a chained renaming {v_0 -> v_1, v_1 -> v_2} both variables end up as v_2 and a formula such as `not v_0 = v_1` changes its meaning")
    if n < 8:
        raise Unrecognised("C09.N8", LANG, f"only {n} substitute_* methods found (expected >= 8)")


def run(ctx) -> str:
    ctx.guarded("N8", lambda: rule_n8(ctx))
    ctx.guarded("N9", lambda: rule_n9(ctx))
    ctx.guarded("N10", lambda: rule_n10(ctx))
    ctx.guarded("N11", lambda: rule_n11(ctx))
    ctx.guarded("N12", lambda: rule_n12(ctx))
    ctx.guarded("N13", lambda: rule_n13(ctx))
    ctx.guarded("N7", lambda: rule_n7(ctx))
    ctx.guarded("N1", lambda: rule_n1(ctx))
    ctx.guarded("N2", lambda: rule_n2(ctx))
    ctx.guarded("N3", lambda: rule_n3(ctx))
    ctx.guarded("N4", lambda: rule_n4(ctx))
    ctx.guarded("N5", lambda: rule_n5(ctx))
    ctx.guarded("N6", lambda: rule_n6(ctx))
    ctx.assume("Formula.__eq__ is semantic-preserving equality; SMTFormula.is_true/is_false reflect the Z3 literal")
    return EXPLANATION
