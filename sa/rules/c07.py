"""C07 — Unparsed constraints parse back to the same constraint."""

from __future__ import annotations

import ast
import os
import re as _re
from typing import Dict, List, Optional, Set, Tuple

from ..core import Unrecognised, NotConstant, call_name, calls_in, dotted, enclosing_def, facts, fold, module_of, parent, qual, site, src, template, walk_local, Slot
from ..formulas import LANG, QUANT_FIELDS, expand_classes, formula_classes, if_chain, isinstance_classes
from ..listener import ContextModel, annotated_contexts
from . import c17

Z3H = "src/isla/z3_helpers.py"
G4 = "src/isla/IslaLanguage.g4"
PARSER = "src/isla/isla_language/IslaLanguageParser.py"
LEXER = "src/isla/isla_language/IslaLanguageLexer.py"
MPARSER = "src/isla/mexpr_parser/MexprParser.py"
BNFPARSER = "src/isla/bnf/bnfParser.py"

EXPLANATION = (
    "Static necessary conditions for C07 over ISLaUnparser / ISLaEmitter (src/isla/language.py), smt_expr_to_str (z3_helpers.py) and the generated "
    "parsers: decided: (U1) the unparser's dispatch covers every concrete Formula class; (U2) every keyword the unparser emits and every operator "
    "spelling smt_expr_to_str overrides is a literal of the ISLa lexer grammar; (U3) the quote escape of SMT string literals written by "
    "smt_expr_to_str is undone by exitSMTFormula before z3.parse_smt2_string; (U4) match expressions: every unescape the reader "
    "(MExprEmitter.exitMatchExprChars + instantiate_escaped_symbols) performs has an escape in the writer (BindExpression.__str__); (U5) fresh "
    "names for free nonterminals / XPath expressions avoid the constant's name and all names handed out before; (U6) every attribute a listener "
    "method reads from its ctx is a member of (one of) the annotated generated context classes or of the ANTLR runtime base classes; (U7) every "
    "labelled alternative of the rules formula / sexpr has an exit method storing into the corresponding result map; (U8) every field a formula "
    "class compares in __eq__ is written by the unparser for that class. NOT decided: equality/idempotence of the round trip in general."
)


def rule_u1(ctx):
    concrete, abstract = formula_classes(ctx.repo, "C07.U1")
    m = ctx.repo.module(LANG, "C07.U1")
    f = ctx.repo.func(LANG, "ISLaUnparser._unparse_constraint", "C07.U1")
    covered: Set[str] = set()
    methods = {}
    for test, body, node in if_chain(f.body):
        if test is None:
            ok = any(isinstance(s, ast.Raise) for s in body)
            ctx.check(ok, "U1-unparser-total", f"{LANG}:ISLaUnparser._unparse_constraint", "fall-through raises", site(node), "unknown formula classes must not be printed as nothing", "raises NotImplementedError")
            continue
        cl = isinstance_classes(test, "formula")
        if cl is None:
            raise Unrecognised("C07.U1", f"{LANG}:ISLaUnparser._unparse_constraint", f"test {src(test)} not understood")
        cov = expand_classes(cl, concrete, abstract, m)
        covered |= cov
        rets = [s for s in body if isinstance(s, ast.Return)]
        if rets and isinstance(rets[0].value, ast.Call):
            for c in cov:
                methods[c] = (dotted(rets[0].value.func) or "").split(".")[-1]
    missing = set(concrete) - covered
    ctx.check(not missing, "U1-unparser-total", f"{LANG}:ISLaUnparser._unparse_constraint", "covers all concrete Formula classes", site(f),
              f"formula classes {sorted(missing)} have no unparse case: unparse_isla raises NotImplementedError for constraints parse_isla accepts", f"{len(concrete)} classes covered")
    ctx.inventory["unparse_methods"] = methods
    return methods


def g4_literals(ctx) -> Set[str]:
    p = os.path.join(ctx.repo.root, G4)
    if not os.path.isfile(p):
        raise Unrecognised("C07.U2", G4, "grammar file not found")
    ctx.repo.consulted.add(G4)
    text = open(p, encoding="utf-8").read()
    return set(_re.findall(r"'((?:[^'\\]|\\.)+)'", text))


def rule_u2(ctx):
    lits = g4_literals(ctx)
    # cross-check with the generated lexer's literalNames (the grammar actually compiled)
    lm = ctx.repo.module(LEXER, "C07.U2")
    gen = set()
    for n in ast.walk(lm.tree):
        if isinstance(n, ast.Assign) and any(isinstance(t, ast.Name) and t.id == "literalNames" for t in n.targets):
            try:
                gen = {x.strip("'") for x in fold(n.value) if x != "<INVALID>"}
            except NotConstant:
                pass
    if not gen:
        raise Unrecognised("C07.U2", LEXER, "literalNames not found")
    m = ctx.repo.module(LANG, "C07.U2")
    cls = m.get("ISLaUnparser")
    words: Dict[str, ast.AST] = {}
    for fn in [n for n in cls.body if isinstance(n, ast.FunctionDef)]:
        for n in ast.walk(fn):
            if isinstance(n, ast.Constant) and isinstance(n.value, str) and not isinstance(parent(n), ast.Expr):
                # skip error messages
                if any(isinstance(a, ast.Raise) for a in _ancestors(n)) or any(isinstance(a, ast.Assert) for a in _ancestors(n)):
                    continue
                if isinstance(parent(n), ast.Call) and call_name(parent(n)) in ("Constant", "BoundVariable"):
                    continue  # a variable object, not emitted text
                for w in _re.findall(r"[A-Za-z_]+", n.value):
                    if w in ("n",):
                        continue
                    words.setdefault(w, n)
    if len(words) < 6:
        raise Unrecognised("C07.U2", f"{LANG}:ISLaUnparser", f"only {len(words)} keywords found in the unparser templates")
    for w, node in sorted(words.items()):
        ctx.check(w in gen, "U2-vocabulary", f"{LANG}:{qual(node)}", f"keyword '{w}'", site(node),
                  f"the unparser emits the keyword '{w}', which is not a literal of the ISLa lexer ({sorted(x for x in gen if x.isalpha())}): the text cannot be re-parsed", "lexer literal")
    f = ctx.repo.func(Z3H, "smt_expr_to_str", "C07.U2")
    ops = None
    for n in walk_local(f):
        if isinstance(n, ast.Assign) and src(n.targets[0]) == "op_strings" and isinstance(n.value, ast.Dict):
            ops = n.value
    if ops is None:
        raise Unrecognised("C07.U2", f"{Z3H}:smt_expr_to_str", "op_strings table not found")
    for k, v in zip(ops.keys, ops.values):
        try:
            sp = fold(v)
        except NotConstant:
            raise Unrecognised("C07.U2", f"{Z3H}:smt_expr_to_str", f"operator spelling {src(v)} not constant")
        ctx.check(sp in lits or _re.fullmatch(r"[A-Za-z_][A-Za-z_\-.^0-9]*", sp) is not None, "U2-vocabulary", f"{Z3H}:smt_expr_to_str", f"{src(k)} -> '{sp}'", site(v),
                  f"smt_expr_to_str spells {src(k)} as '{sp}', which is neither an operator literal of IslaLanguage.g4 nor lexes as an ID", "operator literal / ID of the grammar")
    # Z3 declaration names that differ from the spelling the ISLa reader accepts: the generic fallback `f.decl().name()` would emit them verbatim.
    # (trusted table about the z3 package: ITE is named "if"; every other operator of the fragment round-trips under its own name)
    Z3_DIVERGENT = {"z3.Z3_OP_ITE": ("if", "ite")}
    fallback = any(isinstance(a, ast.Assign) and src(a.targets[0]) == "op" and src(a.value) == "f.decl().name()" for a in walk_local(f))
    spelled = {src(k): v for k, v in zip(ops.keys, ops.values)}
    prot = ctx.repo.func(LANG, "ISLaEmitter.is_protected_smtlib_keyword", "C07.U2")
    protected = set()
    for n in ast.walk(prot):
        if isinstance(n, ast.Set):
            try:
                protected |= set(fold(n))
            except NotConstant:
                pass
    for kind, (z3name, want) in Z3_DIVERGENT.items():
        if not fallback:
            break
        got = None
        if kind in spelled:
            try:
                got = fold(spelled[kind])
            except NotConstant:
                got = None
        ctx.check(got == want and want in protected, "U2-vocabulary", f"{Z3H}:smt_expr_to_str", f"{kind} -> '{want}' (Z3 names it '{z3name}')", site(ops),
                  f"{kind} is printed through the fallback `f.decl().name()` as '{z3name}', which the ISLa reader takes for an undeclared variable (its keyword list has '{want}'): "
                  f"`(= (ite (= v \"a\") \"x\" \"y\") \"x\")` does not survive unparse/parse", f"op_strings[{kind}] == '{want}' and '{want}' is a protected keyword of the reader")
    for n in ast.walk(f):
        if isinstance(n, ast.JoinedStr):
            t = "".join(p.value for p in n.values if isinstance(p, ast.Constant))
            for w in _re.findall(r"re\.[a-z^]+", t):
                ctx.check(w in lits or _re.fullmatch(r"[A-Za-z_][A-Za-z_\-.^0-9]*", w) is not None, "U2-vocabulary", f"{Z3H}:smt_expr_to_str", f"indexed operator '{w}'", site(n), f"'{w}' is neither an operator literal of IslaLanguage.g4 nor lexes as an ID", "operator literal / ID of the grammar")
    for lit_ in ("true", "false"):
        ctx.check(any(isinstance(n, ast.Constant) and n.value == lit_ for n in ast.walk(f)) and lit_ in gen, "U2-vocabulary", f"{Z3H}:smt_expr_to_str", f"literal '{lit_}'", site(f), f"boolean literal {lit_} not emitted/lexed", "lexer literal")


def _ancestors(n):
    cur = parent(n)
    while cur is not None:
        yield cur
        cur = parent(cur)


def rule_u3(ctx):
    w = ctx.repo.func(Z3H, "smt_expr_to_str", "C07.U3")
    esc = None
    for c in calls_in(w):
        if isinstance(c.func, ast.Attribute) and c.func.attr == "replace" and len(c.args) == 2:
            try:
                a, b = fold(c.args[0]), fold(c.args[1])
            except NotConstant:
                continue
            if a == '"':
                esc = b
    if esc is None:
        raise Unrecognised("C07.U3", f"{Z3H}:smt_expr_to_str", "quote escaping not found")
    # the STRING token of the ISLa lexer must accept the escape (ESC : '\\' [btnr"\\])
    g4 = open(os.path.join(ctx.repo.root, G4), encoding="utf-8").read()
    mesc = _re.search(r"ESC\s*:\s*'\\\\'\s*\[([^\]]+)\]", g4)
    ok = mesc is not None and '"' in mesc.group(1) and esc == '\\"'
    ctx.check(ok, "U3-smt-literal-escape", f"{Z3H}:smt_expr_to_str", f"'\"' -> {esc!r} is an ESC of the STRING token", site(w),
              f"the writer escapes a quote as {esc!r}, which the lexer's STRING/ESC rule does not accept as an escape", "accepted by the lexer's ESC rule")
    r = ctx.repo.func(LANG, "ISLaEmitter.exitSMTFormula", "C07.U3")
    parses = [c for c in calls_in(r) if call_name(c) == "z3.parse_smt2_string"]
    undone = False
    for c in calls_in(r):
        if isinstance(c.func, ast.Attribute) and c.func.attr == "replace" and len(c.args) == 2:
            try:
                a, b = fold(c.args[0]), fold(c.args[1])
            except NotConstant:
                continue
            if a == esc and b == '""' and parses and c.lineno < parses[0].lineno:
                undone = True
    ctx.check(undone, "U3-smt-literal-escape", f"{LANG}:ISLaEmitter.exitSMTFormula", f"{esc!r} -> '\"\"' before parse_smt2_string", site(r),
              "the reader does not convert the writer's quote escape to SMT-LIB's doubled quote before handing the text to Z3", "escape undone before parsing")


def rule_u4(ctx):
    """Match expressions: reader unescapes, writer must escape."""
    rd = ctx.repo.func(LANG, "MExprEmitter.exitMatchExprChars", "C07.U4")
    reader_unescapes: List[Tuple[str, str]] = []
    for c in calls_in(rd):
        if isinstance(c.func, ast.Attribute) and c.func.attr == "replace" and len(c.args) == 2:
            try:
                reader_unescapes.append((fold(c.args[0]), fold(c.args[1])))
            except NotConstant:
                pass
    uses_ies = any(call_name(c) == "instantiate_escaped_symbols" for c in calls_in(rd))
    if not reader_unescapes and not uses_ies:
        raise Unrecognised("C07.U4", f"{LANG}:MExprEmitter.exitMatchExprChars", "reader performs no unescaping (shape changed)")
    wr = ctx.repo.func(LANG, "BindExpression.__str__", "C07.U4")
    # the writer's treatment of plain string elements: the branch under isinstance(e, str)
    str_branch = None
    for n in ast.walk(wr):
        if isinstance(n, ast.IfExp) and src(n.test) == "isinstance(e, str)":
            str_branch = n.body
    if str_branch is None:
        raise Unrecognised("C07.U4", f"{LANG}:BindExpression.__str__", "branch for plain string elements not found")
    writer_calls = {call_name(c) or (c.func.attr if isinstance(c.func, ast.Attribute) else "") for c in calls_in(str_branch)}
    escapes = any(n in writer_calls for n in ("replace", "escape_mexpr_text", "translate")) or any("escape" in (w or "") for w in writer_calls)
    ctx.check(escapes, "U4-mexpr-escape", f"{LANG}:BindExpression.__str__", "terminal text escaped for the match-expression syntax", site(str_branch),
              f"the reader unescapes match-expression text ({reader_unescapes}{' + instantiate_escaped_symbols' if uses_ies else ''}) and the text sits inside a "
              f"double-quoted STRING token, but the writer emits terminal text verbatim ({src(str_branch)}): a terminal containing '\"', '\\\\', '{{' or '[' "
              "unparses to text that does not parse back", "writer escapes what the reader unescapes")
    # unparser wraps the match expression in quotes
    up = ctx.repo.func(LANG, "ISLaUnparser._unparse_match_expr", "C07.U4")
    ok = any(isinstance(n, ast.JoinedStr) and "".join(p.value for p in n.values if isinstance(p, ast.Constant)) == '=""' for n in ast.walk(up))
    ctx.check(ok, "U4-mexpr-quoted", f"{LANG}:ISLaUnparser._unparse_match_expr", '="<mexpr>"', site(up), "match expression must be written as =\"...\"", "quoted")


def rule_u11(ctx):
    """Writers must not render text with a Python codec/repr escape (unicode_escape, ascii(), repr()): it produces \\uXXXX, \\UXXXXXXXX, \\' ... which none of
    the ISLa readers (ESC token `\\[btnr"\\]`, instantiate_escaped_symbols: \\b \\t \\n \\r \\" \\xNN) understands.  Expected count on today's tree: zero."""
    m = ctx.repo.module(LANG, "C07.U11")

    def is_writer(q: str) -> bool:
        last = q.split(".")[-1]
        return last == "__str__" or last.startswith("_unparse") or last.startswith("unparse") or q.startswith("ISLaUnparser.") or "escape" in last

    def scan(fn, construct):
        hits = []
        for c in calls_in(fn):
            if isinstance(c.func, ast.Attribute) and c.func.attr == "encode" and c.args and isinstance(c.args[0], ast.Constant) and c.args[0].value in ("unicode_escape", "unicode-escape", "raw_unicode_escape"):
                hits.append(c)
            elif isinstance(c.func, ast.Attribute) and c.func.attr == "encode" and any(k.arg == "errors" and isinstance(k.value, ast.Constant) and k.value.value in ("backslashreplace", "namereplace", "xmlcharrefreplace") for k in c.keywords):
                hits.append(c)
            elif call_name(c) == "ascii":
                hits.append(c)
        return hits

    n = 0
    for q, fn in m.functions():
        if not isinstance(fn, ast.FunctionDef) or not is_writer(q):
            continue
        n += 1
        for c in scan(fn, q):
            ctx.viol("U11-codec-escape", f"{LANG}:{q}", f"{src(c)[:60]}", site(c),
                     f"the writer renders text with a Python escape codec (`{src(c)[:60]}`): characters above U+00FF come out as \\uXXXX / \\UXXXXXXXX, which the ISLa readers do not unescape "
                     "(a match expression with '€' unparses to text that parses to a different constraint)")
    ctx.inventory["writer_functions_scanned_for_codec_escapes"] = n
    if n < 15:
        raise Unrecognised("C07.U11", LANG, f"only {n} writer functions found")
    fx = ast.parse("class X:\n    def __str__(self):\n        return self.t.encode('unicode_escape').decode('ascii')\n")
    if len(scan(fx.body[0].body[0], "fixture")) != 1:
        raise Unrecognised("C07.U11", "fixture", "positive fixture did not fire")
    ctx.ok("U11-codec-escape", f"{LANG}:<writers>", "no Python escape codec in writer functions", f"{LANG}:0", f"{n} writer functions scanned; fixture fires")


def rule_u12(ctx):
    """Predicate arguments: the reader yields int for INT tokens and str (quotes stripped) for STRING tokens, variables otherwise; the writers must quote
    exactly the str arguments.  Decided by evaluating the writer's conditional over the four argument kinds."""
    rd = ctx.repo.func(LANG, "ISLaEmitter.exitPredicateArg", "C07.U12")
    t = " ".join(src(rd).split())
    ok = "elif ctx.INT(): self.predicate_args[ctx] = int(parse_tree_text(ctx))" in t and "elif ctx.STRING(): self.predicate_args[ctx] = parse_tree_text(ctx)[1:-1]" in t
    if not ok:
        raise Unrecognised("C07.U12", f"{LANG}:ISLaEmitter.exitPredicateArg", "reader's INT -> int / STRING -> str[1:-1] mapping not in the recognised shape")
    kinds = {"str": {"str"}, "int": {"int"}, "Variable": {"Variable", "BoundVariable", "Constant", "DummyVariable"}, "DerivationTree": {"DerivationTree"}}

    def truth(test: ast.expr, kind: str, var: str):
        if isinstance(test, ast.Call) and call_name(test) == "isinstance" and len(test.args) == 2 and src(test.args[0]) == var:
            tys = test.args[1].elts if isinstance(test.args[1], ast.Tuple) else [test.args[1]]
            names = {src(x) for x in tys}
            if names - {"str", "int", "Variable", "BoundVariable", "Constant", "DerivationTree", "language.Variable"}:
                return None
            if kind == "Variable":
                return bool(names & {"Variable", "language.Variable"})  # a plain Variable is an instance of Variable only
            return kind in names
        if isinstance(test, ast.UnaryOp) and isinstance(test.op, ast.Not):
            v = truth(test.operand, kind, var)
            return None if v is None else not v
        if isinstance(test, ast.BoolOp):
            vs = [truth(v, kind, var) for v in test.values]
            if any(v is None for v in vs):
                return None
            return all(vs) if isinstance(test.op, ast.And) else any(vs)
        return None

    def render(e: ast.expr, kind: str, var: str):
        if isinstance(e, ast.IfExp):
            v = truth(e.test, kind, var)
            if v is None:
                return None
            return render(e.body if v else e.orelse, kind, var)
        if isinstance(e, ast.JoinedStr):
            lits = [p.value for p in e.values if isinstance(p, ast.Constant)]
            return "quoted" if lits and lits[0].startswith('"') and lits[-1].endswith('"') else "plain"
        return "plain"

    for cls in ("StructuralPredicateFormula", "SemanticPredicateFormula"):
        f = ctx.repo.func(LANG, f"{cls}.__str__", "C07.U12")
        construct = f"{LANG}:{cls}.__str__"
        comps = [x for x in ast.walk(f) if isinstance(x, ast.ListComp) and len(x.generators) == 1 and src(x.generators[0].iter) == "self.args"]
        if len(comps) != 1:
            raise Unrecognised("C07.U12", construct, "argument rendering comprehension not found")
        var = src(comps[0].generators[0].target)
        for kind in kinds:
            r = render(comps[0].elt, kind, var)
            if r is None:
                raise Unrecognised("C07.U12", construct, f"rendering of {kind} arguments not understood: {src(comps[0].elt)[:80]}")
            want = "quoted" if kind == "str" else "plain"
            ctx.check(r == want, "U12-predicate-arg-kinds", construct, f"{kind} argument rendered {want}", site(comps[0]),
                      f"a predicate argument of kind {kind} is rendered {r}: the reader turns a quoted argument into a str and an unquoted number into an int, so e.g. nth(1, v, a) "
                      "unparses to nth(\"1\", v, a), which parses to a different (unequal) formula", f"{want}")


def rule_u16(ctx):
    """fresh_vars: every name handed out is reserved in the shared `used_names` set (sibling formulas are renamed one after the other against the same set)."""
    f = ctx.repo.func(LANG, "fresh_vars", "C07.U16")
    c = f"{LANG}:fresh_vars"
    stores = [a for a in walk_local(f) if isinstance(a, ast.Assign) and isinstance(a.targets[0], ast.Subscript) and src(a.targets[0].value) == "result"]
    if not stores:
        raise Unrecognised("C07.U16", c, "assignments to result[...] not found")
    upd = [x for x in calls_in(f) if isinstance(x.func, ast.Attribute) and src(x.func.value) == "used_names" and x.func.attr == "update"]
    for u in upd:
        g = u.args[0] if u.args else None
        it = src(g.generators[0].iter) if isinstance(g, (ast.GeneratorExp, ast.ListComp, ast.SetComp)) else (src(g) if g is not None else "")
        if it in ("result", "result.keys()"):
            ctx.viol("U16-fresh-names-reserved", c, "new names are added to used_names", site(u),
                     f"`{' '.join(src(u).split())[:60]}` iterates over the KEYS of `result` (the original variables), so the freshly chosen names are not reserved: a later sibling quantifier "
                     "gets the same fresh name again (x, x_0, x_1, x_1) and the constraint changes on an unparse/parse round trip")
            return
        if it != "result.values()":
            raise Unrecognised("C07.U16", c, f"update of used_names from `{it}` not understood")
    if upd:
        ctx.ok("U16-fresh-names-reserved", c, "new names are added to used_names", site(upd[0]), "used_names.update(... result.values())")
        return
    for st in stores:
        v = st.value
        name_expr = None
        if isinstance(v, ast.Name) and v.id == "variable":
            name_expr = {"proposal", "variable.name"}
        elif isinstance(v, ast.Call) and call_name(v) == "BoundVariable" and v.args:
            name_expr = {src(v.args[0])}
        else:
            raise Unrecognised("C07.U16", c, f"value `{src(v)[:40]}` stored in result not understood")
        par = getattr(st, "_parent", None)
        block = None
        for fld in ("body", "orelse"):
            b = getattr(par, fld, None)
            if isinstance(b, list) and st in b:
                block = b
        adds = [x for s_ in (block or []) for x in ast.walk(s_) if isinstance(x, ast.Call) and isinstance(x.func, ast.Attribute) and src(x.func.value) == "used_names" and x.func.attr == "add" and x.args and src(x.args[0]) in name_expr]
        ctx.check(bool(adds), "U16-fresh-names-reserved", c, f"name of `{src(v)[:30]}` reserved in used_names", site(st),
                  "a variable is handed out without its name being added to the shared used_names set", "used_names.add(<its name>) in the same block")


def rule_u5(ctx):
    m = ctx.repo.module(LANG, "C07.U5")
    need = {
        "used": "self.used_variables",
        "free-nonterminal names": "{var.name for var in self.vars_for_free_nonterminals.values()}",
        "xpath names": "{var.name for var in self.vars_for_xpath_expressions.values()}",
        "constant name": "{self.constant.name}",
    }
    for meth in ("register_var_for_free_nonterminal", "register_var_for_xpath_expression"):
        f = ctx.repo.func(LANG, f"ISLaEmitter.{meth}", "C07.U5")
        calls = [c for c in calls_in(f) if call_name(c) in ("fresh_bound_variable", "fresh_variable", "fresh_constant")]
        if len(calls) != 1:
            raise Unrecognised("C07.U5", f"{LANG}:ISLaEmitter.{meth}", "expected one fresh_bound_variable call")
        avoid = calls[0].args[0]
        parts = []

        def flat(e):
            if isinstance(e, ast.BinOp) and isinstance(e.op, ast.BitOr):
                flat(e.left)
                flat(e.right)
            else:
                parts.append(src(e).replace("\n", " "))

        flat(avoid)
        parts_n = [_re.sub(r"\s+", " ", p) for p in parts]
        for what, text in need.items():
            ctx.check(text in parts_n, "U5-fresh-names", f"{LANG}:ISLaEmitter.{meth}", f"avoid-set includes {what}", site(calls[0]),
                      f"the avoid-set {parts_n} lacks {text}: a fresh bound variable can take the name of "
                      + ("the global constant and shadow it (free <start> becomes `forall <start> start in start`)" if what == "constant name" else "a variable handed out before"),
                      "present")
        for p in parts_n:
            if p in ("self.vars_for_free_nonterminals", "self.vars_for_xpath_expressions"):
                ctx.viol("U5-fresh-names", f"{LANG}:ISLaEmitter.{meth}", f"avoid-set element {p}", site(calls[0]),
                         f"`{p}` is a dict keyed by nonterminals / parsed XPath expressions; iterating it yields keys like '<start>', not the variable names that must be avoided")
    # remaining fresh_bound_variable calls in the emitter: used_variables must be up to date (exitStart adds all formula variables first)
    f = ctx.repo.func(LANG, "ISLaEmitter.exitStart", "C07.U5")
    ok = any(isinstance(n, ast.Assign) and src(n.targets[0]) == "self.used_variables" and "VariablesCollector.collect(formula)" in src(n.value) for n in walk_local(f))
    order = [src(n)[:40] for n in walk_local(f) if isinstance(n, ast.Assign)]
    ctx.check(ok, "U5-fresh-names", f"{LANG}:ISLaEmitter.exitStart", "used_variables extended by all formula variables before closing", site(f),
              "names of all variables of the parsed formula (incl. the constant) must be in used_variables before close_over_* creates more fresh names", "extended before closing")


def rule_u6(ctx):
    """Listener methods only use members their ctx classes have."""
    m = ctx.repo.module(LANG, "C07.U6")
    models = {
        "IslaLanguageParser": ContextModel(ctx.repo, PARSER, "IslaLanguageParser", "C07.U6"),
        "MexprParser": ContextModel(ctx.repo, MPARSER, "MexprParser", "C07.U6"),
        "bnfParser": ContextModel(ctx.repo, BNFPARSER, "bnfParser", "C07.U6"),
    }
    n_methods = n_attrs = 0
    for q, f in m.functions():
        if not f.args.args or len(f.args.args) < 2:
            continue
        ctxarg = f.args.args[1]
        if ctxarg.arg != "ctx" or ctxarg.annotation is None:
            continue
        ann = src(ctxarg.annotation)
        model = next((mod for name, mod in models.items() if name + "." in ann), None)
        if model is None:
            continue
        classes = annotated_contexts(ctxarg, set())
        unknown = [c for c in classes if c not in model.classes]
        if unknown:
            ctx.viol("U6-listener-api", f"{LANG}:{q}", f"annotation {ann}", site(f), f"annotated context classes {unknown} do not exist in the generated parser")
            continue
        n_methods += 1
        member_sets = {c: model.members(c) for c in classes}
        seen = set()
        for n in ast.walk(f):
            if isinstance(n, ast.Attribute) and isinstance(n.value, ast.Name) and n.value.id == "ctx":
                if n.attr in seen:
                    continue
                seen.add(n.attr)
                n_attrs += 1
                holders = [c for c, ms in member_sets.items() if n.attr in ms]
                ctx.check(bool(holders), "U6-listener-api", f"{LANG}:{q}", f"ctx.{n.attr}", site(n),
                          f"`ctx.{n.attr}` is read but none of the annotated context classes {classes} (nor the ANTLR runtime bases) has such a member: AttributeError whenever this line runs",
                          f"member of {holders[:2]}")
    ctx.inventory["listener_methods_checked"] = n_methods
    ctx.inventory["ctx_attributes_checked"] = n_attrs
    if n_methods < 40 or n_attrs < 50:
        raise Unrecognised("C07.U6", LANG, f"only {n_methods} listener methods / {n_attrs} attribute reads analysed")


def rule_u7(ctx):
    model = ContextModel(ctx.repo, PARSER, "IslaLanguageParser", "C07.U7")
    m = ctx.repo.module(LANG, "C07.U7")
    emitter = m.get("ISLaEmitter")
    if not isinstance(emitter, ast.ClassDef):
        raise Unrecognised("C07.U7", f"{LANG}:ISLaEmitter", "class not found")
    methods = {n.name: n for n in emitter.body if isinstance(n, ast.FunctionDef)}

    def stores(fn: ast.FunctionDef, mapname: str, depth=0) -> bool:
        for n in ast.walk(fn):
            if isinstance(n, ast.Subscript) and isinstance(n.ctx, ast.Store) and src(n.value) == f"self.{mapname}" and src(n.slice) == "ctx":
                return True
        if depth < 2:
            for c in calls_in(fn):
                nm = call_name(c) or ""
                if nm.startswith("self.") and nm[5:] in methods and c.args and src(c.args[0]) == "ctx":
                    if stores(methods[nm[5:]], mapname, depth + 1):
                        return True
        return False

    def all_paths_store(fn: ast.FunctionDef, mapname: str) -> bool:
        # every non-raising exit must be preceded by a store: accept if/elif/else chains where each branch stores or raises/asserts False
        if stores(fn, mapname) and not any(isinstance(s, ast.If) for s in fn.body):
            return True
        for st in fn.body:
            if isinstance(st, ast.If):
                branches = []
                cur = st
                while True:
                    branches.append(cur.body)
                    if len(cur.orelse) == 1 and isinstance(cur.orelse[0], ast.If):
                        cur = cur.orelse[0]
                        continue
                    branches.append(cur.orelse)
                    break
                if all(_branch_stores_or_raises(b, mapname) for b in branches if b is not None) and branches[-1]:
                    return True
        return stores(fn, mapname)

    def _branch_stores_or_raises(b, mapname):
        if not b:
            return False
        mod = ast.Module(body=b, type_ignores=[])
        for n in ast.walk(mod):
            if isinstance(n, ast.Subscript) and isinstance(n.ctx, ast.Store) and src(n.value) == f"self.{mapname}" and src(n.slice) == "ctx":
                return True
            if isinstance(n, ast.Raise) or (isinstance(n, ast.Assert) and src(n.test) == "False"):
                return True
        return False

    total = 0
    for base, mapname in (("FormulaContext", "formulas"), ("SexprContext", "smt_expressions")):
        labels = model.subclasses_of(base)
        if len(labels) < 10:
            raise Unrecognised("C07.U7", f"{PARSER}:{base}", f"only {len(labels)} labelled alternatives found")
        for lab in labels:
            total += 1
            name = "exit" + lab[: -len("Context")]
            fn = methods.get(name)
            if fn is None:
                ctx.viol("U7-result-map", f"{LANG}:ISLaEmitter", f"{name} -> self.{mapname}[ctx]", site(emitter),
                         f"the grammar alternative #{lab[:-7]} has no {name} method: its parent looks up self.{mapname}[child] and raises KeyError")
                continue
            ctx.check(all_paths_store(fn, mapname), "U7-result-map", f"{LANG}:ISLaEmitter.{name}", f"stores self.{mapname}[ctx]", site(fn),
                      f"{name} does not store a result into self.{mapname}[ctx] on every path: the parent rule's lookup raises KeyError", "stores its result")
    fn = methods.get("exitPredicateArg")
    if fn is None:
        raise Unrecognised("C07.U7", f"{LANG}:ISLaEmitter.exitPredicateArg", "not found")
    ctx.check(all_paths_store(fn, "predicate_args"), "U7-result-map", f"{LANG}:ISLaEmitter.exitPredicateArg", "stores self.predicate_args[ctx]", site(fn), "predicate argument not stored on every path", "stores its result")
    # lookups use the map that the child kind stores into
    for name, fn in methods.items():
        for n in ast.walk(fn):
            if isinstance(n, ast.Subscript) and isinstance(n.ctx, ast.Load) and src(n.value) in ("self.formulas", "self.smt_expressions", "self.predicate_args"):
                key = src(n.slice)
                want = None
                if key.startswith("ctx.formula("):
                    want = "self.formulas"
                elif key.startswith("ctx.sexpr(") or key == "child":
                    want = "self.smt_expressions"
                elif key == "arg":
                    want = "self.predicate_args"
                if want is not None:
                    ctx.check(src(n.value) == want, "U7-result-map", f"{LANG}:ISLaEmitter.{name}", f"{src(n)}", site(n), f"child {key} is looked up in {src(n.value)} but its exit method stores into {want}", "map matches child kind")
    ctx.inventory["labelled_alternatives"] = total


def rule_u8(ctx, methods):
    """Fields compared by __eq__ must be printed."""
    m = ctx.repo.module(LANG, "C07.U8")
    up = m.get("ISLaUnparser")
    fns = {n.name: n for n in up.body if isinstance(n, ast.FunctionDef)}
    want = {
        "_unparse_quantified_formula": ["formula.bound_variable.n_type", "formula.bound_variable.name", "formula.bind_expression", "formula.in_variable", "formula.inner_formula"],
        "_unparse_exists_int_formula": ["formula.bound_variable.name", "formula.inner_formula"],
        "_unparse_forall_int_formula": ["formula.bound_variable.name", "formula.inner_formula"],
        "_unparse_negated_formula": ["formula.args"],
        "_unparse_propositional_combination": ["formula.args"],
        "_unparse_smt_formula": ["formula.formula"],
    }
    for name, fields in want.items():
        fn = fns.get(name)
        if fn is None:
            raise Unrecognised("C07.U8", f"{LANG}:ISLaUnparser.{name}", "method not found")
        text = src(fn)
        for fld in fields:
            ctx.check(fld in text, "U8-field-coverage", f"{LANG}:ISLaUnparser.{name}", f"prints {fld}", site(fn),
                      f"{fld} is compared by the class's __eq__ but never written by the unparser: two different constraints unparse to the same text", "printed")
    # indentation is added per logical line (list element), never to joined text (a match expression may contain a newline terminal)
    for name in ("_unparse_quantified_formula", "_unparse_exists_int_formula", "_unparse_forall_int_formula"):
        fn = fns[name]
        ok = any(isinstance(n, ast.ListComp) and src(n) == "[self.indent + line for line in child_result]" for n in ast.walk(fn))
        reindent = [c for c in calls_in(up) if (call_name(c) or "").endswith("textwrap.indent") or (isinstance(c.func, ast.Attribute) and c.func.attr in ("splitlines",)) or (isinstance(c.func, ast.Attribute) and c.func.attr == "split" and c.args and src(c.args[0]) in ("'\\n'",))]
        if not ok and not reindent:
            raise Unrecognised("C07.U8", f"{LANG}:ISLaUnparser.{name}", "indentation idiom not recognised")
        ctx.check(ok and not reindent, "U8-indent-logical-lines", f"{LANG}:ISLaUnparser.{name}", "indent prefixed per list element", site(fn),
                  "the body is indented by re-splitting joined text at newlines: a match expression containing a newline terminal gets the indentation injected into the terminal, "
                  "so the unparsed constraint parses back to a different one", "each logical line gets exactly one prefix")
    # iterating ALL args in order
    for name in ("_unparse_negated_formula", "_unparse_propositional_combination"):
        fn = fns[name]
        ok = any(isinstance(n, ast.ListComp) and src(n) == "[self._unparse_constraint(child) for child in formula.args]" for n in ast.walk(fn))
        ctx.check(ok, "U8-field-coverage", f"{LANG}:ISLaUnparser.{name}", "every argument, in order", site(fn), "arguments must all be unparsed in order", "all args in order")
    # quantifier keyword matches the class
    fn = fns["_unparse_quantified_formula"]
    ok = any(isinstance(n, ast.IfExp) and src(n) == "'forall' if isinstance(formula, ForallFormula) else 'exists'" for n in ast.walk(fn))
    ctx.check(ok, "U8-quantifier-keyword", f"{LANG}:ISLaUnparser._unparse_quantified_formula", "forall iff ForallFormula", site(fn), "quantifier keyword must follow the class", "forall for ForallFormula, exists otherwise")
    for name, kw in (("_unparse_exists_int_formula", "exists int "), ("_unparse_forall_int_formula", "forall int ")):
        fn = fns[name]
        ok = any(isinstance(n, ast.JoinedStr) and "".join(p.value for p in n.values if isinstance(p, ast.Constant)).startswith(kw) for n in ast.walk(fn))
        ctx.check(ok, "U8-quantifier-keyword", f"{LANG}:ISLaUnparser.{name}", f"'{kw.strip()}'", site(fn), f"{name} must write '{kw.strip()}'", "keyword matches the class")
        wantcls = "ExistsIntFormula" if "exists" in name else "ForallIntFormula"
        ctx.check(methods.get(wantcls) == name, "U8-quantifier-keyword", f"{LANG}:ISLaUnparser._unparse_constraint", f"{wantcls} -> {name}", site(fn), f"{wantcls} is dispatched to {methods.get(wantcls)}", "dispatch matches")
    fn = fns["_unparse_propositional_combination"]
    ok = any(isinstance(n, ast.IfExp) and src(n) == "'and' if isinstance(formula, ConjunctiveFormula) else 'or'" for n in ast.walk(fn))
    ctx.check(ok, "U8-quantifier-keyword", f"{LANG}:ISLaUnparser._unparse_propositional_combination", "and iff ConjunctiveFormula", site(fn), "connective keyword must follow the class", "and/or by class")
    # predicates: name and all arguments
    for cls in ("StructuralPredicateFormula", "SemanticPredicateFormula"):
        f = ctx.repo.func(LANG, f"{cls}.__str__", "C07.U8")
        t = src(f)
        ctx.check("self.predicate" in t and "for arg in self.args" in t and "', '.join(arg_strings)" in t, "U8-field-coverage", f"{LANG}:{cls}.__str__", "predicate name and all args", site(f),
                  "predicate atoms must print the predicate name and every argument, comma separated", "name(arg, ...)")
    # constant declaration emitted when the constant is not the default
    f = fns["unparse"]
    t = src(f)
    ctx.check("const {constant.name}: {constant.n_type};" in t and "constant != Constant('start', '<start>')" in t, "U8-field-coverage", f"{LANG}:ISLaUnparser.unparse", "non-default constant declared", site(f),
              "a non-default constant must be declared with `const name: type;`", "declared")



def rule_u18(ctx):
    """Indexed regex operators are printed with exactly the parameters of the declaration: `(_ re.loop n)` (n or more) and `(_ re.loop n m)` are different
    operators, so the printed parameter list must be f.params() itself - not a slice, repetition or padding of it."""
    f = ctx.repo.func(Z3H, "smt_expr_to_str", "C07.U18")
    c = f"{Z3H}:smt_expr_to_str"
    fstrs = [n for n in ast.walk(f) if isinstance(n, ast.JoinedStr) and any(isinstance(v, ast.Constant) and "re.loop" in str(v.value) for v in n.values)]
    if len(fstrs) != 1:
        raise Unrecognised("C07.U18", c, "printer of the indexed operator `(_ re.loop ...)` not found")
    js = fstrs[0]
    holes = [v.value for v in js.values if isinstance(v, ast.FormattedValue)]
    whole = [h for h in holes if isinstance(h, ast.Call) and isinstance(h.func, ast.Attribute) and h.func.attr == "join" and len(h.args) == 1
             and src(h.args[0]).replace(" ", "") in ("map(str,f.params())", "[str(p)forpinf.params()]", "(str(p)forpinf.params())", "str(p)forpinf.params()")]
    if len(holes) == 1 and whole:
        ctx.ok("U18-indexed-op-params", c, "re.loop printed with all parameters of the declaration", site(js))
        return
    from ..core import _binding_sources

    binds = _binding_sources(f)
    derived = []
    for h in holes:
        for n in ast.walk(h):
            if isinstance(n, ast.Name):
                for b in binds.get(n.id, []):
                    if "params()" in src(b) and any(isinstance(x, (ast.Subscript, ast.BinOp)) for x in ast.walk(b)):
                        derived.append(src(b))
            if isinstance(n, ast.Subscript) and "params()" in src(n.value):
                derived.append(src(n))
    if not derived:
        raise Unrecognised("C07.U18", c, f"parameter list of the printed re.loop `{src(js)[:60]}` not understood")
    ctx.viol("U18-indexed-op-params", c, "re.loop printed with all parameters of the declaration", site(js),
             f"the printed parameters of `(_ re.loop ...)` are taken from `{derived[0][:60]}` (a fixed number of positions) instead of the declaration's own parameter list: "
             "the one-parameter form `(_ re.loop n)` (n or more repetitions) is printed as another operator (e.g. `(_ re.loop n n)`, exactly n), so the unparsed constraint parses back to a different one")


def run(ctx) -> str:
    box = {}
    ctx.guarded("U1", lambda: box.setdefault("m", rule_u1(ctx)))
    ctx.guarded("U2", lambda: rule_u2(ctx))
    ctx.guarded("U3", lambda: rule_u3(ctx))
    ctx.guarded("U4", lambda: rule_u4(ctx))
    ctx.guarded("U5", lambda: rule_u5(ctx))
    ctx.guarded("U6", lambda: rule_u6(ctx))
    ctx.guarded("U7", lambda: rule_u7(ctx))
    ctx.guarded("U8", lambda: rule_u8(ctx, box.get("m") or {}))
    # SMT string literals: non-ASCII escaping before Z3 parsing, unicode unescape of literal values, self-escaped escape character (shared with C17)
    ctx.guarded("U9", lambda: c17.rule_s5(ctx, "U9"))
    ctx.guarded("U15", lambda: c17.rule_s6(ctx, "U15"))
    from . import c05

    ctx.guarded("U10", lambda: c05.rule_r9(ctx, "U10", only_functions={"smt_expr_to_str"}))
    ctx.guarded("U11", lambda: rule_u11(ctx))
    ctx.guarded("U12", lambda: rule_u12(ctx))
    ctx.guarded("U16", lambda: rule_u16(ctx))
    ctx.guarded("U18", lambda: rule_u18(ctx))
    from . import c08 as _c08

    ctx.guarded("U17", lambda: _c08.rule_d11(ctx))
    from . import c11

    # match-expression text is unescaped by helpers.instantiate_escaped_symbols: its recognised algorithm (placeholder freshness, table, order) is shared with C11
    ctx.guarded("U13", lambda: c11.rule_b1(ctx))
    from . import c08

    ctx.guarded("U14", lambda: c08.rule_d7(ctx, "U14"))
    ctx.assume("generated parser/lexer files under src/isla/isla_language are in sync with IslaLanguage.g4 (literalNames cross-checked)")
    ctx.assume("ANTLR runtime member names are read from the installed antlr4 package sources")
    return EXPLANATION
