"""C17 — Serialized trees and constraints round-trip without damaging the original."""

from __future__ import annotations

import ast
from typing import Dict, List, Optional, Set, Tuple

from ..core import Unrecognised, NotConstant, call_name, calls_in, dotted, facts, fold, module_of, parent, qual, site, src, walk_local, MUTATORS

DT = "src/isla/derivation_tree.py"
LANG = "src/isla/language.py"
Z3H = "src/isla/z3_helpers.py"
CLI = "src/isla/cli.py"

EXPLANATION = (
    "Static necessary conditions for C17: decided: (S1) serialisers of DerivationTree (to_json, __getstate__, to_parse_tree) and of SMTFormula "
    "(__getstate__) have no write effect on self, including writes through an alias of self.__dict__ / vars(self); (S2) the cache fields that the "
    "writer strips are stripped for every node (the json `default=` hook applies the same projection as the root) and are exactly the fields the "
    "reader re-creates on every node; every field assigned in __init__ is either serialised or restored; (S3) the quote escaping applied by "
    "smt_expr_to_str ('\"' -> ESC) is undone by every reader before z3.parse_smt2_string (ESC -> '\"\"'), and no str.replace(a, b) in a reader is "
    "a no-op; the state keys read in SMTFormula.__setstate__ are attributes that __init__/__getstate__ provide; (S4) the CLI's JSON tree writer "
    "(json.dumps(tree.to_parse_tree())) and reader (json.loads -> DerivationTree.from_parse_tree) are inverse on the None-vs-[] children distinction. "
    "(S5) every text handed to z3.parse_smt2_string is escaped by smt_escape_non_ascii and every as_string() is unescaped. NOT decided: equality of the round trip for every string."
)


def mangled(cls: str, name: str) -> str:
    return f"_{cls}{name}" if name.startswith("__") and not name.endswith("__") else name


def self_dict_aliases(fn: ast.FunctionDef) -> Set[str]:
    """Locals bound to self.__dict__ / vars(self) without copying."""
    al: Set[str] = set()
    for n in walk_local(fn, include_nested=True):
        if isinstance(n, ast.Assign) and len(n.targets) == 1 and isinstance(n.targets[0], ast.Name):
            v = src(n.value)
            if v in ("self.__dict__", "vars(self)"):
                al.add(n.targets[0].id)
    return al


def write_effects_on_self(fn: ast.FunctionDef) -> List[Tuple[ast.AST, str]]:
    out: List[Tuple[ast.AST, str]] = []
    aliases = self_dict_aliases(fn) | {"self.__dict__"}
    selfname = fn.args.args[0].arg if fn.args.args else "self"
    for n in walk_local(fn, include_nested=True):
        if isinstance(n, (ast.Assign, ast.AugAssign, ast.AnnAssign)):
            targets = n.targets if isinstance(n, ast.Assign) else [n.target]
            for t in targets:
                for x in ast.walk(t):
                    if isinstance(x, ast.Attribute) and isinstance(x.ctx, ast.Store) and dotted(x.value) == selfname:
                        # memoisation of a derived value is not a behavioural change only if the name is a cache; flag everything
                        out.append((n, f"assigns {src(x)}"))
                    if isinstance(x, ast.Subscript) and isinstance(x.ctx, ast.Store) and (dotted(x.value) in aliases or src(x.value) in aliases):
                        out.append((n, f"stores into {src(x.value)} (alias of self.__dict__)"))
        elif isinstance(n, ast.Delete):
            for t in n.targets:
                if isinstance(t, ast.Subscript) and (dotted(t.value) in aliases or src(t.value) in aliases):
                    out.append((n, f"del {src(t)} (alias of self.__dict__)"))
                if isinstance(t, ast.Attribute) and dotted(t.value) == selfname:
                    out.append((n, f"del {src(t)}"))
        elif isinstance(n, ast.Call):
            f = n.func
            if isinstance(f, ast.Attribute) and f.attr in MUTATORS and (dotted(f.value) in aliases or src(f.value) in aliases):
                out.append((n, f"{src(f)}(...) on alias of self.__dict__"))
            if dotted(f) in ("setattr", "delattr", "object.__setattr__") and n.args and dotted(n.args[0]) == selfname:
                out.append((n, f"{dotted(f)}(self, ...)"))
    return out


def rule_s1(ctx):
    targets = [(DT, "DerivationTree.to_json"), (DT, "DerivationTree.__getstate__"), (DT, "DerivationTree.to_parse_tree"), (LANG, "SMTFormula.__getstate__"), (CLI, "derivation_tree_to_json")]
    for rel, q in targets:
        fn = ctx.repo.func(rel, q, "C17.S1")
        eff = write_effects_on_self(fn)
        ctx.check(not eff, "S1-serializer-pure", f"{rel}:{q}", "no write effect on self", site(eff[0][0]) if eff else site(fn),
                  f"serialising modifies the live object: {[e for _, e in eff]} - e.g. after to_json() a later k_paths() call fails on the deleted cache attribute",
                  "no store, delete or mutating call on self or an alias of self.__dict__")


def _strip_set_of(fn: ast.AST) -> Set[str]:
    """String constants that look like mangled cache field names, used as exclusions/deletions."""
    out = set()
    for n in ast.walk(fn):
        if isinstance(n, ast.Constant) and isinstance(n.value, str) and n.value.startswith("_DerivationTree__"):
            out.add(n.value)
    return out


def rule_s2(ctx):
    tj = ctx.repo.func(DT, "DerivationTree.to_json", "C17.S2")
    fj = ctx.repo.func(DT, "DerivationTree.from_json", "C17.S2")
    init = ctx.repo.func(DT, "DerivationTree.__init__", "C17.S2")
    stripped = _strip_set_of(tj)
    if not stripped:
        raise Unrecognised("C17.S2", f"{DT}:DerivationTree.to_json", "no stripped cache fields recognised")
    dumps = [c for c in calls_in(tj) if call_name(c) == "json.dumps"]
    if len(dumps) != 1:
        raise Unrecognised("C17.S2", f"{DT}:DerivationTree.to_json", "expected one json.dumps call")
    d = dumps[0]
    default = next((k.value for k in d.keywords if k.arg == "default"), None)
    root = d.args[0] if d.args else None
    construct = f"{DT}:DerivationTree.to_json"
    # uniform projection: default hook must strip as the root does
    uniform = False
    why = ""
    if default is None:
        why = "json.dumps has no default= hook although children are DerivationTree objects"
    elif isinstance(default, ast.Name) and isinstance(root, ast.Call) and isinstance(root.func, ast.Name) and root.func.id == default.id and [src(a) for a in root.args] == ["self"]:
        # same local function for root and for children; it must exclude the stripped names from o.__dict__
        f = next((n for n in ast.walk(tj) if isinstance(n, ast.FunctionDef) and n.name == default.id), None)
        if f is not None and _strip_set_of(f) == stripped and not write_effects_on_self(f):
            uniform = True
        else:
            why = "projection function does not exclude every stripped field"
    elif isinstance(default, ast.Lambda) and src(default.body).endswith(".__dict__"):
        why = f"children are serialised with their full __dict__ ({src(default)}) while the root strips {sorted(stripped)}: a child whose k-path cache is filled (sets of graph nodes) makes json.dumps raise"
    else:
        raise Unrecognised("C17.S2", construct, f"default hook {src(default)} not understood")
    ctx.check(uniform, "S2-strip-every-node", construct, "default hook == root projection", site(d), why, "the same projection (without cache fields) is applied to every node")
    # reader restores exactly what the writer strips, on every node
    from_dict = next((n for n in ast.walk(fj) if isinstance(n, ast.FunctionDef) and n.name == "from_dict"), None)
    if from_dict is None:
        raise Unrecognised("C17.S2", f"{DT}:DerivationTree.from_json", "nested from_dict not found")
    restored = set()
    for n in walk_local(from_dict):
        if isinstance(n, ast.Assign):
            for t in n.targets:
                if isinstance(t, ast.Attribute) and src(t.value) == "result":
                    restored.add(mangled("DerivationTree", t.attr))
    ctx.check(stripped <= restored, "S2-reader-restores", f"{DT}:DerivationTree.from_json.from_dict", "restored >= stripped", site(from_dict),
              f"fields {sorted(stripped - restored)} are stripped by the writer but not re-created by the reader: the decoded tree lacks them (AttributeError on first use)",
              f"reader re-creates {sorted(restored)}")
    # representation of the children field: None (open leaf) or a TUPLE of nodes - JSON hands the reader a list, and `replace_path` / `children[:i] + (x,)`,
    # hashing of the structure and `==` on `.children` rely on the tuple
    child_stores = [n for n in walk_local(from_dict) if isinstance(n, ast.Assign) and isinstance(n.targets[0], ast.Subscript) and src(n.targets[0].value) == "a_dict"
                    and "children" in src(n.targets[0].slice)]
    if not child_stores:
        raise Unrecognised("C17.S2", f"{DT}:DerivationTree.from_json.from_dict", "store of the decoded children not found")
    for st in child_stores:
        v = st.value
        ok = (isinstance(v, ast.Constant) and v.value is None) or (isinstance(v, ast.Call) and call_name(v) == "tuple")
        ctx.check(ok, "S2-children-tuple", f"{DT}:DerivationTree.from_json.from_dict", f"decoded children are None or a tuple `{src(v)[:40]}`", site(st),
                  f"the decoded children are stored as `{src(v)[:60]}`, not as a tuple: a decoded (unpickled) inner node holds a list, so `.children` differs from the original's, "
                  "and `replace_path` below such a node raises TypeError (`children[:idx] + (replacement,)`)", "tuple(...) or None")
    recursive = any(call_name(c) == "from_dict" for c in calls_in(from_dict))
    ctx.check(recursive, "S2-reader-restores", f"{DT}:DerivationTree.from_json.from_dict", "applied to every node", site(from_dict),
              "from_dict is not applied recursively to children", "children decoded with the same function")
    # every field assigned in __init__ is serialised or restored
    fields = set()
    for n in walk_local(init):
        if isinstance(n, (ast.Assign, ast.AnnAssign)):
            for t in n.targets if isinstance(n, ast.Assign) else [n.target]:
                if isinstance(t, ast.Attribute) and src(t.value) == "self":
                    fields.add(mangled("DerivationTree", t.attr))
    lost = {f for f in fields if f in stripped and f not in restored}
    ctx.check(not lost, "S2-field-coverage", f"{DT}:DerivationTree", "init fields serialised or restored", site(init), f"fields {sorted(lost)} are neither serialised nor restored",
              f"{len(fields)} fields: {len(fields - stripped)} serialised, {len(stripped)} restored")
    ctx.inventory["tree_fields"] = sorted(fields)
    # __getstate__/__setstate__ use to_json/from_json
    gs = ctx.repo.func(DT, "DerivationTree.__getstate__", "C17.S2")
    ss = ctx.repo.func(DT, "DerivationTree.__setstate__", "C17.S2")
    ctx.check(any(call_name(c) == "self.to_json" for c in calls_in(gs)) and any(call_name(c) == "zlib.compress" for c in calls_in(gs)), "S2-pickle-pair", f"{DT}:DerivationTree.__getstate__",
              "compress(to_json)", site(gs), "__getstate__ must be zlib.compress(self.to_json().encode(...))", "writer = compress o to_json")
    ctx.check(any(call_name(c) == "DerivationTree.from_json" for c in calls_in(ss)) and any(call_name(c) == "zlib.decompress" for c in calls_in(ss)), "S2-pickle-pair", f"{DT}:DerivationTree.__setstate__",
              "from_json(decompress)", site(ss), "__setstate__ must be from_json(zlib.decompress(state).decode(...), self)", "reader = from_json o decompress")
    enc = [src(c.args[0]) for c in calls_in(gs) if isinstance(c.func, ast.Attribute) and c.func.attr == "encode" and c.args]
    dec = [src(c.args[0]) for c in calls_in(ss) if isinstance(c.func, ast.Attribute) and c.func.attr == "decode" and c.args]
    ctx.check(bool(enc) and [e.lower() for e in enc] == [x.lower() for x in dec], "S2-pickle-pair", f"{DT}:DerivationTree.__setstate__", "same text encoding", site(ss), f"encode {enc} vs decode {dec}", "same codec both ways")


def _replace_calls(fn: ast.AST) -> List[ast.Call]:
    return [c for c in calls_in(fn) if isinstance(c.func, ast.Attribute) and c.func.attr == "replace" and len(c.args) == 2]


def rule_s3(ctx):
    w = ctx.repo.func(Z3H, "smt_expr_to_str", "C17.S3")
    esc = None
    for c in _replace_calls(w):
        try:
            a, b = fold(c.args[0]), fold(c.args[1])
        except NotConstant:
            continue
        if a == '"':
            esc = b
    if esc is None:
        raise Unrecognised("C17.S3", f"{Z3H}:smt_expr_to_str", "quote escaping `.replace('\"', ESC)` of string literals not found")
    ctx.inventory["smt_quote_escape"] = esc
    readers = [(LANG, "SMTFormula.__setstate__"), (LANG, "ISLaEmitter.exitSMTFormula")]
    for rel, q in readers:
        fn = ctx.repo.func(rel, q, "C17.S3")
        construct = f"{rel}:{q}"
        parses = [c for c in calls_in(fn) if call_name(c) == "z3.parse_smt2_string"]
        if not parses:
            raise Unrecognised("C17.S3", construct, "z3.parse_smt2_string call not found")
        reps = _replace_calls(fn)
        undone = False
        for c in reps:
            try:
                a, b = fold(c.args[0]), fold(c.args[1])
            except NotConstant:
                continue
            ctx.check(a != b, "S3-noop-replace", construct, src(c)[-60:], site(c),
                      f"str.replace({a!r}, {b!r}) replaces a text by itself - a no-op where an unescape is intended: a pickled formula whose literal contains a quote does not load",
                      "replacement changes the text")
            if a == esc and b == '""' and c.lineno <= parses[0].lineno:
                undone = True
        ctx.check(undone, "S3-unescape-before-parse", construct, f"{esc!r} -> '\"\"' before parse_smt2_string", site(parses[0]),
                  f"the writer escapes a double quote as {esc!r}; this reader hands the text to z3.parse_smt2_string without converting {esc!r} to SMT-LIB's '\"\"'",
                  "writer's quote escape is undone before parsing")
    # state keys
    gs = ctx.repo.func(LANG, "SMTFormula.__getstate__", "C17.S3")
    ss = ctx.repo.func(LANG, "SMTFormula.__setstate__", "C17.S3")
    init = ctx.repo.func(LANG, "SMTFormula.__init__", "C17.S3")
    attrs = set()
    for n in walk_local(init):
        if isinstance(n, (ast.Assign, ast.AnnAssign)):
            for t in n.targets if isinstance(n, ast.Assign) else [n.target]:
                if isinstance(t, ast.Attribute) and src(t.value) == "self":
                    attrs.add(t.attr)
    keys_read = set()
    for n in ast.walk(ss):
        if isinstance(n, ast.Subscript) and isinstance(n.slice, ast.Constant) and isinstance(n.slice.value, str) and src(n.value) in ("inst", "state"):
            keys_read.add(n.slice.value)
    missing = keys_read - attrs
    ctx.check(not missing, "S3-state-keys", f"{LANG}:SMTFormula.__setstate__", "keys read are attributes of SMTFormula", site(ss),
              f"__setstate__ reads state keys {sorted(missing)} that __init__ never assigns (so __getstate__ never stores them): KeyError on load", f"keys {sorted(keys_read)} all provided")
    # formula text excluded from the pickled dict and re-parsed
    wr_excl = any(isinstance(n, ast.Compare) and src(n) == "f != 'formula'" for n in ast.walk(gs))
    rd_excl = any(isinstance(n, ast.Compare) and src(n) == "f != 'formula'" for n in ast.walk(ss))
    ctx.check(wr_excl and rd_excl, "S3-state-keys", f"{LANG}:SMTFormula", "'formula' handled as text on both sides", site(gs), "the z3 object must be excluded from pickling on both sides", "formula stored as text")
    uses_writer = any(call_name(c) == "smt_expr_to_str" for c in calls_in(gs))
    ctx.check(uses_writer, "S3-state-keys", f"{LANG}:SMTFormula.__getstate__", "formula text from smt_expr_to_str", site(gs), "the reader's unescape is matched to smt_expr_to_str; another printer needs another reader", "writer is smt_expr_to_str")
    # the decls handed to the parser cover free + instantiated variables
    p = [c for c in calls_in(ss) if call_name(c) == "z3.parse_smt2_string"][0]
    decls = next((k.value for k in p.keywords if k.arg == "decls"), None)
    ctx.check(decls is not None and "free_variables | instantiated_variables" in src(decls), "S3-state-keys", f"{LANG}:SMTFormula.__setstate__", "decls cover all symbols", site(p),
              "symbols of free and instantiated variables must be declared for re-parsing", "all symbols declared")
    # the restored object gets the formula back
    ok = any(isinstance(n, ast.Assign) and src(n.targets[0]) == "self.formula" for n in walk_local(ss)) and any(isinstance(n, ast.Assign) and src(n.targets[0]) == "self.__dict__" for n in walk_local(ss))
    ctx.check(ok, "S3-state-keys", f"{LANG}:SMTFormula.__setstate__", "restores __dict__ and formula", site(ss), "__setstate__ must restore the attribute dict and the parsed formula", "dict and formula restored")


def _braced_escape_digits(pattern: str):
    """(min, max) number of hex digits the pattern accepts between `\\u{` and `}` - the widest alternative; None if there is no such alternative."""
    import re._parser as sp
    import re._constants as sc

    try:
        tree = sp.parse(pattern)
    except Exception:
        return None
    def expand(seq):
        """flat alternatives of a sequence (the parser factors common prefixes out of a top-level alternation into LITERAL ... BRANCH)"""
        outs = [[]]
        for op, a in seq:
            if op is sc.BRANCH:
                subs = [e for alt in a[1] for e in expand(list(alt))]
                outs = [o + e for o in outs for e in subs]
            else:
                outs = [o + [(op, a)] for o in outs]
            if len(outs) > 64:
                return []
        return outs

    alts = expand(list(tree))
    best = None
    for alt in alts:
        items = list(alt)
        lits = [chr(a) if op is sc.LITERAL else None for op, a in items]
        if lits[:3] != ["\\", "u", "{"] or lits[-1:] != ["}"] or len(items) != 5:
            continue
        op, a = items[3]
        if op is sc.SUBPATTERN:
            inner = list(a[3])
            if len(inner) != 1:
                continue
            op, a = inner[0]
        if op not in (sc.MAX_REPEAT, sc.MIN_REPEAT):
            continue
        lo, hi, body = a
        if len(body) != 1 or body[0][0] is not sc.IN:
            continue
        hi = int(hi) if hi is not sc.MAXREPEAT else 1 << 30
        if best is None or hi > best[1]:
            best = (int(lo), hi)
    return best


def rule_s8(ctx):
    """No hash value is persisted: str hashes are salted per process (PYTHONHASHSEED), so a hash that was computed once, stored in an attribute and pickled with the object is
    wrong in the process that unpickles it (equal objects, different hashes: dict lookups and set membership silently miss).  A class whose __hash__ returns a stored
    attribute must keep that attribute out of its pickled state (own __getstate__/__reduce__ that does not carry it)."""
    n_hash = n_cached = 0
    for rel in (LANG, "src/isla/derivation_tree.py", "src/isla/solver.py", "src/isla/trie.py", "src/isla/helpers.py"):
        if not ctx.repo.exists(rel):
            continue
        m = ctx.repo.module(rel, "C17.S8")
        for cls in [n for n in m.tree.body if isinstance(n, ast.ClassDef)]:
            hf = next((n for n in cls.body if isinstance(n, ast.FunctionDef) and n.name == "__hash__"), None)
            if hf is None:
                continue
            n_hash += 1
            attrs = {r.value.attr for r in walk_local(hf) if isinstance(r, ast.Return) and isinstance(r.value, ast.Attribute) and isinstance(r.value.value, ast.Name) and r.value.value.id == "self"}
            if not attrs:
                continue
            stores = [a for meth in cls.body if isinstance(meth, ast.FunctionDef) for a in walk_local(meth)
                      if isinstance(a, ast.Assign) and any(isinstance(t, ast.Attribute) and isinstance(t.value, ast.Name) and t.value.id == "self" and t.attr in attrs for t in a.targets)
                      and any(isinstance(x, ast.Call) and ((call_name(x) or "") == "hash" or "hash" in (call_name(x) or "").lower()) for x in ast.walk(a.value))]
            if not stores:
                continue
            n_cached += 1
            own_state = [n.name for n in cls.body if isinstance(n, ast.FunctionDef) and n.name in ("__getstate__", "__reduce__", "__reduce_ex__")]
            c = f"{rel}:{cls.name}"
            if own_state:
                gs = next(n for n in cls.body if isinstance(n, ast.FunctionDef) and n.name == own_state[0])
                carries = any(isinstance(x, ast.Attribute) and x.attr in attrs for x in ast.walk(gs)) or any(isinstance(x, ast.Attribute) and x.attr == "__dict__" for x in ast.walk(gs))
                ctx.check(not carries, "S8-no-persisted-hash", c, f"cached hash {sorted(attrs)} kept out of the pickled state", site(gs),
                          f"{own_state[0]} carries the cached hash {sorted(attrs)} (or the whole __dict__)", f"{own_state[0]} builds the state without it")
            else:
                ctx.viol("S8-no-persisted-hash", c, f"cached hash {sorted(attrs)} kept out of the pickled state", site(stores[0]),
                         f"{cls.name}.__hash__ returns the stored attribute {sorted(attrs)} (`{' '.join(src(stores[0]).split())[:70]}`) and the class pickles its whole __dict__: "
                         "the hash of a str is salted per process, so an object unpickled in another process (resuming a solver, multiprocessing) equals a fresh one but hashes "
                         "differently - `var in formula.free_variables()` and substitution-map lookups silently miss")
    ctx.inventory["hash_classes"] = n_hash
    ctx.inventory["cached_hash_classes"] = n_cached
    if n_hash < 10:
        raise Unrecognised("C17.S8", LANG, f"only {n_hash} classes with __hash__ found")
    ctx.ok("S8-no-persisted-hash", LANG, "classes with a stored hash keep it out of their pickles", site(ctx.repo.module(LANG, "C17.S8").tree.body[0]), f"{n_hash} __hash__ methods, {n_cached} cached")


def rule_s9(ctx):
    """The CLI's JSON tree text is ASCII (json.dumps' default ensure_ascii): it is written through text streams whose encoding is the environment's (print to stdout,
    open(..., 'w')), and read back as UTF-8.  With ensure_ascii=False a non-ASCII terminal is written in the stream's encoding and the file is not UTF-8 JSON any more."""
    f = ctx.repo.func(CLI, "derivation_tree_to_json", "C17.S9")
    c = f"{CLI}:derivation_tree_to_json"
    dumps = [x for x in calls_in(f) if call_name(x) in ("json.dumps", "dumps")]
    if len(dumps) != 1:
        raise Unrecognised("C17.S9", c, "json.dumps call not found")
    ea = next((k.value for k in dumps[0].keywords if k.arg == "ensure_ascii"), None)
    if ea is None or (isinstance(ea, ast.Constant) and ea.value is True):
        ctx.ok("S9-json-ascii", c, "JSON text is pure ASCII (independent of the output stream's encoding)", site(dumps[0]), "ensure_ascii default")
    elif isinstance(ea, ast.Constant) and ea.value is False:
        ctx.viol("S9-json-ascii", c, "JSON text is pure ASCII (independent of the output stream's encoding)", site(dumps[0]),
                 "ensure_ascii=False lets non-ASCII terminals through verbatim, but `isla solve --tree` prints the text to stdout and `parse -o` opens the file in text mode with "
                 "the locale's encoding: under a non-UTF-8 stream the bytes are not UTF-8 JSON (or UnicodeEncodeError), and the tree cannot be read back")
    else:
        raise Unrecognised("C17.S9", c, f"ensure_ascii={src(ea)[:30]} not constant")
    g = ctx.repo.func("src/isla/derivation_tree.py", "DerivationTree.to_json", "C17.S9")
    d2 = [x for x in calls_in(g) if call_name(x) in ("json.dumps", "dumps")]
    bad = [x for x in d2 if any(k.arg == "ensure_ascii" and not (isinstance(k.value, ast.Constant) and k.value.value is True) for k in x.keywords)]
    ctx.check(bool(d2) and not bad, "S9-json-ascii", "src/isla/derivation_tree.py:DerivationTree.to_json", "pickle/JSON state is pure ASCII", site(g), "to_json passes ensure_ascii other than True", "ensure_ascii default")


def rule_s5(ctx, rule_prefix="S5", with_escape_char=True):
    """Sanitiser flow: text handed to z3.parse_smt2_string (byte-oriented) must be ASCII-escaped; the writer's escape character must itself be escaped."""
    n = 0
    for rel in (LANG, Z3H, "src/isla/evaluator.py", "src/isla/solver.py", "src/isla/isla_predicates.py"):
        m = ctx.repo.module(rel, "C17.S5")
        for c in calls_in(m.tree):
            if call_name(c) != "z3.parse_smt2_string" or not c.args:
                continue
            n += 1
            a = c.args[0]
            q = qual(c)
            if q.endswith("is_protected_smtlib_keyword"):
                ctx.ok(f"{rule_prefix}-non-ascii-escaped", f"{rel}:{q}", "probe of an identifier token", site(c), "argument is an ISLa ID token (ASCII by the lexer's ID rule)")
                continue
            ok = isinstance(a, ast.Call) and call_name(a) == "smt_escape_non_ascii"
            ctx.check(ok, f"{rule_prefix}-non-ascii-escaped", f"{rel}:{q}", "text passes through smt_escape_non_ascii", site(c),
                      f"`{src(a)[:60]}` is handed to z3.parse_smt2_string without replacing non-ASCII characters by \\u{{...}} escapes; the Z3 parser reads bytes, so 'ä' in a string literal becomes "
                      "two characters (the literal no longer equals the tree text, and pickling/unparsing changes the constraint)", "escaped before parsing")
    if n < 3:
        raise Unrecognised("C17.S5", LANG, f"only {n} parse_smt2_string call sites found")
    # escaper definition: every char >= 128 -> \u{hex}
    f = ctx.repo.func(Z3H, "smt_escape_non_ascii", "C17.S5")
    t = " ".join(src(f.body[-1]).split())
    ok = "if ord(char) < 128 else" in t and "\\\\u{{" in t.replace("'", '"') or ("ord(char) < 128" in t and ":x}" in t)
    ctx.shape(ok, f"{rule_prefix}-non-ascii-escaped", f"{Z3H}:smt_escape_non_ascii", "chars >= 128 -> \\u{hex}", site(f), f"escaper body: {t[:120]}", "every non-ASCII character escaped in hex")
    # the reader of as_string() undoes ALL unicode escapes
    g = ctx.repo.func(Z3H, "smt_string_val_to_string", "C17.S5")
    t = " ".join(src(g).split())
    full = "re.sub(" in t and "[0-9a-fA-F]*" in t and "chr(int(" in t
    only_null = ".replace('\\\\u{}', '\\x00')" in t and not full
    if not full and not only_null and "re.sub(" in t and "chr(int(" in t:
        # another pattern: decide it on the regular expression's syntax tree - the braced escape \u{h...} must accept 0 (NUL is printed as \u{}) up to at least 5 hex
        # digits (Z3 characters range to U+2FFFF and as_string() prints \u{1f600})
        sub = next((c for c in calls_in(g) if call_name(c) == "re.sub" and c.args and isinstance(c.args[0], ast.Constant) and isinstance(c.args[0].value, str)), None)
        rng = _braced_escape_digits(sub.args[0].value) if sub is not None else None
        if rng is not None:
            lo, hi = rng
            ctx.check(lo == 0 and hi >= 5, f"{rule_prefix}-as-string-unescaped", f"{Z3H}:smt_string_val_to_string", "braced escape \\u{...} accepts 0 to >= 5 hex digits", site(sub),
                      f"the unescape pattern accepts {lo}..{hi} hex digits inside \\u{{...}}: Z3's as_string() prints NUL as \\u{{}} and characters above U+FFFF with five digits (\\u{{1f600}}), "
                      "which then stay in the value as 9 literal characters (the solver's string for an emoji terminal no longer parses)", f"{lo}..{hi if hi < 1 << 16 else 'unbounded'} digits")
            full = True
    if not full and not only_null:
        raise Unrecognised("C17.S5", f"{Z3H}:smt_string_val_to_string", "unescape shape not recognised")
    ctx.check(full, f"{rule_prefix}-as-string-unescaped", f"{Z3H}:smt_string_val_to_string", "all \\u{...} escapes of as_string() are undone", site(g),
              "only the null byte escape is converted back: as_string() returns characters above Latin-1 as \\u{XXXX}, so a literal like \"€\" is compared as the 8-character text", "general unicode unescape")
    h = ctx.repo.func(Z3H, "evaluate_z3_string_value", "C17.S5")
    t = " ".join(src(h).split())
    ctx.check("smt_string_val_to_string(expr)" in t and ".as_string()" not in t, f"{rule_prefix}-as-string-unescaped", f"{Z3H}:evaluate_z3_string_value", "fast-path literal value uses the unescaper", site(h),
              "the fast path takes expr.as_string() without undoing unicode escapes", "via smt_string_val_to_string")
    if not with_escape_char:
        return
    # writer: the escape character of the quote escape must be escaped as well (otherwise a literal ending in it is ambiguous)
    w = ctx.repo.func(Z3H, "smt_expr_to_str", "C17.S5")
    reps = []
    for c in _replace_calls(w):
        try:
            reps.append((fold(c.args[0]), fold(c.args[1])))
        except NotConstant:
            pass
    esc = next((b for a, b in reps if a == '"'), None)
    if esc is None:
        raise Unrecognised("C17.S5", f"{Z3H}:smt_expr_to_str", "quote escape not found")
    esc_char = esc[0] if len(esc) == 2 else None
    self_escaped = esc_char is None or any(a == esc_char and b != a for a, b in reps)
    ctx.check(self_escaped, f"{rule_prefix}-escape-char-escaped", f"{Z3H}:smt_expr_to_str", f"escape character {esc_char!r} is itself escaped", site(w),
              f"a double quote is written as {esc!r} but a literal {esc_char!r} is written verbatim: a string literal ending in {esc_char!r} is printed as \"...{esc_char}\" whose last two characters read as an escaped quote "
              "(pickling v == 'a\\' raises Z3Exception on load; parse_isla rejects '(= v \"a\\\\\")')", "escape character escaped")


def rule_s4(ctx):
    w = ctx.repo.func(CLI, "derivation_tree_to_json", "C17.S4")
    r = ctx.repo.func(CLI, "get_input_string", "C17.S4")
    d = [c for c in calls_in(w) if call_name(c) == "json.dumps"]
    ok = len(d) == 1 and d[0].args and src(d[0].args[0]) == "tree.to_parse_tree()"
    ctx.check(ok, "S4-cli-json", f"{CLI}:derivation_tree_to_json", "json.dumps(tree.to_parse_tree())", site(w), "CLI JSON output must be the parse-tree form", "writer = dumps o to_parse_tree")
    names = {call_name(c) for c in calls_in(r)} | {dotted(a) for c in calls_in(r) for a in c.args}
    ctx.check("json.loads" in names and "DerivationTree.from_parse_tree" in names, "S4-cli-json", f"{CLI}:get_input_string", "from_parse_tree(json.loads(inp))", site(r),
              "CLI JSON input must be read with json.loads -> DerivationTree.from_parse_tree", "reader = from_parse_tree o loads")
    # None vs [] preserved by both directions
    tp = ctx.repo.func(DT, "DerivationTree.to_parse_tree", "C17.S4")
    fp = ctx.repo.func(DT, "DerivationTree.from_parse_tree", "C17.S4")
    tuples = [src(n) for n in ast.walk(tp) if isinstance(n, ast.Tuple) and len(n.elts) == 2 and src(n.elts[0]) == "node.value"]
    ok = "(node.value, None)" in tuples and "(node.value, [])" in tuples and "(node.value, children)" in tuples
    ctx.check(ok, "S4-open-vs-empty", f"{DT}:DerivationTree.to_parse_tree", "None / [] / children distinguished", site(tp),
              f"open leaves (children None) and terminal leaves (children []) must be written differently; found {tuples}", "three cases written distinctly")
    for n in ast.walk(tp):
        if isinstance(n, ast.Tuple) and src(n) == "(node.value, None)":
            ctx.check(any(f.text == "node.children is None" and f.positive for f in facts(n)), "S4-open-vs-empty", f"{DT}:DerivationTree.to_parse_tree", "None only for open leaves", site(n), "None must be written exactly for children is None", "under `node.children is None`")
    leaf = [c for c in calls_in(fp) if call_name(c) == "DerivationTree" and len(c.args) == 2 and src(c.args[1]) == "children"]
    ok = bool(leaf) and all(any(f.text == "children" and not f.positive for f in facts(c)) for c in leaf)
    ctx.check(ok, "S4-open-vs-empty", f"{DT}:DerivationTree.from_parse_tree", "leaf keeps None / []", site(fp), "leaves must be rebuilt with the children value as read (None stays None, [] stays [])", "leaf built from the value read")


def rule_s6(ctx, prefix="S6"):
    """smt_expr_to_str: (a) bound variables are resolved through a De Bruijn stack - the binders of a quantifier are PREPENDED one by one (index 0 = last binder of
    the innermost quantifier); (b) a string literal is printed as Z3's own as_string() text with only the quote escaped and `\\u{}` normalised - Z3's \\u{..}
    escapes (which also protect a literal backslash, \\u{5c}) are not decoded on the way out."""
    f = ctx.repo.func(Z3H, "smt_expr_to_str", f"C17.{prefix}")
    c = f"{Z3H}:smt_expr_to_str"
    qb = next((n for n in f.body if isinstance(n, ast.If) and src(n.test) == "isinstance(f, z3.QuantifierRef)"), None)
    if qb is None:
        raise Unrecognised(f"C17.{prefix}", c, "quantifier branch not found")
    pushes = [a for a in ast.walk(qb) if isinstance(a, ast.Assign) and src(a.targets[0]) == "qfd_var_stack"]
    if len(pushes) != 1:
        raise Unrecognised(f"C17.{prefix}", c, f"expected one update of qfd_var_stack in the quantifier branch (found {len(pushes)})")
    v = pushes[0].value
    in_loop = any(isinstance(p_, ast.For) and src(p_.iter) == "range(f.num_vars())" for p_ in _ancs(pushes[0]))
    prepend = isinstance(v, ast.BinOp) and isinstance(v.op, ast.Add) and src(v.right) == "qfd_var_stack" and isinstance(v.left, ast.Tuple) and len(v.left.elts) == 1 and src(v.left.elts[0]) == "f.var_name(var_idx)"
    append = isinstance(v, ast.BinOp) and isinstance(v.op, ast.Add) and src(v.left) == "qfd_var_stack"
    if prepend and in_loop:
        ctx.ok(f"{prefix}-de-bruijn", c, "binders prepended one by one", site(pushes[0]), "(f.var_name(var_idx),) + qfd_var_stack inside the loop over the binders")
    elif append:
        ctx.viol(f"{prefix}-de-bruijn", c, "binders prepended one by one", site(pushes[0]),
                 f"the quantifier's variable names are appended to the stack (`{src(v)[:60]}`): z3.get_var_index counts from the innermost binder, so under a nested quantifier index 0 resolves to a "
                 "variable of the OUTER quantifier - `exists a. forall b. prefixof(a, b)` is printed (and unpickled) as prefixof(b, a)")
    else:
        raise Unrecognised(f"C17.{prefix}", c, f"stack update `{src(pushes[0])[:70]}` not understood")
    vr = next((n for n in f.body if isinstance(n, ast.If) and src(n.test) == "z3.is_var(f)"), None)
    ok = vr is not None and any(isinstance(r, ast.Return) and src(r.value) == "qfd_var_stack[idx]" for r in ast.walk(vr)) and any(isinstance(a, ast.Assign) and src(a.value) == "z3.get_var_index(f)" for a in ast.walk(vr))
    ctx.check(ok, f"{prefix}-de-bruijn", c, "bound variable = stack[z3.get_var_index(f)]", site(f), "variable lookup changed", "qfd_var_stack[idx]")
    sb = next((n for n in f.body if isinstance(n, ast.If) and src(n.test) == "z3.is_string_value(f)"), None)
    if sb is None:
        raise Unrecognised(f"C17.{prefix}", c, "string literal branch not found")
    decoders = [x for x in ast.walk(sb) if isinstance(x, ast.Call) and call_name(x) in ("chr", "smt_string_val_to_string") or (isinstance(x, ast.Call) and call_name(x) == "re.sub")]
    names_called = {x.id for x in ast.walk(sb) if isinstance(x, ast.Name)}
    helper_decodes = any(isinstance(d, ast.FunctionDef) and d.name in names_called and any(isinstance(y, ast.Call) and call_name(y) == "chr" for y in ast.walk(d)) for d in ast.walk(sb))
    ctx.check(not decoders and not helper_decodes, f"{prefix}-literal-escapes-kept", c, "Z3's \\u{..} escapes are printed as they are", site(sb),
              "the literal branch decodes \\u{..} escapes of as_string() back into characters: Z3 writes a literal backslash that precedes 'u{' as \\u{5c}, so decoding turns the six characters "
              "`\\u{e4}` of a literal into an escape that the reader interprets as 'ä' - the constraint changes silently on a pickle / unparse round trip", "only the quote is escaped and \\u{} normalised")


def _ancs(n):
    cur = getattr(n, "_parent", None)
    while cur is not None:
        yield cur
        cur = getattr(cur, "_parent", None)


def run(ctx) -> str:
    ctx.guarded("S6", lambda: rule_s6(ctx))
    ctx.guarded("S8", lambda: rule_s8(ctx))
    ctx.guarded("S9", lambda: rule_s9(ctx))
    from . import c16

    # a new per-instance field of DerivationTree must be classified (identity / memo, stripped by the serialisers or not): shared with C16.O1
    ctx.guarded("S7", lambda: c16.rule_o1(ctx))
    ctx.guarded("S1", lambda: rule_s1(ctx))
    ctx.guarded("S2", lambda: rule_s2(ctx))
    ctx.guarded("S3", lambda: rule_s3(ctx))
    ctx.guarded("S4", lambda: rule_s4(ctx))
    ctx.guarded("S5", lambda: rule_s5(ctx))
    ctx.assume("z3.parse_smt2_string follows SMT-LIB 2.6 string literal syntax (\"\" for a quote)")
    return EXPLANATION
