"""C08 — Simplified syntax means exactly its documented core translation."""

from __future__ import annotations

import ast
import re as _re
from typing import Dict, List, Optional

from ..core import has_fact, clone, Unrecognised, Slot, call_name, calls_in, dotted, facts, module_of, parent, qual, site, src, template, walk_local, significant_body
from ..formulas import LANG, PropError, SPEC_TABLES, truth_table
from ..memo import check_memo_keys

EXPLANATION = (
    "Static necessary conditions for C08 over ISLaEmitter in src/isla/language.py: decided: (D1) the derived connectives implies / iff / xor are "
    "built as propositional terms whose 4-row truth table (over the two operand formulas) equals the specification's, and negation/and/or use "
    "-, &, | on formula(0), formula(1) in source order; (D2) an omitted `in` clause and the universal closure of free nonterminals range over the "
    "emitter's declared constant (self.constant), never a fresh Constant('start', '<start>'); (D3) the four infix emitters and the prefix/app "
    "emitters write S-expressions `(op lhs rhs)` with operator and operands in source order; (D4) free nonterminals are closed universally "
    "(univ_close_over_var_push_in only ever builds ForallFormula for the new quantifier); (D5) the XPath index base agrees between parse_xpath_expr "
    "(concrete index - 1, default 0) and expand_mexpr_trees (nth_occ with the same 0-based position). NOT decided: that the XPath -> match-expression "
    "translation and the quantifier push-in preserve meaning on every tree."
)


def rule_d1(ctx):
    m = ctx.repo.module(LANG, "C08.D1")
    for meth, key in (("exitImplication", "implies"), ("exitEquivalence", "iff"), ("exitExclusiveOr", "xor"), ("exitConjunction", "and"), ("exitDisjunction", "or")):
        f = ctx.repo.func(LANG, f"ISLaEmitter.{meth}", "C08.D1")
        construct = f"{LANG}:ISLaEmitter.{meth}"
        names: Dict[str, str] = {}
        result = None
        for st in f.body:
            if isinstance(st, ast.Assign) and len(st.targets) == 1:
                t, v = st.targets[0], st.value
                if isinstance(t, ast.Name) and src(v) == "self.formulas[ctx.formula(0)]":
                    names[t.id] = "A"
                elif isinstance(t, ast.Name) and src(v) == "self.formulas[ctx.formula(1)]":
                    names[t.id] = "B"
                elif src(t) == "self.formulas[ctx]":
                    result = v
        if result is None:
            raise Unrecognised("C08.D1", construct, "assignment to self.formulas[ctx] not found")
        # inline direct operand references
        class Inline(ast.NodeTransformer):
            def visit_Subscript(self, n):
                s = src(n)
                if s == "self.formulas[ctx.formula(0)]":
                    return ast.Name(id="__A", ctx=ast.Load())
                if s == "self.formulas[ctx.formula(1)]":
                    return ast.Name(id="__B", ctx=ast.Load())
                return n

        import copy

        expr = Inline().visit(clone(result))
        names = dict(names)
        names["__A"] = "A"
        names["__B"] = "B"
        try:
            tt = truth_table(expr, names)
        except PropError as exc:
            raise Unrecognised("C08.D1", construct, f"result expression {src(result)} is not a propositional term over the operands ({exc})")
        want = SPEC_TABLES[key]
        ctx.check(tt == want, "D1-derived-connective", construct, f"{key}: {src(result)}", site(f),
                  f"`A {key} B` must have the truth table {want} over (A,B)=FF,FT,TF,TT; the emitted term {src(result)} has {tt}", f"truth table of {key}")
    f = ctx.repo.func(LANG, "ISLaEmitter.exitNegation", "C08.D1")
    asg = [st for st in f.body if isinstance(st, ast.Assign) and src(st.targets[0]) == "self.formulas[ctx]"]
    ctx.check(len(asg) == 1 and src(asg[0].value) == "-self.formulas[ctx.formula()]", "D1-derived-connective", f"{LANG}:ISLaEmitter.exitNegation", "not A", site(f),
              f"found {src(asg[0].value) if asg else None}", "negation of the operand")
    f = ctx.repo.func(LANG, "ISLaEmitter.exitParFormula", "C08.D1")
    asg = [st for st in f.body if isinstance(st, ast.Assign) and src(st.targets[0]) == "self.formulas[ctx]"]
    ctx.check(len(asg) == 1 and src(asg[0].value) == "self.formulas[ctx.formula()]", "D1-derived-connective", f"{LANG}:ISLaEmitter.exitParFormula", "(A) = A", site(f),
              f"found {src(asg[0].value) if asg else None}", "parentheses are transparent")


def has_fact_text(test: ast.expr, text: str) -> bool:
    """`a == b` in either operand order"""
    t = " ".join(src(test).split())
    if t == text:
        return True
    if isinstance(test, ast.Compare) and len(test.ops) == 1 and isinstance(test.ops[0], (ast.Eq, ast.Is)):
        return f"{src(test.comparators[0])} == {src(test.left)}" == text
    return False


def rule_d2(ctx):
    m = ctx.repo.module(LANG, "C08.D2")
    cls = m.get("ISLaEmitter")
    if not isinstance(cls, ast.ClassDef):
        raise Unrecognised("C08.D2", f"{LANG}:ISLaEmitter", "class not found")
    # (a) no start_constant() inside the emitter
    n = 0
    for c in calls_in(cls):
        if call_name(c) == "start_constant" or (call_name(c) == "Constant" and [src(a) for a in c.args] == ["'start'", "'<start>'"] and not qual(c).endswith("__init__")):
            n += 1
            ctx.viol("D2-default-in", f"{LANG}:{qual(c)}", src(c), site(c),
                     "a fresh Constant('start', '<start>') is used where the emitter's declared constant is meant: with `const c: <start>;` an omitted `in` clause ranges over a second, different constant")
    # (b) exitQfdFormula: the else branch of the in-variable choice is self.constant
    f = ctx.repo.func(LANG, "ISLaEmitter.exitQfdFormula", "C08.D2")
    asg = [st for st in walk_local(f) if isinstance(st, ast.Assign) and src(st.targets[0]) == "in_var"]
    if len(asg) < 3:
        raise Unrecognised("C08.D2", f"{LANG}:ISLaEmitter.exitQfdFormula", "in_var selection (inId / inVarType / default) not found")
    default = [a for a in asg if any(not f_.positive and f_.text == "ctx.inId" for f_ in facts(a)) and not any(f_.positive and f_.text.startswith("ctx.inVarType") for f_ in facts(a))]
    if len(default) != 1:
        raise Unrecognised("C08.D2", f"{LANG}:ISLaEmitter.exitQfdFormula", "default branch of the in-variable not identified")
    ctx.check(src(default[0].value) == "self.constant", "D2-default-in", f"{LANG}:ISLaEmitter.exitQfdFormula", "default in = self.constant", site(default[0]),
              f"an omitted `in` clause must range over the declared constant, found {src(default[0].value)}", "declared constant")
    explicit = [a for a in asg if any(f_.positive and f_.text == "ctx.inId" for f_ in facts(a))]
    ctx.check(len(explicit) == 1 and src(explicit[0].value) == "self.get_var(parse_tree_text(ctx.inId))", "D2-default-in", f"{LANG}:ISLaEmitter.exitQfdFormula", "explicit in-id resolved by get_var", site(f),
              "`in x` must be resolved with get_var (which maps the constant's name to the constant)", "get_var")
    # (c) close_over_free_nonterminals passes in_var=self.constant
    f = ctx.repo.func(LANG, "ISLaEmitter.close_over_free_nonterminals", "C08.D2")
    calls = [c for c in calls_in(f) if call_name(c) == "univ_close_over_var_push_in"]
    if len(calls) < 2:
        raise Unrecognised("C08.D2", f"{LANG}:ISLaEmitter.close_over_free_nonterminals", "closure calls not found")
    for c in calls:
        kw = {k.arg: src(k.value) for k in c.keywords}
        iv = kw.get("in_var") or (src(c.args[2]) if len(c.args) > 2 else None)
        ctx.check(iv == "self.constant", "D2-default-in", f"{LANG}:ISLaEmitter.close_over_free_nonterminals", f"closure over {src(c.args[1])} in self.constant", site(c),
                  f"free nonterminals are closed over the declared constant; this call passes in_var={iv} (the function's default is a fresh start constant)", "in_var=self.constant")
    # get_var maps the constant name to the constant
    f = ctx.repo.func(LANG, "ISLaEmitter.get_var", "C08.D2")
    b0 = (significant_body(f) or [None])[0]
    ok = isinstance(b0, ast.If) and has_fact_text(b0.test, "var_name == self.constant.name") and src(b0.body[0]) == "return self.constant"
    ctx.check(ok, "D2-default-in", f"{LANG}:ISLaEmitter.get_var", "constant name -> constant", site(f), "get_var must return the declared constant for its name", "constant resolved by name")
    # exitConstDecl builds the constant from ID and VAR_TYPE of the declaration
    f = ctx.repo.func(LANG, "ISLaEmitter.exitConstDecl", "C08.D2")
    asg = [st for st in f.body if isinstance(st, ast.Assign) and src(st.targets[0]) == "self.constant"]
    ok = len(asg) == 1 and src(asg[0].value).replace("\n", "").replace(" ", "") == "Constant(parse_tree_text(ctx.ID()),parse_tree_text(ctx.VAR_TYPE()))"
    ctx.check(ok, "D2-default-in", f"{LANG}:ISLaEmitter.exitConstDecl", "constant = Constant(ID, VAR_TYPE)", site(f), f"found {src(asg[0].value) if asg else None}", "constant from the declaration")


def rule_d3(ctx):
    infix = ["exitSexprInfixReStr", "exitSexprInfixPlusMinus", "exitSexprInfixMulDiv", "exitSexprInfixEq"]
    shapes = {}
    for meth in infix:
        f = ctx.repo.func(LANG, f"ISLaEmitter.{meth}", "C08.D3")
        asg = [st for st in f.body if isinstance(st, ast.Assign) and src(st.targets[0]).replace("\n", "").replace(" ", "") == "self.smt_expressions[ctx]"]
        if len(asg) != 1:
            raise Unrecognised("C08.D3", f"{LANG}:ISLaEmitter.{meth}", "assignment to self.smt_expressions[ctx] not found")
        tpl = template(asg[0].value)
        if tpl is None:
            raise Unrecognised("C08.D3", f"{LANG}:ISLaEmitter.{meth}", "not a template")
        shape = [p if isinstance(p, str) else "{" + src(p.expr) + "}" for p in tpl]
        shapes[meth] = shape
        want = ["(", "{parse_tree_text(ctx.op)}", " ", "{self.smt_expressions[ctx.sexpr(0)]}", " ", "{self.smt_expressions[ctx.sexpr(1)]}", ")"]
        ctx.check(shape == want, "D3-infix-order", f"{LANG}:ISLaEmitter.{meth}", "(op lhs rhs)", site(asg[0]),
                  f"infix `a op b` must become `(op a b)` with operands in source order; template is {''.join(shape)}", "(op sexpr(0) sexpr(1))")
    ctx.check(len({tuple(s) for s in shapes.values()}) == 1, "D3-sibling-agreement", f"{LANG}:ISLaEmitter.exitSexprInfix*", "four infix emitters agree", f"{LANG}:0",
              f"the infix emitters disagree on their template: { {k: ''.join(v) for k, v in shapes.items()} }", "identical templates")
    for meth in ("exitSexprPrefix", "exitSepxrApp"):
        f = ctx.repo.func(LANG, f"ISLaEmitter.{meth}", "C08.D3")
        joins = [c for c in calls_in(f) if isinstance(c.func, ast.Attribute) and c.func.attr == "join"]
        ok = len(joins) == 1 and src(joins[0].args[0]) == "[self.smt_expressions[child] for child in ctx.sexpr()]" and src(joins[0].func.value) == "' '"
        ctx.check(ok, "D3-infix-order", f"{LANG}:ISLaEmitter.{meth}", "arguments joined in source order", site(f), "prefix/application arguments must be emitted in the order of ctx.sexpr()", "source order")
    f = ctx.repo.func(LANG, "ISLaEmitter.exitSexprPrefix", "C08.D3")
    ok = any("({parse_tree_text(ctx.op)} " in src(n) or "parse_tree_text(ctx.op)" in src(n) for n in ast.walk(f) if isinstance(n, ast.JoinedStr))
    ctx.check(ok, "D3-infix-order", f"{LANG}:ISLaEmitter.exitSexprPrefix", "op first", site(f), "prefix application must start with the operator", "operator first")
    # negative literals: INT token text passed through unchanged
    f = ctx.repo.func(LANG, "ISLaEmitter.exitSexprNum", "C08.D3")
    asg = [st for st in significant_body(f) if isinstance(st, ast.Assign)]
    ctx.check(len(asg) == 1 and src(asg[0].value) == "antlr_get_text_with_whitespace(ctx)", "D3-literals", f"{LANG}:ISLaEmitter.exitSexprNum", "INT passed through", site(f), "numeric literal text must be passed through", "literal text kept")


def rule_d4(ctx):
    f = ctx.repo.func(LANG, "univ_close_over_var_push_in", "C08.D4")
    construct = f"{LANG}:univ_close_over_var_push_in"
    rets = [r for r in walk_local(f) if isinstance(r, ast.Return)]
    for r in rets:
        v = r.value
        s = src(v)
        if s == "formula":
            ctx.ok("D4-universal-closure", construct, "return formula (variable not free)", site(r), "unchanged when the variable does not occur")
            fs = facts(r)
            ok = any("intersection(formula.free_variables())" in f_.text and not f_.positive for f_ in fs)
            ctx.check(ok, "D4-universal-closure", construct, "unchanged only if variable not free", site(r), "formula returned unchanged although the closed variable may occur free", "guarded by 'not free'")
            continue
        if isinstance(v, ast.Call):
            cn = call_name(v)
            if cn == "ForallFormula":
                a = [src(x) for x in v.args]
                kw = {k.arg: src(k.value) for k in v.keywords}
                if a[:3] == ["var", "in_var", "formula"]:
                    ctx.check(kw.get("bind_expression") == "mexpr" or (len(a) > 3 and a[3] == "mexpr"), "D4-universal-closure", construct, "new quantifier ForallFormula(var, in_var, formula, mexpr)", site(r), "match expression of the new quantifier dropped", "new universal quantifier")
                else:
                    ok = a[0] == "formula.bound_variable" and a[1] == "formula.in_variable" and a[2].startswith("univ_close_over_var_push_in(formula.inner_formula") and len(a) > 3 and a[3] == "formula.bind_expression"
                    ctx.check(ok, "D4-universal-closure", construct, "push below an existing forall keeps it intact", site(r), f"existing quantifier rebuilt as {s[:80]}", "existing quantifier kept, closure pushed into its body")
                    fs = facts(r)
                    ctx.check(any(f_.positive and f_.text == "isinstance(formula, ForallFormula)" for f_ in fs) and any(f_.text == "var == formula.in_variable" and not f_.positive for f_ in fs), "D4-universal-closure", construct,
                              "push-in only below forall not ranging over var", site(r), "pushing below a quantifier whose in-variable is the closed variable (or below an exists) changes meaning", "guarded")
                continue
            if cn == "ExistsFormula":
                ctx.viol("D4-universal-closure", construct, s[:60], site(r), "free nonterminals must be closed universally; this builds an existential quantifier")
                continue
            if s.startswith("type(formula)(*result_elements)"):
                ctx.ok("D4-universal-closure", construct, "same combinator over closed parts", site(r), "combinator type preserved")
                continue
        raise Unrecognised("C08.D4", construct, f"return {s[:70]} not understood")
    # no ExistsFormula anywhere in the function
    bad = [c for c in calls_in(f) if call_name(c) == "ExistsFormula"]
    ctx.check(not bad, "D4-universal-closure", construct, "never builds ExistsFormula", site(f), "existential quantifier built in the universal closure", "no existential")


def rule_d5(ctx):
    f = ctx.repo.func(LANG, "ISLaEmitter.parse_xpath_expr", "C08.D5")
    construct = f"{LANG}:ISLaEmitter.parse_xpath_expr"
    ifexp = [n for n in ast.walk(f) if isinstance(n, ast.IfExp)]
    if len(ifexp) != 1:
        raise Unrecognised("C08.D5", construct, "index expression not found")
    e = ifexp[0]
    ctx.check(src(e.body) == "(elem, 0)" and src(e.test) == "'[' not in elem", "D5-xpath-index", construct, "no index -> first occurrence (0)", site(e), f"default index: {src(e.body)} under {src(e.test)}", "default 0")
    ctx.check(src(e.orelse) == "(elem.split('[')[0], int(elem.split('[')[1][:-1]) - 1)", "D5-xpath-index", construct, "[i] -> i - 1", site(e),
              f"concrete indices are 1-based and must be stored 0-based (i - 1); found {src(e.orelse)}", "1-based -> 0-based")
    splits = [src(c) for c in calls_in(f) if isinstance(c.func, ast.Attribute) and c.func.attr == "split"]
    ctx.check("xpath_expr.split('..')" in splits and "seg.split('.')" in splits, "D5-xpath-index", construct, "segments split at '..', steps at '.'", site(f), f"found {splits}", "descendant / child axes separated")
    g = ctx.repo.func(LANG, "ISLaEmitter.expand_mexpr_trees", "C08.D5")
    c2 = f"{LANG}:ISLaEmitter.expand_mexpr_trees"
    nth = [c for c in calls_in(g) if call_name(c) == "nth_occ"]
    ctx.check(len(nth) == 1 and [src(a) for a in nth[0].args] == ["expansion", "nonterminal", "position"], "D5-xpath-index", c2, "nth_occ(expansion, nonterminal, position)", site(g),
              f"occurrence selection: {[src(a) for a in nth[0].args] if nth else None}", "same 0-based position")
    cmp_ = [n for n in ast.walk(g) if isinstance(n, ast.Compare) and "position" in src(n)]
    ctx.check(any(src(n).replace("\n", " ").endswith("> position") for n in cmp_), "D5-xpath-index", c2, "expansion needs more than `position` occurrences", site(g),
              "an expansion qualifies iff it has more than `position` (0-based) occurrences of the nonterminal", "count > position")
    helpers = ctx.repo.module("src/isla/helpers.py", "C08.D5")
    no = helpers.get("nth_occ")
    if not isinstance(no, ast.FunctionDef):
        raise Unrecognised("C08.D5", "src/isla/helpers.py:nth_occ", "not found")
    ctx.inventory["nth_occ"] = src(no)[:300]


def rule_d6(ctx):
    """(a) push-in keeps the connective of the formulas it re-groups; (b) groupby over XPath expressions sees them sorted by the grouping key; (c) memo keys."""
    f = ctx.repo.func(LANG, "univ_close_over_var_push_in", "C08.D6")
    c = f"{LANG}:univ_close_over_var_push_in"
    rec = [x for x in calls_in(f) if call_name(x) == "univ_close_over_var_push_in" and x.args and "other_formulas" in src(x.args[0])]
    if len(rec) != 1:
        raise Unrecognised("C08.D6", c, "recursion over the re-grouped `other_formulas` not found")
    a0 = " ".join(src(rec[0].args[0]).split())
    good = "type(formula)(*other_formulas) if len(other_formulas) > 1 else other_formulas[0]"
    if a0 == good:
        ctx.ok("D6-regroup-connective", c, "re-grouped sub-formulas keep the original connective", site(rec[0]), "type(formula)(*other_formulas)")
    elif any(k in a0 for k in ("__and__", "__or__", "ConjunctiveFormula", "DisjunctiveFormula", " & ", " | ")):
        ctx.viol("D6-regroup-connective", c, "re-grouped sub-formulas keep the original connective", site(rec[0]),
                 f"the sub-formulas that stay under one new quantifier are recombined with a fixed connective (`{a0}`) although `formula` may be a conjunction or a disjunction: "
                 "closing over `A or B or C` (C independent) turns `A or B` into `A and B` under the quantifier")
    else:
        raise Unrecognised("C08.D6", c, f"re-grouping expression `{a0}` not recognised")
    g = ctx.repo.func(LANG, "ISLaEmitter.close_over_free_nonterminals", "C08.D6")
    c2 = f"{LANG}:ISLaEmitter.close_over_free_nonterminals"
    gbs = [x for x in calls_in(g) if call_name(x) == "itertools.groupby"]
    if len(gbs) != 1 or len(gbs[0].args) != 2:
        raise Unrecognised("C08.D6", c2, "itertools.groupby(sorted(...), key) not found")
    data, gkey = gbs[0].args
    if not (isinstance(gkey, ast.Lambda) and isinstance(data, ast.Call) and call_name(data) == "sorted"):
        raise Unrecognised("C08.D6", c2, "groupby arguments not in the recognised shape")
    gp = gkey.args.args[0].arg
    gexpr = src(gkey.body)
    skey = next((k.value for k in data.keywords if k.arg == "key"), None)
    if skey is None:
        # natural tuple order: the grouping key must be the most significant component (all indices 0)
        import re as _re

        ok = _re.fullmatch(rf"{gp}(\[0\])+", gexpr) is not None
        ctx.check(ok, "D6-groupby-sorted", c2, f"groupby key {gexpr} is the primary sort component", site(gbs[0]), f"data sorted in natural order but grouped by {gexpr}", "sorted by the grouping key")
    else:
        sp = skey.args.args[0].arg if isinstance(skey, ast.Lambda) else None
        first = skey.body.elts[0] if isinstance(skey, ast.Lambda) and isinstance(skey.body, ast.Tuple) and skey.body.elts else (skey.body if isinstance(skey, ast.Lambda) else None)
        ok = first is not None and src(first).replace(sp or "", "P", 1) == gexpr.replace(gp, "P", 1)
        ctx.check(ok, "D6-groupby-sorted", c2, f"groupby key {gexpr} is the primary sort component", site(gbs[0]),
                  f"itertools.groupby only merges ADJACENT elements, but the data is sorted by `{src(skey.body) if isinstance(skey, ast.Lambda) else src(skey)}` whose most significant component is not the grouping key `{gexpr}`: "
                  "XPath expressions with the same head nonterminal end up in several groups and that nonterminal is closed by several independent quantifiers", "sorted by the grouping key")
    n = check_memo_keys(ctx, "D6-memo-key", [LANG])
    ctx.inventory["memo_sites_language"] = n


def rule_d7(ctx, prefix="D7"):
    """Variables are identified by NAME in the emitter's VariableManager: a lookup that finds an existing variable must not silently ignore a different
    declared type (a second `exists <digit> v` after `exists <stmt> v` would become a quantifier over <stmt>)."""
    f = ctx.repo.func(LANG, "VariableManager._var", f"C08.{prefix}")
    c = f"{LANG}:VariableManager._var"
    hit = [n for n in f.body if isinstance(n, ast.If) and src(n.test) == "matching_variables"]
    if len(hit) != 1:
        raise Unrecognised(f"C08.{prefix}", c, "lookup-by-name branch `if matching_variables:` not found")
    br = hit[0]
    rets = [r for r in ast.walk(br) if isinstance(r, ast.Return)]
    if not rets or any(src(r.value) != "matching_variables[0]" for r in rets):
        raise Unrecognised(f"C08.{prefix}", c, "lookup branch does not return the existing variable")
    guards = [n for n in br.body if isinstance(n, ast.If) and "n_type" in src(n.test) and ".n_type" in src(n.test) and any(isinstance(x, ast.Raise) for x in ast.walk(n))]
    ctx.check(bool(guards), f"{prefix}-declared-type-respected", c, "existing variable returned only if the declared type agrees", site(br),
              "a variable is looked up by its name alone and the declared type of the new occurrence is ignored: in `(exists <stmt> v: ...) and (exists <digit> v: str.to.int(v) >= 1)` the second "
              "quantifier silently ranges over <stmt> - the parsed constraint is not the one that was written", "type conflict raises")
    if guards:
        t = " ".join(src(guards[0].test).split())
        ok = t in ("n_type is not None and matching_variables[0].n_type != n_type", "n_type is not None and n_type != matching_variables[0].n_type")
        if not ok:
            raise Unrecognised(f"C08.{prefix}", c, f"type-conflict test `{t}` not understood")


def rule_d8(ctx):
    """Names bound inside a match expression count as used, whether or not the quantifier itself is named: fresh names for free nonterminals are chosen to avoid
    the used names, otherwise `exists <assgn>="{<var> var} := <rhs>": <var> = var` captures the free <var> as the bound `var`."""
    m = ctx.repo.module(LANG, "C08.D8")
    cls = "ConcreteSyntaxUsedVariablesCollector"
    n = 0
    for meth in ("enterForallMexpr", "enterExistsMexpr"):
        fn = m.get(f"{cls}.{meth}")
        if not isinstance(fn, ast.FunctionDef):
            raise Unrecognised("C08.D8", f"{LANG}:{cls}", f"{meth} not found")
        construct = f"{LANG}:{cls}.{meth}"
        # follow one level of helper calls on self
        todo = [(fn, [])]
        found = False
        seen = set()
        while todo:
            f_, inherited = todo.pop()
            if f_.name in seen:
                continue
            seen.add(f_.name)
            for c in calls_in(f_, include_nested=False):
                nm = call_name(c) or ""
                if nm == "self.collect_used_variables_in_mexpr":
                    found = True
                    n += 1
                    conds = inherited + [(x.text, x.positive) for x in facts(c)]
                    guarded = [t for t, pos in conds if "varId" in t]
                    ctx.check(not guarded, "D8-mexpr-names-used", construct, "match-expression names collected unconditionally", site(c),
                              f"the names bound in the match expression are only recorded when the quantifier is named (condition {guarded}): for a quantifier with an omitted name a later free "
                              "nonterminal gets a default name that is already bound inside the match expression and is captured by it", "no dependence on ctx.varId")
                elif nm.startswith("self.") and nm != "self.collect_used_variables_in_mexpr":
                    helper = m.get(f"{cls}.{nm[5:]}")
                    if isinstance(helper, ast.FunctionDef):
                        todo.append((helper, inherited + [(x.text, x.positive) for x in facts(c)]))
        if not found:
            ctx.viol("D8-mexpr-names-used", construct, "match-expression names collected", site(fn), "the handler never records the names bound in the match expression")
    if n < 2:
        raise Unrecognised("C08.D8", f"{LANG}:{cls}", f"only {n} collection sites found")


def rule_d9(ctx):
    """XPath-to-match-expression merging: two derivation prefixes are merged only if the symbols along the shared path agree (both branches of
    __merge_trees_at_path check it before answering Some(...))."""
    m = ctx.repo.module(LANG, "C08.D9")
    fn = next((f for q, f in m.functions() if q.startswith("AddMexprTransformer.") and q.endswith("merge_trees_at_path") and isinstance(f, ast.FunctionDef)), None)
    if fn is None:
        raise Unrecognised("C08.D9", f"{LANG}:AddMexprTransformer", "__merge_trees_at_path not found")
    c = f"{LANG}:AddMexprTransformer.__merge_trees_at_path"
    rets = [r for r in walk_local(fn) if isinstance(r, ast.Return) and isinstance(r.value, ast.Call) and call_name(r.value) == "Some"]
    if len(rets) < 2:
        raise Unrecognised("C08.D9", c, f"expected two Some(...) answers (found {len(rets)})")
    pat = _re.compile(r"any\(\(merged_tree\.get_subtree\((\w+)\[:idx\]\)\.value != new_tree\.get_subtree\(\1\[:idx\]\)\.value for idx in range\(len\(\1\)\)\)\)")
    for r in rets:
        fs = facts(r)
        ok = any((not f_.positive) and pat.fullmatch(" ".join(f_.text.split())) for f_ in fs)
        ctx.check(ok, "D9-merge-symbols-agree", c, f"`{src(r.value)[:40]}` only after the symbols along the shared path were compared", site(r),
                  "two match-expression prefixes are merged without checking that they carry the same symbols along the shared path: for a grammar whose alternatives swap child positions "
                  "(<pair> ::= <left> \"=\" <right> | <right> \"~\" <left>) the translation of `<pair>.<left>.<key> = <pair>.<right>.<val>` gains wrong conjuncts", "dominated by the symbol comparison")


def rule_d11(ctx):
    """Every recursive call of univ_close_over_var_push_in hands on the container variable (`in_var`), the match expression and the variable set: a call that omits
    in_var falls back to the default constant `start`, which is wrong as soon as the specification declares its constant under another name."""
    f = ctx.repo.func(LANG, "univ_close_over_var_push_in", "C08.D11")
    c = f"{LANG}:univ_close_over_var_push_in"
    params = [a.arg for a in f.args.args]
    rec = [x for x in ast.walk(f) if isinstance(x, ast.Call) and call_name(x) == "univ_close_over_var_push_in"]
    if len(rec) < 2:
        raise Unrecognised("C08.D11", c, f"only {len(rec)} recursive calls found")
    for call in rec:
        passed = {}
        for i, a in enumerate(call.args):
            if i < len(params):
                passed[params[i]] = src(a)
        for k in call.keywords:
            if k.arg:
                passed[k.arg] = src(k.value)
        for need in ("var", "in_var", "mexpr", "qfd_vars"):
            ctx.check(passed.get(need) == need, "D11-push-in-arguments", c, f"recursive call passes {need}", site(call),
                      f"a recursive call of univ_close_over_var_push_in does not hand on `{need}` (got {passed.get(need)!r}): for `in_var` the default constant `start` is used, so with "
                      "`const prog: <start>; (<var> = \"a\" and exists <rhs> r: r = \"1\")` the closure ranges over an undeclared `start`", f"{need}={need}")
    # ... and the quantifier that is finally built ranges over in_var with the match expression
    last = f.body[-1]
    ok = isinstance(last, ast.Return) and " ".join(src(last.value).split()) == "ForallFormula(var, in_var, formula, bind_expression=mexpr)"
    ctx.check(ok, "D11-push-in-arguments", c, "new quantifier = forall var in in_var with mexpr", site(last), f"found {src(last)[:70]}", "ForallFormula(var, in_var, formula, bind_expression=mexpr)")


def rule_d12(ctx):
    """nth_occ (used to resolve `<type>[n]` of XPath segments to a position in an expansion): position of the n-th occurrence counted in ONE scan of the sequence."""
    H = "src/isla/helpers.py"
    f = ctx.repo.func(H, "nth_occ", "C08.D12")
    c = f"{H}:nth_occ"
    t = " ".join(src(f).split())
    scan = "for idx, elem in enumerate(haystack): if elem == needle: if num_occs == n: return idx num_occs += 1" in t and t.rstrip().endswith("return None")
    if scan:
        ctx.ok("D12-nth-occurrence", c, "single scan counting matches", site(f), "returns the index at which the n-th match is seen")
        return
    rec = [x for x in ast.walk(f) if isinstance(x, ast.Call) and call_name(x) == "nth_occ"]
    if rec:
        # recursion on a suffix: the result has to be re-based by the suffix offset, not by a constant
        sl = [a for a in rec[0].args if isinstance(a, ast.Subscript) and isinstance(a.slice, ast.Slice) and a.slice.lower is not None]
        rets = [r for r in ast.walk(f) if isinstance(r, ast.Return) and r.value is not None and "rest" in src(r.value)]
        if sl and rets:
            off = src(sl[0].slice.lower)
            names = {n_.id for n_ in ast.walk(sl[0].slice.lower) if isinstance(n_, ast.Name)}
            rebased = any(names & {n_.id for n_ in ast.walk(r.value) if isinstance(n_, ast.Name)} for r in rets)
            ctx.check(rebased, "D12-nth-occurrence", c, f"recursive result re-based by the suffix offset `{off}`", site(rets[-1]),
                      f"nth_occ recurses on `haystack[{off}:]` but adds a constant to the sub-result instead of the offset `{off}`: the index of the second and later occurrences is too small "
                      "(`<pair>.<item>[2]` addresses the wrong child whenever the first <item> is not the first symbol of the expansion)", "offset added back")
            return
    raise Unrecognised("C08.D12", c, "nth_occ is not the recognised single scan")


def rule_d10(ctx):
    """Universal closure with push-in: a sub-formula that does not mention the new variable may be left OUTSIDE the new quantifier only if the combinator is a
    disjunction.  `forall x: (A(x) and B)` is vacuously true over a tree without any x, `(forall x: A(x)) and B` is just B."""
    f = ctx.repo.func(LANG, "univ_close_over_var_push_in", "C08.D10")
    c = f"{LANG}:univ_close_over_var_push_in"
    ip = next((n for n in ast.walk(f) if isinstance(n, ast.FunctionDef) and n.name == "independent_predicate"), None)
    if ip is None:
        raise Unrecognised("C08.D10", c, "independent_predicate not found")
    isconj = [a for a in walk_local(f) if isinstance(a, ast.Assign) and src(a.targets[0]) == "is_conj"]
    if len(isconj) != 1 or src(isconj[0].value) != "isinstance(formula, ConjunctiveFormula)":
        raise Unrecognised("C08.D10", c, "is_conj not found")
    rets = [r for r in ast.walk(ip) if isinstance(r, ast.Return)]
    t = " ".join(src(rets[0].value).split()) if len(rets) == 1 else ""
    if t == "not qfd_vars.intersection(f.free_variables())":
        # unconditional: also for conjunctions - unless the caller restricts the use to disjunctions
        uses = [x for x in ast.walk(f) if isinstance(x, ast.Call) and call_name(x) == "independent_predicate"]
        restricted = all(has_fact(facts(u), "is_conj", False) for u in uses) if uses else False
        ctx.check(restricted, "D10-push-in-only-over-disjunction", c, "independent sub-formulas leave the quantifier scope only in a disjunction", site(ip),
                  "sub-formulas without the new variable are kept outside the new universal quantifier for conjunctions as well: `(<digit> = \"1\" and <var> = \"z\")` is translated to "
                  "`(forall <var> var: var = \"z\") and (forall <digit> digit: digit = \"1\")` instead of the documented `forall <digit> digit in start: forall <var> var in start: (...)`; on 'a := b' "
                  "(no <digit>) the documented form is vacuously TRUE, the translation FALSE", "restricted to `not is_conj`")
    elif t in ("not is_conj and (not qfd_vars.intersection(f.free_variables()))", "not is_conj and not qfd_vars.intersection(f.free_variables())"):
        ctx.ok("D10-push-in-only-over-disjunction", c, "independent sub-formulas leave the quantifier scope only in a disjunction", site(ip), t)
    else:
        raise Unrecognised("C08.D10", c, f"independence test `{t}` not understood")


def run(ctx) -> str:
    ctx.guarded("D10", lambda: rule_d10(ctx))
    ctx.guarded("D11", lambda: rule_d11(ctx))
    ctx.guarded("D12", lambda: rule_d12(ctx))
    from . import c09

    ctx.guarded("D13", lambda: c09.rule_n13(ctx))
    ctx.guarded("D8", lambda: rule_d8(ctx))
    ctx.guarded("D9", lambda: rule_d9(ctx))
    ctx.guarded("D7", lambda: rule_d7(ctx))
    ctx.guarded("D6", lambda: rule_d6(ctx))
    ctx.guarded("D1", lambda: rule_d1(ctx))
    ctx.guarded("D2", lambda: rule_d2(ctx))
    ctx.guarded("D3", lambda: rule_d3(ctx))
    ctx.guarded("D4", lambda: rule_d4(ctx))
    ctx.guarded("D5", lambda: rule_d5(ctx))
    ctx.assume("Formula.__neg__/__and__/__or__ denote not/and/or (decided by C09)")
    return EXPLANATION
