"""C04 — Structural predicates have their documented meaning for every pair of nodes."""

from __future__ import annotations

import ast
import copy
import re as _re
from typing import Dict, List, Optional, Tuple

from ..core import clone, Unrecognised, call_name, calls_in, dotted, module_of, positional_arity, site, src, walk_local, attr_writes, MUTATORS, fold, NotConstant

PRED = "src/isla/isla_predicates.py"
SPEC = "sphinx/islaspec.rst"

EXPLANATION = (
    "Static necessary conditions for C04 over src/isla/isla_predicates.py and the predicate table of sphinx/islaspec.rst: decided: "
    "(G1) the registry STANDARD_STRUCTURAL_PREDICATES binds exactly the documented names with the documented arities, each to its own "
    "implementation whose positional arity is arity+1; (G2) the path predicates are recognised as their specified path relations after "
    "renaming parameters: same_position = path equality, different_position = its complement, inside = 'path_2 is a prefix of path_1', "
    "direct_child = prefix + length difference 1, before = strict lexicographic order that is false when either path is exhausted, "
    "after = before with swapped arguments (or a complement that excludes all three non-order classes); (G3) the nine implementations "
    "never write to their arguments. NOT decided: exact meaning of nth / consecutive / level for every tree (value-level)."
)


def spec_table(ctx) -> Dict[str, int]:
    path = ctx.repo.root + "/" + SPEC
    try:
        text = open(path, encoding="utf-8").read()
    except OSError:
        raise Unrecognised("C04.G1", SPEC, "specification not found")
    # the structural predicate table: rows `:code:`name(args)`   description`
    res = {}
    in_struct = False
    for line in text.splitlines():
        if "Structural Predicates" in line or "structural predicates" in line.lower() and line.strip().endswith(":"):
            in_struct = True
        m = _re.match(r"^:code:`(\w+)\(([^)]*)\)`\s{2,}", line)
        if m:
            name, args = m.group(1), [a for a in m.group(2).split(",") if a.strip()]
            res.setdefault(name, len(args))
    return res


def normalise(fn: ast.FunctionDef) -> Tuple[ast.FunctionDef, List[str]]:
    """Rename positional parameters to T, P1, P2 (last two are the paths)."""
    params = [a.arg for a in fn.args.args]
    mapping = {}
    if len(params) >= 3:
        mapping[params[0]] = "T"
        mapping[params[-2]] = "P1"
        mapping[params[-1]] = "P2"
    f2 = clone(fn)
    for n in ast.walk(f2):
        if isinstance(n, ast.Name) and n.id in mapping:
            n.id = mapping[n.id]
        elif isinstance(n, ast.arg) and n.arg in mapping:
            n.arg = mapping[n.arg]
    return f2, params


def body_wo_doc(fn) -> List[ast.stmt]:
    """body without docstring and without statements that cannot change the result (pass, assert, constants bound to names never read)"""
    from ..core import significant_body

    return significant_body(fn)


def single_return(fn) -> Optional[str]:
    b = body_wo_doc(fn)
    if len(b) == 1 and isinstance(b[0], ast.Return):
        return src(b[0].value)
    return None


def prefix_forms(a: str, b: str) -> set:
    """texts meaning 'b is a prefix of a' (a inside b)."""
    return {f"{a}[:len({b})] == {b}", f"{b} == {a}[:len({b})]"}


# ---- order-case domain -------------------------------------------------------------------------------------------------------------------------------------
# Two paths stand in exactly one of five relations; every structural predicate that only COMPARES the two paths is a subset of these cases, so a definition that
# is a boolean combination of comparisons / prefix tests / calls of sibling predicates can be decided exhaustively (the predicates touch the paths only through a
# finite set of orderings).  Witness pairs are used in messages only.
CASES = ("EQ", "A12", "A21", "LT", "GT")
CASE_WITNESS = {"EQ": "path_1 = path_2 = (1,)", "A12": "path_1 = (1,), path_2 = (1, 0)  [node 1 is an ancestor of node 2]", "A21": "path_1 = (1, 0), path_2 = (1,)  [node 1 lies below node 2]",
                "LT": "path_1 = (0,), path_2 = (1,)", "GT": "path_1 = (1,), path_2 = (0,)"}
ALL_CASES = frozenset(CASES)
_SWAP = {"EQ": "EQ", "A12": "A21", "A21": "A12", "LT": "GT", "GT": "LT"}
ORDER_SPEC = {"same_position": frozenset({"EQ"}), "different_position": ALL_CASES - {"EQ"}, "inside": frozenset({"EQ", "A21"}), "before": frozenset({"LT"}), "after": frozenset({"GT"})}


class NotOrderExpr(Exception):
    pass


def _swap_cases(cs):
    return frozenset(_SWAP[c] for c in cs)


def _path_var(e):
    while isinstance(e, ast.Call) and call_name(e) in ("tuple", "list") and len(e.args) == 1 and not e.keywords:
        e = e.args[0]
    return e.id if isinstance(e, ast.Name) and e.id in ("P1", "P2") else None


def _prefix_slice(e):
    """X[:len(Y)] -> (X, Y)"""
    if isinstance(e, ast.Subscript) and isinstance(e.slice, ast.Slice) and e.slice.lower is None and e.slice.step is None and isinstance(e.slice.upper, ast.Call) \
            and call_name(e.slice.upper) == "len" and len(e.slice.upper.args) == 1:
        x, y = _path_var(e.value), _path_var(e.slice.upper.args[0])
        if x and y:
            return x, y
    return None


def order_cases(e, module, assume, depth=0):
    """Cases (of P1 vs P2) in which the boolean expression `e` over the normalised names T, P1, P2 is true."""
    if depth > 6:
        raise NotOrderExpr("recursion")
    if isinstance(e, ast.Constant) and isinstance(e.value, bool):
        return ALL_CASES if e.value else frozenset()
    if isinstance(e, ast.UnaryOp) and isinstance(e.op, ast.Not):
        return ALL_CASES - order_cases(e.operand, module, assume, depth)
    if isinstance(e, ast.BoolOp):
        parts = [order_cases(v, module, assume, depth) for v in e.values]
        out = parts[0]
        for q in parts[1:]:
            out = (out & q) if isinstance(e.op, ast.And) else (out | q)
        return out
    if isinstance(e, ast.IfExp):
        t = order_cases(e.test, module, assume, depth)
        return (t & order_cases(e.body, module, assume, depth)) | ((ALL_CASES - t) & order_cases(e.orelse, module, assume, depth))
    if isinstance(e, ast.Compare) and len(e.ops) == 1:
        l, r, op = e.left, e.comparators[0], e.ops[0]
        for a_, b_ in ((l, r), (r, l)):
            ps = _prefix_slice(a_)
            if ps and isinstance(op, (ast.Eq, ast.NotEq)):
                x, y = ps
                if _path_var(b_) != y:
                    raise NotOrderExpr(src(e))
                base = ALL_CASES if x == y else (frozenset({"EQ", "A21"}) if (x, y) == ("P1", "P2") else frozenset({"EQ", "A12"}))  # Y prefix of X
                return base if isinstance(op, ast.Eq) else ALL_CASES - base
        x, y = _path_var(l), _path_var(r)
        if x and y:
            table = {ast.Eq: {"EQ"}, ast.NotEq: set(CASES) - {"EQ"}, ast.Lt: {"A12", "LT"}, ast.LtE: {"EQ", "A12", "LT"}, ast.Gt: {"A21", "GT"}, ast.GtE: {"EQ", "A21", "GT"}}
            if type(op) not in table:
                raise NotOrderExpr(src(e))
            base = frozenset(table[type(op)])
            if x == y:
                return ALL_CASES if "EQ" in base else frozenset()
            return base if (x, y) == ("P1", "P2") else _swap_cases(base)
        raise NotOrderExpr(src(e))
    if isinstance(e, ast.Call) and isinstance(e.func, ast.Name) and len(e.args) == 3 and not e.keywords:
        u, v = _path_var(e.args[1]), _path_var(e.args[2])
        if not (u and v):
            raise NotOrderExpr(src(e))
        if e.func.id in assume:
            inner = assume[e.func.id]
        else:
            fn = module.get(e.func.id)
            if not isinstance(fn, ast.FunctionDef):
                raise NotOrderExpr(src(e))
            inner = order_cases_of_function(fn, module, assume, depth + 1)
        if (u, v) == ("P1", "P2"):
            return inner
        if (u, v) == ("P2", "P1"):
            return _swap_cases(inner)
        return ALL_CASES if "EQ" in inner else frozenset()
    raise NotOrderExpr(src(e))


def order_cases_of_function(fn, module, assume, depth=0):
    nf, _ = normalise(fn)
    if len(nf.args.args) != 3:
        raise NotOrderExpr(f"{fn.name}: not (tree, path, path)")
    body = body_wo_doc(nf)

    def block(stmts):
        if not stmts:
            raise NotOrderExpr("falls off the end")
        st = stmts[0]
        if isinstance(st, ast.Return) and st.value is not None:
            return order_cases(st.value, module, assume, depth)
        if isinstance(st, ast.If):
            t = order_cases(st.test, module, assume, depth)
            rest = stmts[1:]
            then_exits = any(isinstance(x, ast.Return) for x in st.body[-1:])
            if not then_exits:
                raise NotOrderExpr("if without return")
            els = st.orelse + rest if st.orelse and not any(isinstance(x, ast.Return) for x in st.orelse[-1:]) else (st.orelse or rest)
            return (t & block(st.body)) | ((ALL_CASES - t) & block(els))
        if isinstance(st, (ast.Pass, ast.Assert)) or (isinstance(st, ast.Expr) and isinstance(st.value, ast.Constant)):
            return block(stmts[1:])
        raise NotOrderExpr(src(st)[:60])

    return block(body)


def judge_order(ctx, rule, name, f, c, module, assume) -> bool:
    """Decide predicate `name` over the five order cases if its definition is a boolean combination of path comparisons.  Returns False when it is not."""
    try:
        got = order_cases_of_function(f, module, assume)
    except NotOrderExpr:
        return False
    want = ORDER_SPEC[name]
    wrong = [k for k in CASES if (k in got) != (k in want)]
    if not wrong:
        ctx.ok(rule, c, f"{name} over the five path-order cases", site(f), f"true exactly for {sorted(want)}")
    else:
        k = wrong[0]
        ctx.viol(rule, c, f"{name} over the five path-order cases", site(f),
                 f"{name}(node_1, node_2) answers {k in got} for {CASE_WITNESS[k]}; the specification says {k in want} "
                 f"(definition is true for the cases {sorted(got)}, documented meaning {sorted(want)})")
    return True


def registry(ctx):
    m = ctx.repo.module(PRED, "C04.G1")
    consts = m.constants()
    reg = consts.get("STANDARD_STRUCTURAL_PREDICATES")
    if not (isinstance(reg, ast.Call) and call_name(reg) == "frozenset" and reg.args and isinstance(reg.args[0], (ast.Set, ast.List, ast.Tuple))):
        raise Unrecognised("C04.G1", f"{PRED}:STANDARD_STRUCTURAL_PREDICATES", "registry is not frozenset({...}) of names")
    entries = {}
    for e in reg.args[0].elts:
        if not isinstance(e, ast.Name) or e.id not in consts:
            raise Unrecognised("C04.G1", f"{PRED}:STANDARD_STRUCTURAL_PREDICATES", f"entry {src(e)} is not a module constant")
        v = consts[e.id]
        if not (isinstance(v, ast.Call) and call_name(v) == "StructuralPredicate" and len(v.args) == 3):
            raise Unrecognised("C04.G1", f"{PRED}:{e.id}", "not StructuralPredicate(name, arity, fn)")
        try:
            name, arity = fold(v.args[0]), fold(v.args[1])
        except NotConstant:
            raise Unrecognised("C04.G1", f"{PRED}:{e.id}", "name/arity not constant")
        fn = m.get(dotted(v.args[2]) or "")
        if not isinstance(fn, ast.FunctionDef):
            raise Unrecognised("C04.G1", f"{PRED}:{e.id}", f"implementation {src(v.args[2])} not a module function")
        entries[name] = (arity, fn, v, e.id)
    return m, entries


def rule_g1(ctx):
    m, entries = registry(ctx)
    spec = spec_table(ctx)
    structural_spec = {k: v for k, v in spec.items() if k in ("after", "before", "consecutive", "different_position", "direct_child", "inside", "level", "nth", "same_position")}
    if len(structural_spec) < 9:
        raise Unrecognised("C04.G1", SPEC, f"structural predicate table incomplete in the specification ({sorted(structural_spec)})")
    ctx.inventory["spec_table"] = structural_spec
    ctx.inventory["registry"] = {k: (a, f.name) for k, (a, f, _, _) in entries.items()}
    for name, ar in sorted(structural_spec.items()):
        if name not in entries:
            ctx.viol("G1-registry", f"{PRED}:STANDARD_STRUCTURAL_PREDICATES", f"{name}/{ar}", site(m.tree.body[-1]), f"documented predicate {name}/{ar} is not registered")
            continue
        arity, fn, call, cname = entries[name]
        ctx.check(arity == ar, "G1-registry", f"{PRED}:{cname}", f"{name}/{ar}", site(call), f"documented arity of {name} is {ar}, registered {arity}", "name and arity as documented")
        lo, hi = positional_arity(fn)
        ctx.check(lo <= arity + 1 and (hi is None or arity + 1 <= hi), "G1-impl-arity", f"{PRED}:{cname}", f"{fn.name} takes tree + {arity}", site(fn),
                  f"{name} is evaluated as fn(tree, *{arity} args) but {fn.name} accepts {(lo, hi)} positional arguments", "implementation arity = arity + 1")
    for name in entries:
        if name not in structural_spec:
            ctx.viol("G1-registry", f"{PRED}:STANDARD_STRUCTURAL_PREDICATES", f"{name}", site(entries[name][2]), f"registered predicate {name} is not in the specification's table")
    impls = {}
    for name, (_, fn, call, cname) in entries.items():
        if fn.name in impls:
            ctx.viol("G1-unique-impl", f"{PRED}:{cname}", f"{name} -> {fn.name}", site(call),
                     f"{name} and {impls[fn.name]} are bound to the same implementation {fn.name}; no two documented predicates are equivalent")
        else:
            ctx.ok("G1-unique-impl", f"{PRED}:{cname}", f"{name} -> {fn.name}", site(call), "own implementation")
            impls[fn.name] = name


def ASSUME(entries):
    """Assume-guarantee: inside the definition of one predicate, a call of a sibling predicate's implementation stands for that sibling's DOCUMENTED meaning (the sibling
    has its own obligation); this also covers `before`, whose recursive definition is not a boolean combination of comparisons."""
    return {entries[n][1].name: ORDER_SPEC[n] for n in ORDER_SPEC if n in entries}


def rule_g2(ctx):
    m, entries = registry(ctx)

    def impl(name):
        if name not in entries:
            raise Unrecognised("C04.G2", f"{PRED}:STANDARD_STRUCTURAL_PREDICATES", f"{name} not registered")
        return entries[name][1]

    # same_position
    f = impl("same_position")
    nf, _ = normalise(f)
    r = single_return(nf)
    c = f"{PRED}:{f.name}"
    if r in ("P1 == P2", "P2 == P1"):
        ctx.ok("G2-same-position", c, "P1 == P2", site(f), "path equality")
    elif r in ("P1 != P2", "P2 != P1"):
        ctx.viol("G2-same-position", c, "P1 == P2", site(f), f"same_position must be path equality, body returns {r}")
    elif not judge_order(ctx, "G2-same-position", "same_position", f, c, m, {}):
        raise Unrecognised("C04.G2", c, f"same_position body not recognised: {r}")
    same_name = f.name
    # different_position
    f = impl("different_position")
    nf, _ = normalise(f)
    r = single_return(nf)
    c = f"{PRED}:{f.name}"
    good = {f"not {same_name}(T, P1, P2)", f"not {same_name}(T, P2, P1)", "P1 != P2", "P2 != P1", "not P1 == P2"}
    bad = {f"{same_name}(T, P1, P2)", "P1 == P2"}
    if r in good:
        ctx.ok("G2-different-position", c, "complement of same_position", site(f), "complement of path equality")
    elif r in bad:
        ctx.viol("G2-different-position", c, "complement of same_position", site(f), f"different_position must be the complement of same_position, body returns {r}")
    elif not judge_order(ctx, "G2-different-position", "different_position", f, c, m, ASSUME(entries)):
        raise Unrecognised("C04.G2", c, f"different_position body not recognised: {r}")
    # inside
    f = impl("inside")
    nf, _ = normalise(f)
    r = single_return(nf)
    c = f"{PRED}:{f.name}"
    inside_name = f.name
    if r in prefix_forms("P1", "P2"):
        ctx.ok("G2-inside", c, "P2 prefix of P1", site(f), "node 1 lies in the subtree of node 2")
    elif r in prefix_forms("P2", "P1"):
        ctx.viol("G2-inside", c, "P2 prefix of P1", site(f), f"inside(node_1, node_2) means node_1 is in the subtree of node_2 (path_2 is a prefix of path_1); body tests the converse: {r}")
    elif r is not None and _re.fullmatch(r"all\(\((\w+) == (\w+) for \1, \2 in zip\((P1, P2|P2, P1)\)\)\)", r):
        ctx.viol("G2-inside", c, "P2 prefix of P1", site(f),
                 f"inside is decided by `{r}`: zip() stops at the shorter path, so the test only says that one path is a prefix of the OTHER - inside(ancestor, descendant) becomes true as well")
    elif not judge_order(ctx, "G2-inside", "inside", f, c, m, ASSUME(entries)):
        raise Unrecognised("C04.G2", c, f"inside body not recognised: {r}")
    # direct_child
    f = impl("direct_child")
    nf, _ = normalise(f)
    c = f"{PRED}:{f.name}"
    b = body_wo_doc(nf)
    txt = " ; ".join(src(s).replace("\n", " ") for s in b)
    txt = _re.sub(r"\s+", " ", txt)
    ok_len = {"if len(P1) != len(P2) + 1: return False", "if len(P1) - 1 != len(P2): return False", "if len(P2) + 1 != len(P1): return False"}
    if len(b) == 2 and _re.sub(r"\s+", " ", src(b[0]).replace("\n", " ")) in ok_len and isinstance(b[1], ast.Return) and src(b[1].value) in prefix_forms("P1", "P2"):
        ctx.ok("G2-direct-child", c, "len(P1) == len(P2)+1 and P2 prefix of P1", site(f), "direct child relation")
    elif len(b) == 1 and isinstance(b[0], ast.Return) and src(b[0].value) in {f"len(P1) == len(P2) + 1 and {p}" for p in prefix_forms("P1", "P2")}:
        ctx.ok("G2-direct-child", c, "len(P1) == len(P2)+1 and P2 prefix of P1", site(f), "direct child relation")
    elif "len(P2) != len(P1) + 1" in txt or any(p in txt for p in prefix_forms("P2", "P1")) or "len(P1) != len(P2)" in txt and "+ 1" not in txt:
        ctx.viol("G2-direct-child", c, "len(P1) == len(P2)+1 and P2 prefix of P1", site(f), f"direct_child(node_1, node_2): node_1 is a child of node_2; body is: {txt}")
    elif len(b) == 1 and isinstance(b[0], ast.Return) and src(b[0].value) in ("P1[:-1] == P2", "P2 == P1[:-1]"):
        ctx.viol("G2-direct-child", c, "len(P1) == len(P2)+1 and P2 prefix of P1", site(f),
                 f"direct_child is decided by `{src(b[0].value)}` alone: for the root path () the slice ()[:-1] is () again, so direct_child(root, root) holds - the length test len(P1) == len(P2) + 1 is missing")
    else:
        raise Unrecognised("C04.G2", c, f"direct_child body not recognised: {txt}")
    # before
    f = impl("before")
    before_name = f.name
    nf, _ = normalise(f)
    c = f"{PRED}:{f.name}"
    if not judge_order(ctx, "G2-before", "before", f, c, m, {k: v for k, v in ASSUME(entries).items() if k != f.name}):
        check_before(ctx, nf, f, c)
    # after
    f = impl("after")
    nf, _ = normalise(f)
    c = f"{PRED}:{f.name}"
    r = single_return(nf)
    if r is None:
        # mirror image of before?
        raise Unrecognised("C04.G2", c, "after is not a single return expression")
    tuple_cmp = [x for x in ast.walk(body_wo_doc(nf)[0]) if isinstance(x, ast.Compare) and len(x.ops) == 1 and isinstance(x.ops[0], (ast.Gt, ast.Lt, ast.GtE, ast.LtE)) and {src(x.left), src(x.comparators[0])} == {"P1", "P2"}] if body_wo_doc(nf) else []
    if tuple_cmp and before_name not in r:
        ctx.viol("G2-after-converse", c, "before(P2, P1)", site(f),
                 f"after is decided by Python's tuple comparison (`{src(tuple_cmp[0])}`): lexicographic order ranks a proper extension above its prefix, so a node that lies BELOW node 2 "
                 "(path_1 = (1, 0), path_2 = (1,)) counts as 'after' although the specification excludes ancestor/descendant pairs")
    elif r == f"{before_name}(T, P2, P1)":
        ctx.ok("G2-after-converse", c, "before(P2, P1)", site(f), "after is before with swapped arguments")
    elif r == f"{before_name}(T, P1, P2)":
        ctx.viol("G2-after-converse", c, "before(P2, P1)", site(f), "after delegates to before without swapping the arguments")
    else:
        ret = body_wo_doc(nf)[0].value
        conj = ret.values if isinstance(ret, ast.BoolOp) and isinstance(ret.op, ast.And) else [ret]
        texts = [src(x) for x in conj]
        if f"not {before_name}(T, P1, P2)" in texts:
            excl = {
                "equal": any(t in ("P1 != P2", "P2 != P1") for t in texts),
                "p1-prefix-of-p2": any(t in ("P1 != P2[:len(P1)]", "P2[:len(P1)] != P1", f"not {inside_name}(T, P2, P1)") for t in texts),
                "p2-prefix-of-p1": any(t in ("P2 != P1[:len(P2)]", "P1[:len(P2)] != P2", f"not {inside_name}(T, P1, P2)") for t in texts),
            }
            # a prefix exclusion covers equality as well
            if excl["p1-prefix-of-p2"] or excl["p2-prefix-of-p1"]:
                excl["equal"] = True
            missing = [k for k, v in excl.items() if not v]
            ctx.check(not missing, "G2-after-converse", c, "before(P2, P1)", site(f),
                      f"after is written as 'not before and <exclusions>' but does not exclude the class(es) {missing}: for such pairs neither node is "
                      "strictly later in document order, yet after answers True (e.g. path_1=(1,0), path_2=(1,))",
                      "complement of before with all three non-order classes excluded")
        elif not judge_order(ctx, "G2-after-converse", "after", f, c, m, ASSUME(entries)):
            raise Unrecognised("C04.G2", c, f"after body not recognised: {r}")


def check_before(ctx, nf, f, c):
    """before = strict lexicographic order; False as soon as one path is exhausted."""
    b = body_wo_doc(nf)
    rule = "G2-before"
    if len(b) < 3 or not isinstance(b[0], ast.If):
        raise Unrecognised("C04.G2", c, "before: leading exhaustion guard not found")
    g = b[0]
    gtxt = src(g.test)
    rets = [s for s in g.body if isinstance(s, ast.Return)]
    if gtxt not in ("not P1 or not P2", "not P2 or not P1") or not rets:
        raise Unrecognised("C04.G2", c, f"before: guard `{gtxt}` not recognised")
    ctx.check(src(rets[0].value) == "False", rule, c, "exhausted path -> False", site(f),
              "before must be False when either path is exhausted (one node is an ancestor of the other or they are equal)", "prefix pairs are not ordered")
    # car/cdr split
    heads = {}
    for s in b[1:]:
        if isinstance(s, ast.Assign) and isinstance(s.targets[0], ast.Tuple) and len(s.targets[0].elts) == 2 and isinstance(s.targets[0].elts[1], ast.Starred):
            heads[src(s.value)] = (s.targets[0].elts[0].id, s.targets[0].elts[1].value.id)
    if set(heads) != {"P1", "P2"}:
        raise Unrecognised("C04.G2", c, "before: car/cdr destructuring of both paths not found")
    h1, t1 = heads["P1"]
    h2, t2 = heads["P2"]
    chain = [s for s in b if isinstance(s, ast.If) and s is not g]
    if len(chain) != 1:
        raise Unrecognised("C04.G2", c, "before: comparison chain not found")
    n = chain[0]
    cases = []
    while True:
        r = [s for s in n.body if isinstance(s, ast.Return)]
        cases.append((src(n.test), src(r[0].value) if r else None))
        if len(n.orelse) == 1 and isinstance(n.orelse[0], ast.If):
            n = n.orelse[0]
            continue
        r = [s for s in n.orelse if isinstance(s, ast.Return)]
        cases.append(("else", src(r[0].value) if r else None))
        break
    d = dict(cases)
    lt = d.get(f"{h1} < {h2}", d.get(f"{h2} > {h1}"))
    gt = d.get(f"{h2} < {h1}", d.get(f"{h1} > {h2}"))
    ctx.check(lt == "True", rule, c, "head_1 < head_2 -> True", site(f), f"smaller first index means earlier in document order; found {lt}", "earlier sibling branch -> True")
    ctx.check(gt == "False", rule, c, "head_2 < head_1 -> False", site(f), f"larger first index means later in document order; found {gt}", "later sibling branch -> False")
    rec = d.get("else")
    ok = rec in (f"{f.name}(T, tuple({t1}), tuple({t2}))", f"{f.name}(T, {t1}, {t2})")
    ctx.check(ok, rule, c, "equal heads -> recurse on tails in order", site(f),
              f"equal first indices must recurse on (tail_1, tail_2) in this order; found {rec}", "recursion keeps argument order")


def rule_g4(ctx):
    """nth: the occurrence index ranges over ALL nodes of the container in document order (paths()), not only its direct children."""
    m, entries = registry(ctx)
    if "nth" not in entries:
        raise Unrecognised("C04.G4", f"{PRED}:STANDARD_STRUCTURAL_PREDICATES", "nth not registered")
    f = entries["nth"][1]
    c = f"{PRED}:{f.name}"
    params = [a.arg for a in f.args.args]
    rets = [r for r in walk_local(f) if isinstance(r, ast.Return)]
    loops = [n for n in walk_local(f) if isinstance(n, ast.For)]
    main = [l for l in loops if src(l.iter).endswith(".paths()") and "get_subtree" in src(l.iter)]
    ctx.check(len(main) == 1, "G4-nth-domain", c, "counting loop over <container>.paths()", site(f), f"loops iterate {[src(l.iter) for l in loops]}", "all nodes of the container in pre-order")
    for r in rets:
        v = src(r.value)
        if v == "False":
            continue
        inside_main = any(r in list(ast.walk(l)) for l in main)
        if inside_main and v.replace(" ", "") in ("match_idx==int(n)",):
            ctx.ok("G4-nth-domain", c, f"return {v}", site(r), "index compared inside the document-order loop")
            continue
        reads_children = any(isinstance(x, ast.Attribute) and x.attr == "children" for x in ast.walk(r.value)) or any(
            isinstance(x, ast.Attribute) and x.attr == "children" for n in walk_local(f) if isinstance(n, ast.Assign) and any(isinstance(t, ast.Name) and t.id in {y.id for y in ast.walk(r.value) if isinstance(y, ast.Name)} for t in n.targets) for x in ast.walk(n.value))
        if reads_children:
            ctx.viol("G4-nth-domain", c, f"return {v[:60]}", site(r),
                     "an occurrence count is taken over the container's direct children only; `nth` counts occurrences of the nonterminal anywhere within the container in document order, "
                     "so occurrences nested inside earlier siblings (recursive grammars) are missed")
        else:
            raise Unrecognised("C04.G4", c, f"return {v[:60]} is not a recognised way of computing the occurrence index")
    guard = any(isinstance(n, ast.If) and src(n.test) == f"not in_tree(None, {params[-2]}, {params[-1]})" for n in f.body) or any(isinstance(n, ast.If) and "in_tree(" in src(n.test) for n in f.body)
    ctx.check(guard, "G4-nth-domain", c, "node_1 must lie within node_2", site(f), "containment guard missing", "guarded by inside")


def rule_g5(ctx):
    """Path frames: paths enumerated from `X.get_subtree(P).paths()/leaves()/open_leaves()` are RELATIVE to P;
    relating them to the (absolute) path arguments requires prefixing P."""
    m, entries = registry(ctx)
    n_iters = 0
    for name, (_, f, _, _) in sorted(entries.items()):
        params = [a.arg for a in f.args.args]
        path_params = set(params[-2:])
        for node in ast.walk(f):
            gens = []
            if isinstance(node, ast.For):
                gens = [(node.target, node.iter, node)]
            elif isinstance(node, (ast.GeneratorExp, ast.ListComp, ast.SetComp)):
                gens = [(g.target, g.iter, node) for g in node.generators]
            for target, it, scope in gens:
                t = src(it)
                mt = _re.fullmatch(r"(.+)\.get_subtree\((.+)\)\.(paths|leaves|open_leaves)\(\)", t)
                if not mt:
                    continue
                frame = mt.group(2)
                if frame in ("()", "tuple()"):
                    continue
                var = target.elts[0].id if isinstance(target, ast.Tuple) and isinstance(target.elts[0], ast.Name) else (target.id if isinstance(target, ast.Name) else None)
                if var is None or var == "_":
                    continue
                n_iters += 1
                # every use of `var` in the scope must be rebased: `frame + var`
                bad = []
                for u in ast.walk(scope):
                    if isinstance(u, ast.Name) and u.id == var and isinstance(u.ctx, ast.Load):
                        p = getattr(u, "_parent", None)
                        rebased = isinstance(p, ast.BinOp) and isinstance(p.op, ast.Add) and src(p.left) == frame and p.right is u
                        if rebased:
                            continue
                        # is it related to an absolute path argument (comparison or predicate call)?
                        q = p
                        while q is not None and not isinstance(q, (ast.Compare, ast.Call, ast.stmt)):
                            q = getattr(q, "_parent", None)
                        if isinstance(q, (ast.Compare, ast.Call)) and any(isinstance(x, ast.Name) and x.id in path_params for x in ast.walk(q)):
                            bad.append(src(q)[:50])
                ctx.check(not bad, "G5-path-frames", f"{PRED}:{f.name}", f"paths of get_subtree({frame}) rebased before use", site(it),
                          f"paths enumerated below `{frame}` are relative to that subtree but are related to the absolute path arguments without prefixing `{frame}` ({bad[:3]}): "
                          "for a non-empty frame the comparison is between different coordinate systems (e.g. consecutive(x, z) is True for <r>(<a>(x y z)))",
                          "relative paths rebased with the frame")
    ctx.inventory["subtree_path_iterations"] = n_iters
    if n_iters < 2:
        raise Unrecognised("C04.G5", PRED, f"only {n_iters} subtree path iterations found (expected nth and consecutive)")


def rule_g6(ctx):
    """level: the candidate anchors are ALL common prefixes of the two paths up to and including the divergence point (plus the empty prefix)."""
    m, entries = registry(ctx)
    if "level" not in entries:
        raise Unrecognised("C04.G6", f"{PRED}:STANDARD_STRUCTURAL_PREDICATES", "level not registered")
    f = entries["level"][1]
    c = f"{PRED}:{f.name}"
    t = " ".join(src(f).split())
    params = [a.arg for a in f.args.args]
    p1, p2 = params[-2], params[-1]
    loop = f"for idx in range(min(len({p1}), len({p2}))): if {p1}[idx] != {p2}[idx]: break prefix = {p1}[:idx + 1] if context_tree.get_subtree(prefix).value == nonterminal: common_nonterminal_prefixes.append(prefix)"
    init = "common_nonterminal_prefixes: List[Path] = [tuple()]"
    if loop in t and init in t:
        ctx.ok("G6-level-anchors", c, "anchors = () and every common prefix path[:idx+1] labelled with the nonterminal", site(f), "all common prefixes incl. the deepest one")
    else:
        # recognised-bad: a range over prefix lengths that stops before the full common prefix
        import re as _re2

        mm = _re2.search(r"for idx in range\(1, (\w+)\)", t)
        if mm and f"{p1}[:idx]" in t and "+ 1" not in t[mm.start(): mm.start() + 200]:
            ctx.viol("G6-level-anchors", c, "anchors include the deepest common prefix", site(f),
                     f"prefix lengths range over range(1, {mm.group(1)}), which stops one short of the full common prefix: the deepest common ancestor-or-self is never used as an anchor "
                     "(wrong verdicts when the two nodes diverge exactly at a node labelled with the nonterminal)")
        else:
            # comprehension form: N = number of leading indices the two paths share; anchors = [()] + [p1[:L] for L in range(1, N + 1) if label(p1[:L]) == nonterminal]
            ncommon = None
            for a_ in [x for x in walk_local(f) if isinstance(x, ast.Assign) and len(x.targets) == 1 and isinstance(x.targets[0], ast.Name)]:
                ta = " ".join(src(a_.value).split())
                if _re2.fullmatch(rf"next\(\((\w+) for \1, \((\w+), (\w+)\) in enumerate\(zip\({p1}, {p2}\)\) if \2 != \3\), min\(len\({p1}\), len\({p2}\)\)\)", ta):
                    ncommon = a_.targets[0].id
            comp = None
            for x in walk_local(f):
                if isinstance(x, (ast.Assign, ast.AnnAssign)) and "common_nonterminal_prefixes" in src(x.targets[0] if isinstance(x, ast.Assign) else x.target):
                    for y in ast.walk(x.value):
                        if isinstance(y, ast.ListComp) and len(y.generators) == 1 and isinstance(y.generators[0].iter, ast.Call) and call_name(y.generators[0].iter) == "range":
                            comp = y
            if ncommon and comp is not None and isinstance(comp.generators[0].target, ast.Name):
                L = comp.generators[0].target.id
                rng = [" ".join(src(a_).split()) for a_ in comp.generators[0].iter.args]
                elt_ok = " ".join(src(comp.elt).split()) == f"{p1}[:{L}]" and any(f"get_subtree({p1}[:{L}]).value == nonterminal" in " ".join(src(i_).split()) for i_ in comp.generators[0].ifs)
                if elt_ok and rng == ["1", f"{ncommon} + 1"]:
                    ctx.ok("G6-level-anchors", c, "anchors = () and every common prefix labelled with the nonterminal", site(comp), f"prefix lengths 1..{ncommon}")
                elif elt_ok and rng == ["1", ncommon]:
                    ctx.viol("G6-level-anchors", c, "anchors include the deepest common prefix", site(comp),
                             f"prefix lengths range over range(1, {ncommon}) where {ncommon} is the number of leading indices the two paths share: the common prefix of length {ncommon} - the deepest "
                             "common ancestor - is never an anchor, so level(...) is false for two nodes that sit in different children of the scoping nonterminal")
                else:
                    raise Unrecognised("C04.G6", c, f"anchor comprehension over range({', '.join(rng)}) not understood")
            else:
                raise Unrecognised("C04.G6", c, "computation of the common nonterminal prefixes is not in the recognised shape")
    occ = f"[path[:idx] for idx in range(len(prefix) + 1, len(path)) if context_tree.get_subtree(path[:idx]).value == nonterminal]"
    if occ not in t:
        # recognised-bad variants of the range: it must enumerate the proper prefixes of the node's path that are strictly longer than the anchor
        comp = next((x for x in ast.walk(f) if isinstance(x, ast.ListComp) and src(x.elt) == "path[:idx]" and len(x.generators) == 1 and isinstance(x.generators[0].iter, ast.Call)
                     and call_name(x.generators[0].iter) == "range" and len(x.generators[0].iter.args) == 2), None)
        if comp is None:
            raise Unrecognised("C04.G6", c, "computation of the nonterminal occurrences between anchor and node is not in the recognised shape")
        lo, hi = (" ".join(src(a).split()) for a in comp.generators[0].iter.args)
        filt = [" ".join(src(i).split()) for i in comp.generators[0].ifs]
        if filt != ["context_tree.get_subtree(path[:idx]).value == nonterminal"]:
            raise Unrecognised("C04.G6", c, f"occurrence filter {filt} not understood")
        if hi in ("len(path) + 1", "1 + len(path)") and lo == "len(prefix) + 1":
            ctx.viol("G6-level-anchors", c, "occurrences strictly between anchor and node", site(comp),
                     f"the range ends at {hi}: `path[:len(path)]` is the argument node itself, so an argument that is itself labelled with the nonterminal counts as one nesting level below itself "
                     "(level(\"EQ\", \"<block>\", b1, b2) on two <block> arguments changes its verdict)")
        elif lo in ("len(prefix)",) and hi == "len(path)":
            ctx.viol("G6-level-anchors", c, "occurrences strictly between anchor and node", site(comp),
                     f"the range starts at {lo}: the anchor itself is counted as an occurrence below the anchor")
        else:
            raise Unrecognised("C04.G6", c, f"occurrence range range({lo}, {hi}) not understood")
    else:
        ctx.ok("G6-level-anchors", c, "occurrences strictly between anchor and node", site(f), "range(len(prefix) + 1, len(path))")
    # operator table, compared semantically: A = 'occurrences below the anchor on path 1', B = same for path 2
    from ..formulas import PropError, if_chain, truth_table

    spec = {"EQ": (True, False, False, False), "GE": (True, True, False, False), "LE": (True, False, True, False), "GT": (False, True, False, False), "LT": (False, False, True, False)}
    loop2 = next((n for n in walk_local(f) if isinstance(n, ast.For) and src(n.iter) == "common_nonterminal_prefixes"), None)
    if loop2 is None:
        raise Unrecognised("C04.G6", c, "loop over the common prefixes not found")
    chain_head = next((st for st in loop2.body if isinstance(st, ast.If)), None)
    if chain_head is None:
        raise Unrecognised("C04.G6", c, "operator dispatch not found")
    found = {}
    for test, body, _node in if_chain([chain_head]):
        if test is None:
            continue
        if not (isinstance(test, ast.Compare) and src(test.left) == "pred" and isinstance(test.ops[0], ast.Eq) and isinstance(test.comparators[0], ast.Constant)):
            raise Unrecognised("C04.G6", c, f"dispatch test {src(test)} not understood")
        op = test.comparators[0].value
        if not (len(body) == 1 and isinstance(body[0], ast.If) and not body[0].orelse and len(body[0].body) == 1 and isinstance(body[0].body[0], ast.Return) and src(body[0].body[0].value) == "True"):
            raise Unrecognised("C04.G6", c, f"branch for {op} is not `if <condition>: return True`")
        try:
            found[op] = (truth_table(body[0].test, {"nonterminal_occs_1": "A", "nonterminal_occs_2": "B"}), body[0])
        except PropError as e:
            raise Unrecognised("C04.G6", c, f"condition for {op} not propositional over the two occurrence lists: {e}")
    for op, want in spec.items():
        if op not in found:
            ctx.viol("G6-level-table", c, f"operator {op}", site(f), f"level operator {op} has no branch: level(\"{op}\", ...) is always false")
            continue
        got, node = found[op]
        ctx.check(got == want, "G6-level-table", c, f"{op}: truth table over (occs_1 non-empty, occs_2 non-empty)", site(node),
                  f"the condition `{src(node.test)}` for level operator {op} has truth table {got} over (occs_1, occs_2) in (FF, FT, TF, TT); the documented meaning is {want}", "documented condition")
    last = f.body[-1]
    ctx.check(isinstance(last, ast.Return) and src(last.value) == "False", "G6-level-table", c, "False when no anchor works", site(last), "level_check must return False when no common prefix satisfies the operator", "returns False")


def rule_g3(ctx):
    m, entries = registry(ctx)
    for name, (_, fn, _, cname) in sorted(entries.items()):
        params = [a.arg for a in fn.args.args]
        writes = []
        for p in params:
            writes += [(n, k) for n, k in attr_writes(fn, p) if k != "assign"]
            for n in ast.walk(fn):
                if isinstance(n, (ast.Attribute, ast.Subscript)) and isinstance(n.ctx, (ast.Store, ast.Del)) and dotted(n.value) == p:
                    writes.append((n, "store"))
        ctx.check(not writes, "G3-pure", f"{PRED}:{fn.name}", f"{name} does not write its arguments", site(fn),
                  f"structural predicate {name} mutates an argument ({[(src(n)[:40], k) for n, k in writes]}): results would depend on evaluation order",
                  "no store / mutating call on any parameter")


def run(ctx) -> str:
    ctx.guarded("G1", lambda: rule_g1(ctx))
    ctx.guarded("G2", lambda: rule_g2(ctx))
    ctx.guarded("G3", lambda: rule_g3(ctx))
    ctx.guarded("G4", lambda: rule_g4(ctx))
    ctx.guarded("G5", lambda: rule_g5(ctx))
    ctx.guarded("G6", lambda: rule_g6(ctx))
    from ..generic import check_optional_path_truthiness

    # the paths handed to the structural predicates come from find_node in StructuralPredicateFormula.evaluate: the root `()` is a legal argument (inside(x, start))
    ctx.guarded("G7", lambda: ctx.inventory.__setitem__("find_node_calls", check_optional_path_truthiness(ctx, "G7-root-path-falsy", ["src/isla/language.py"], min_sources=3)))
    ctx.assume("the predicate table of sphinx/islaspec.rst is the documented meaning")
    return EXPLANATION
