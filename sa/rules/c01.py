"""C01 — Every solver solution is grammar-valid and satisfies the constraint (gate-only level)."""

from __future__ import annotations

import ast
from typing import Dict, List, Optional, Set

from ..core import Unrecognised, whole_origins, attr_writes, call_name, calls_in, dotted, enclosing_def, facts, has_fact, module_of, origins, parent, qual, site, src, walk_local
from ..memo import check_memo_keys
from ..dispatch import check_flow_arity, find_flow_tables, resolve_handler, is_bound

SOLVER = "src/isla/solver.py"

EXPLANATION = (
    "Gate-only necessary conditions for C01 over src/isla/solver.py: decided: (P1) self.solutions is written only by __init__, solve (guarded pop / extend "
    "with process_new_states) and the save-restore pair of the unsat probe; solve returns only what it pops from self.solutions; (P2) a tree reaches "
    "self.solutions only through process_new_state's filter state_is_valid_or_enqueue, which answers True only under state.complete(), and complete() is "
    "'tree closed and remaining constraint == true'; (P3) the DNF invariant: every state pushed on the queue comes out of establish_invariant "
    "(split_disjunction(convert_to_dnf(convert_to_nnf(c)))), a re-push of queued states, or the listed probe state; (P4) the elimination chain's handlers "
    "are callable with one state and return Maybe[List[SolutionState]]; (P5) finish_unconstrained_trees fills open leaves only when the remaining "
    "constraint is true, with trees of the leaf's own nonterminal; (P6) constraint conservation: in every elimination method each constructed "
    "SolutionState(C, T) derives C from the incoming state's constraint (pending conjuncts are not forgotten) and T from its tree; (P7) coherent "
    "substitution: whenever the new tree is `<state>.tree.substitute(M)` the new constraint applies substitute_expressions with the same map. "
    "NOT decided: that each elimination step preserves meaning, that closed trees are grammar-valid derivations (asserted at run time only)."
)

ELIM_MIN = 10


def solver_methods(ctx):
    m = ctx.repo.module(SOLVER, "C01")
    meths = {q[len("ISLaSolver.") :]: f for q, f in m.functions() if q.startswith("ISLaSolver.") and "." not in q[len("ISLaSolver.") :]}
    if len(meths) < 50:
        raise Unrecognised("C01", f"{SOLVER}:ISLaSolver", f"only {len(meths)} methods found")
    return m, meths


def rule_p1(ctx):
    m, meths = solver_methods(ctx)
    allowed = {"__init__", "solve", "process_new_state"}
    n = 0
    for name, f in meths.items():
        for node, kind in attr_writes(f, "self.solutions"):
            n += 1
            construct = f"{SOLVER}:ISLaSolver.{name}"
            if name not in allowed:
                ctx.viol("P1-solutions-writers", construct, f"self.solutions {kind}", site(node), "self.solutions is written outside __init__/solve/process_new_state: trees can reach the caller without the completeness filter")
                continue
            if name == "solve":
                if kind == "call .pop":
                    ctx.check(has_fact(facts(node), "self.solutions"), "P1-solutions-writers", construct, "guarded pop", site(node), "pop without non-emptiness test", "guarded")
                elif kind == "call .extend":
                    ok = src(node.args[0]) == "self.process_new_states(result_states)"
                    ctx.check(ok, "P1-solutions-writers", construct, "extend(process_new_states(...))", site(node),
                              f"solutions are extended with {src(node.args[0])} instead of the filtered output of process_new_states", "only filtered trees are added")
                else:
                    ctx.viol("P1-solutions-writers", construct, f"self.solutions {kind}", site(node), "unexpected write to self.solutions in solve()")
            elif name == "process_new_state":
                ok = kind == "assign" and (src(node.value) in ("[]", "old_solutions"))
                ctx.check(ok, "P1-solutions-writers", construct, f"save/restore ({src(getattr(node, 'value', node))[:30]})", site(node), "only the probe's save/clear/restore may write self.solutions here", "probe save/restore")
            else:
                ok = isinstance(node, ast.AnnAssign) and src(node.value) == "[]" or (isinstance(node, ast.Assign) and src(node.value) == "[]")
                ctx.check(ok, "P1-solutions-writers", construct, "initialised empty", site(node), "self.solutions must start empty", "empty")
    if n < 6:
        raise Unrecognised("C01.P1", f"{SOLVER}:ISLaSolver", f"only {n} writes to self.solutions found")
    # process_new_states = flatten(process_new_state)
    f = meths["process_new_states"]
    r = [x for x in walk_local(f) if isinstance(x, ast.Return)]
    ok = len(r) == 1 and src(r[0].value).replace("\n", " ") == "[tree for new_state in new_states for tree in self.process_new_state(new_state)]"
    ctx.check(ok, "P1-solutions-writers", f"{SOLVER}:ISLaSolver.process_new_states", "concatenation of process_new_state", site(f), f"found {src(r[0].value)[:80] if r else None}", "each state filtered individually")


def rule_p2(ctx):
    m, meths = solver_methods(ctx)
    f = meths["process_new_state"]
    construct = f"{SOLVER}:ISLaSolver.process_new_state"
    st = [n for n in walk_local(f) if isinstance(n, ast.Assign) and src(n.targets[0]) == "solution_trees"]
    ok = len(st) == 1 and src(st[0].value).replace("\n", " ") == "[new_state.tree for new_state in new_states if self.state_is_valid_or_enqueue(new_state)]"
    ctx.check(ok, "P2-completeness-gate", construct, "solution trees = trees of states passing state_is_valid_or_enqueue", site(st[0]) if st else site(f),
              f"found {src(st[0].value)[:100] if st else None}", "filtered by state_is_valid_or_enqueue")
    r = [x for x in walk_local(f) if isinstance(x, ast.Return)]
    ctx.check(len(r) == 1 and src(r[0].value) == "solution_trees", "P2-completeness-gate", construct, "returns the filtered trees", site(f), f"returns {[src(x.value) for x in r]}", "returns solution_trees")
    # establish_invariant applied before the filter
    order = []
    for n in walk_local(f):
        if isinstance(n, ast.Call) and call_name(n) in ("self.establish_invariant", "self.state_is_valid_or_enqueue", "self.instantiate_structural_predicates"):
            order.append((n.lineno, call_name(n)))
    names = [x for _, x in sorted(order)]
    ctx.check(names[:2] == ["self.instantiate_structural_predicates", "self.establish_invariant"] and names[-1] == "self.state_is_valid_or_enqueue", "P3-dnf-invariant", construct,
              "predicates instantiated, invariant established, then filtered", site(f), f"order {names}", "invariant before enqueue")
    g = meths["state_is_valid_or_enqueue"]
    c2 = f"{SOLVER}:ISLaSolver.state_is_valid_or_enqueue"
    for ret in [x for x in walk_local(g) if isinstance(x, ast.Return)]:
        v = src(ret.value)
        if v == "True":
            ctx.check(has_fact(facts(ret), "state.complete()"), "P2-completeness-gate", c2, "True only under state.complete()", site(ret),
                      "a state is reported as a solution without state.complete() (closed tree and constraint eliminated)", "dominated by state.complete()")
        elif v != "False":
            ctx.viol("P2-completeness-gate", c2, f"return {v}", site(ret), "state_is_valid_or_enqueue must return the constants True/False")
    # complete()
    cm = ctx.repo.func(SOLVER, "SolutionState.complete", "C01.P2")
    c3 = f"{SOLVER}:SolutionState.complete"
    rets = [x for x in walk_local(cm) if isinstance(x, ast.Return)]
    for ret in rets:
        v = src(ret.value)
        if v == "False":
            continue
        ok = v == "self.constraint == sc.true()" and has_fact(facts(ret), "self.tree.is_complete()")
        ctx.check(ok, "P2-completeness-gate", c3, "complete = closed tree and constraint == true", site(ret),
                  f"complete() returns `{v}` under {[str(x) for x in facts(ret)]}; it must be `self.constraint == sc.true()` under `self.tree.is_complete()`", "closed and fully eliminated")
    ctx.check(any(src(r.value) == "self.constraint == sc.true()" for r in rets), "P2-completeness-gate", c3, "constraint test present", site(cm), "complete() never tests the remaining constraint", "present")
    # is_complete = not is_open
    ic = ctx.repo.func("src/isla/derivation_tree.py", "DerivationTree.is_complete", "C01.P2")
    ctx.check(src(ic.body[-1]) == "return not self.is_open()", "P2-completeness-gate", "src/isla/derivation_tree.py:DerivationTree.is_complete", "is_complete = not is_open", site(ic), f"found {src(ic.body[-1])}", "negation of is_open")


def rule_p3(ctx):
    m, meths = solver_methods(ctx)
    ei = meths["establish_invariant"]
    construct = f"{SOLVER}:ISLaSolver.establish_invariant"
    t = src(ei).replace("\n", " ")
    a = [n for n in walk_local(ei) if isinstance(n, ast.Assign) and src(n.targets[0]) == "formula"]
    ok = len(a) == 1 and src(a[0].value).replace(" ", "") in ("convert_to_dnf(convert_to_nnf(state.constraint),deep=False)", "convert_to_dnf(convert_to_nnf(state.constraint))")
    ctx.check(ok, "P3-dnf-invariant", construct, "DNF(NNF(constraint))", site(ei), f"found {src(a[0].value) if a else None}", "NNF then DNF")
    r = [x for x in walk_local(ei) if isinstance(x, ast.Return)]
    ok = len(r) == 1 and src(r[0].value).replace("\n", " ") == "[SolutionState(disjunct, state.tree) for disjunct in split_disjunction(formula)]"
    ctx.check(ok, "P3-dnf-invariant", construct, "one state per disjunct, same tree", site(ei), f"found {src(r[0].value)[:90] if r else None}", "split at disjunctions")
    # heappush sites
    n = 0
    for name, f in meths.items():
        for c in calls_in(f, include_nested=True):
            if call_name(c) == "heapq.heappush" and len(c.args) == 2 and src(c.args[0]) == "self.queue":
                n += 1
                item = c.args[1]
                state_expr = item.elts[1] if isinstance(item, ast.Tuple) and len(item.elts) == 2 else None
                cst = f"{SOLVER}:ISLaSolver.{name}"
                if state_expr is None:
                    raise Unrecognised("C01.P3", cst, f"pushed item {src(item)} not (cost, state)")
                o = origins(f, state_expr)
                if name == "__init__":
                    ok = "initial_states" in o and any(call_name(x) == "self.establish_invariant" for x in calls_in(f))
                    ctx.check(ok, "P3-dnf-invariant", cst, "initial states from establish_invariant", site(c), f"initial queue item originates from {sorted(o)[:6]}", "from establish_invariant")
                elif name == "state_is_valid_or_enqueue":
                    ok = "state.constraint" in o and "state.tree" in o
                    ctx.check(ok, "P3-dnf-invariant", cst, "enqueues the filtered state", site(c), f"pushed state originates from {sorted(o)[:6]}", "the state that went through establish_invariant in process_new_state")
                elif name == "recompute_costs":
                    ctx.check("old_queue" in o, "P3-dnf-invariant", cst, "re-push of queued states", site(c), f"originates from {sorted(o)[:6]}", "re-push")
                elif name == "process_new_state":
                    ok = src(state_expr) == "check_state" and any(isinstance(x, ast.Assign) and src(x.targets[0]) == "check_state" and src(x.value) == "SolutionState(existential_formula, new_state.tree)" for x in ast.walk(f))
                    ctx.check(ok, "P3-dnf-invariant", cst, "probe state (single existential conjunct)", site(c), "unexpected push in process_new_state", "listed exception: unsat probe")
                else:
                    ctx.viol("P3-dnf-invariant", cst, src(c)[:60], site(c), "a state is pushed on the queue outside the four recognised sites: nothing establishes the DNF invariant for it")
    if n < 4:
        raise Unrecognised("C01.P3", f"{SOLVER}:ISLaSolver", f"only {n} heappush sites found")
    # solve asserts the invariant
    s = meths["solve"]
    ok = any(isinstance(x, ast.Assert) and src(x.test) == "not isinstance(state.constraint, language.DisjunctiveFormula)" for x in walk_local(s))
    ctx.check(ok, "P3-dnf-invariant", f"{SOLVER}:ISLaSolver.solve", "invariant asserted on every polled state", site(s), "assertion on polled state missing", "asserted")


def rule_p4(ctx):
    m, meths = solver_methods(ctx)
    s = meths["solve"]
    tables = check_flow_arity(ctx, "P4-chain", s, min_handlers=ELIM_MIN, raising_is_note=False)
    t = tables[0]
    handlers = []
    for h in t.handlers:
        target = resolve_handler(h, t.call, m)
        handlers.append((src(h), target))
        # returns are Maybe-typed
        for r in [x for x in walk_local(target) if isinstance(x, ast.Return)]:
            v = r.value
            head = v
            nm = call_name(head) if isinstance(head, ast.Call) else dotted(head) if head is not None else None
            ok = nm in ("Some", "Nothing", "Maybe.from_optional")
            ctx.check(ok, "P4-chain", f"{SOLVER}:ISLaSolver.{target.name}", f"return {src(v)[:50]}", site(r),
                      "elimination handlers must return Nothing / Some(list of states) / Maybe.from_optional(...): anything else breaks the first-applicable-handler protocol", "Maybe-typed")
    ctx.inventory["elimination_chain"] = [h for h, _ in handlers]
    # bind target: extend solutions and return Nothing
    binds = []
    cur = t.call
    p = parent(cur)
    while isinstance(p, ast.Attribute) and isinstance(parent(p), ast.Call):
        if p.attr == "bind":
            binds.append(parent(p).args[0])
        cur = parent(p)
        p = parent(cur)
    ctx.check(len(binds) == 1 and src(binds[0]) == "process_and_extend_solutions", "P4-chain", f"{SOLVER}:ISLaSolver.solve", "result states go to process_and_extend_solutions", site(t.call), f"bind targets {[src(b) for b in binds]}", "bound to the filter")
    # order constraints that matter for soundness: noop_on_false first; finish_unconstrained_trees and expand last
    names = [h.split(".")[-1] for h, _ in handlers]
    ctx.check(names[0] == "noop_on_false_constraint", "P4-chain-order", f"{SOLVER}:ISLaSolver.solve", "false constraint discarded first", site(t.call), f"first handler is {names[0]}", "first")
    ok = names.index("finish_unconstrained_trees") > names.index("assert_remaining_formulas_are_lazy_binding_semantic") and names[-1] == "expand"
    ctx.check(ok, "P4-chain-order", f"{SOLVER}:ISLaSolver.solve", "free instantiation only after all eliminations", site(t.call), f"order {names}", "fuzzing of open leaves comes last")
    must_precede = ["eliminate_existential_integer_quantifiers", "instantiate_universal_integer_quantifiers", "match_all_universal_formulas", "expand_to_match_quantifiers", "eliminate_all_semantic_formulas", "eliminate_all_ready_semantic_predicate_formulas", "eliminate_and_match_first_existential_formula_and_expand"]
    fi = names.index("finish_unconstrained_trees")
    missing = [x for x in must_precede if x not in names or names.index(x) > fi]
    ctx.check(not missing, "P4-chain-order", f"{SOLVER}:ISLaSolver.solve", "all eliminators precede finish_unconstrained_trees", site(t.call), f"eliminators missing or after the free instantiation: {missing}", "present and earlier")
    f = meths["noop_on_false_constraint"]
    ok = any(isinstance(x, ast.If) and src(x.test) == "state.constraint == sc.false()" for x in f.body)
    ctx.check(ok, "P4-chain", f"{SOLVER}:ISLaSolver.noop_on_false_constraint", "discards exactly false states", site(f), "guard `state.constraint == sc.false()` not found", "guarded")


def rule_p5(ctx):
    m, meths = solver_methods(ctx)
    f = meths["finish_unconstrained_trees"]
    construct = f"{SOLVER}:ISLaSolver.finish_unconstrained_trees"
    for r in [x for x in walk_local(f) if isinstance(x, ast.Return)]:
        if src(r.value) == "Nothing":
            continue
        ok = has_fact(facts(r), "state.constraint == sc.true()")
        ctx.check(ok, "P5-free-instantiation", construct, "only when the remaining constraint is true", site(r),
                  "open leaves are filled by the grammar fuzzer although constraints are still pending: the result need not satisfy them", "dominated by `state.constraint == sc.true()`")
    mk = [c for c in calls_in(f) if call_name(c) == "SolutionState"]
    ok = len(mk) == 1 and [src(a) for a in mk[0].args] == ["state.constraint", "result"]
    ctx.check(ok, "P5-free-instantiation", construct, "SolutionState(state.constraint, result)", site(f), f"found {[src(a) for a in mk[0].args] if mk else None}", "constraint kept")
    ex = [c for c in calls_in(f) if call_name(c) == "fuzzer.expand_tree"]
    ok = len(ex) == 1 and src(ex[0].args[0]) == "DerivationTree(leaf.value, None)"
    ctx.check(ok, "P5-free-instantiation", construct, "leaf completed from its own nonterminal", site(f), f"found {src(ex[0].args[0]) if ex else None}", "DerivationTree(leaf.value, None)")
    rp = [c for c in calls_in(f) if isinstance(c.func, ast.Attribute) and c.func.attr == "replace_path"]
    ok = len(rp) == 1 and [src(a) for a in rp[0].args] == ["path", "leaf_inst"]
    ctx.check(ok, "P5-free-instantiation", construct, "completion placed at the leaf's path", site(f), f"found {[src(a) for a in rp[0].args] if rp else None}", "replace_path(path, leaf_inst)")
    loops = [n for n in walk_local(f) if isinstance(n, ast.For) and src(n.iter) == "state.tree.open_leaves()"]
    ctx.check(len(loops) == 1, "P5-free-instantiation", construct, "every open leaf is filled", site(f), "loop over state.tree.open_leaves() not found", "all open leaves")
    # expand(): same substitution applied to constraint and tree
    e = meths["expand"]
    mk = [c for c in calls_in(e) if call_name(c) == "SolutionState"]
    ok = len(mk) == 1 and [src(a) for a in mk[0].args] == ["state.constraint.substitute_expressions(substitutions)", "state.tree.substitute(substitutions)"]
    ctx.check(ok, "P7-coherent-substitution", f"{SOLVER}:ISLaSolver.expand", "same map for constraint and tree", site(e), f"found {[src(a)[:60] for a in mk[0].args] if mk else None}", "same substitution on both")


EXCEPT_SITES = {
    ("__init__", "initial_state"),
    ("process_new_state", "probe"),
}


def rule_p6_p7(ctx):
    m, meths = solver_methods(ctx)
    n = 0
    for name, f in meths.items():
        params = [a.arg for a in f.args.args]
        state_params = [p for p in params if p in ("state", "new_state")]
        for c in calls_in(f, include_nested=True):
            if call_name(c) != "SolutionState" or len(c.args) < 2:
                continue
            construct = f"{SOLVER}:ISLaSolver.{name}"
            carg, targ = c.args[0], c.args[1]
            key = f"SolutionState({src(carg)[:40]}, {src(targ)[:30]})"
            if name == "__init__":
                ctx.ok("P6-constraint-conservation", construct, key, site(c), "listed exception: initial state (formula instantiated with the initial tree)")
                n += 1
                continue
            if name == "process_new_state" and src(carg) == "existential_formula":
                ctx.ok("P6-constraint-conservation", construct, key, site(c), "listed exception: unsat probe over one existential conjunct (never reaches solutions: probe restores state)")
                n += 1
                continue
            fn = enclosing_def(c) or f
            # analyse provenance in the outermost method (closures see its locals)
            oc = origins(f, carg)
            ot = origins(f, targ)
            woc = whole_origins(f, carg)
            n += 1
            st_names = set(state_params) | {"result", "state"}
            # a *whole* flow: the complete constraint (or the complete list of its conjuncts), not just one selected conjunct
            has_c = any(w and o.endswith(".constraint") and o.split(".")[0] in st_names | {"new_state"} for o, w in woc)
            has_t = any(o.endswith(".tree") and o.split(".")[0] in st_names | {"new_state"} for o in ot)
            ctx.check(has_c, "P6-constraint-conservation", construct, key + " constraint", site(c),
                      f"the constraint of the new state does not derive from the incoming state's WHOLE constraint (only from selected elements; origins: {sorted(o for o, w in woc if w)[:8]}): conjuncts still pending in the old state are forgotten, "
                      "so 'solutions' that violate them can be emitted", "derives from <state>.constraint")
            ctx.check(has_t, "P6-constraint-conservation", construct, key + " tree", site(c),
                      f"the tree of the new state does not derive from the incoming state's tree (origins: {sorted(ot)[:8]})", "derives from <state>.tree")
            # P7
            if isinstance(targ, ast.Call) and isinstance(targ.func, ast.Attribute) and targ.func.attr == "substitute" and src(targ.func.value).endswith(".tree"):
                mp = src(targ.args[0])
                ctext = src(carg)
                resolved = ctext
                if isinstance(carg, ast.Name):
                    for x in ast.walk(f):
                        if isinstance(x, ast.Assign) and src(x.targets[0]) == carg.id:
                            resolved += " " + src(x.value)
                ok = f"substitute_expressions({mp})" in resolved
                ctx.check(ok, "P7-coherent-substitution", construct, f"tree.substitute({mp}) <-> constraint.substitute_expressions({mp})", site(c),
                          f"the tree is rewritten with the map `{mp}` but the constraint is not rewritten with the same map: the constraint keeps referring to subtrees that are no longer in the tree",
                          "same map applied to the constraint")
    if n < 18:
        raise Unrecognised("C01.P6", f"{SOLVER}:ISLaSolver", f"only {n} SolutionState constructions found (expected >= 18)")
    ctx.inventory["solution_state_constructions"] = n


def rule_p8(ctx):
    """Optimised Z3 queries: a variable is taken out of the 'flexible' class (no language constraint; its tree is REPLACED by a freshly built one from the
    numeric model value) only if no substitution tree has been expanded yet - otherwise constraints already solved inside that tree are thrown away."""
    import re as _re

    m, meths = solver_methods(ctx)
    f = meths["solve_smt_formulas_with_language_constraints"]
    c = f"{SOLVER}:ISLaSolver.solve_smt_formulas_with_language_constraints"
    n = 0
    for a in walk_local(f):
        if not (isinstance(a, ast.Assign) and len(a.targets) == 1 and isinstance(a.targets[0], ast.Name) and a.targets[0].id in ("length_vars", "int_vars")):
            continue
        n += 1
        name = a.targets[0].id
        if src(a.value) == "set()":
            ctx.ok("P8-optimised-classes-guard", c, f"{name} = set()", site(a), "no variable handled outside the SMT language constraints")
            continue
        fs = facts(a)
        texts = [(x.text, x.positive) for x in fs]
        opt = has_fact(fs, "self.enable_optimized_z3_queries")
        leafs = any((not pos) and _re.fullmatch(r"any\(\(?(\w+)\.children for \1 in tree_substitutions\.values\(\)\)?\)", t) for t, pos in texts)
        mentions = any("children" in t for t, _ in texts) or "children" in src(a.value)
        if opt and leafs:
            ctx.ok("P8-optimised-classes-guard", c, f"{name} = {src(a.value)[:40]}", site(a), "only with optimised queries enabled and every substitution tree still an open leaf")
        elif not leafs and not mentions:
            ctx.viol("P8-optimised-classes-guard", c, f"{name} = {src(a.value)[:40]}", site(a),
                     f"`{name}` is taken from infer_variable_contexts without the guard 'no substitution tree has children': for a partially expanded tree the numeric model value is parsed into a "
                     "fresh tree that replaces it, so what was already solved inside that tree (e.g. a fixed leading digit) is lost and the emitted solution violates the constraint")
        else:
            raise Unrecognised("C01.P8", c, f"guard of `{name} = {src(a.value)[:40]}` not in the recognised shape (facts: {texts[:4]})")
    if n < 4:
        raise Unrecognised("C01.P8", c, f"only {n} bindings of length_vars/int_vars found (expected both branches)")
    # the classes partition `variables`: the fallback branch makes every variable flexible
    fl = [a for a in walk_local(f) if isinstance(a, ast.Assign) and src(a.targets[0]) == "flexible_vars"]
    ok = any(src(a.value) == "set(variables)" for a in fl)
    ctx.check(ok, "P8-optimised-classes-guard", c, "fallback: flexible_vars = set(variables)", site(f), "without optimised classes every variable must get its language constraint", "all variables flexible")


def rule_p11(ctx):
    """SMT variables that stand for NESTED subtrees (a match expression binds `q` and, inside it, `m`) are not independent strings: the text of the inner tree is a fixed
    part of the outer one.  The SMT solving functions must relate such variables before asking Z3; they handle every substitution tree on its own today."""
    m, meths = solver_methods(ctx)
    fns = [meths[n] for n in ("solve_quantifier_free_formula", "solve_smt_formulas_with_language_constraints", "generate_language_constraints") if n in meths]
    if len(fns) != 3:
        raise Unrecognised("C01.P11", f"{SOLVER}:ISLaSolver", "SMT solving functions not found")
    aware = []
    for f in fns:
        for x in ast.walk(f):
            if isinstance(x, ast.Call) and isinstance(x.func, ast.Attribute) and x.func.attr in ("find_node", "is_prefix", "is_potential_prefix", "paths", "get_subtree") and "substitution" in src(x.func.value):
                aware.append(x)
            if isinstance(x, (ast.ListComp, ast.SetComp, ast.GeneratorExp, ast.DictComp)) and sum(1 for g in x.generators if "tree_substitutions" in src(g.iter)) >= 2:
                aware.append(x)
    c = f"{SOLVER}:ISLaSolver.solve_smt_formulas_with_language_constraints"
    if aware:
        raise Unrecognised("C01.P11", c, f"the SMT solving functions now inspect the structure of substitution trees (`{src(aware[0])[:60]}`): whether nested variables are related correctly must be re-established")
    ctx.viol("P11-nested-smt-variables", c, "nested substitution trees are related before solving", site(fns[1]),
             "each variable of an SMT cluster gets its own language constraint and value; when one variable's tree lies inside another's (match expression `q=\"{<var> m}\"`) Z3 may choose "
             "values that contradict the containment, DerivationTree.substitute() then drops the nested replacement while the constraint is rewritten with both, and the state completes with a tree "
             "that violates the formula: `exists <rhs> q=\"{<var> m}\" in start: not (q = m)` yields 'a := 1 ; b := a', on which evaluate() answers FALSE")


def rule_p12(ctx):
    """After a tree insertion the ORIGINAL formula is conjoined again, instantiated with the complete new tree and with no node marked as already matched: the
    insertion creates new context nodes next to the inserted tree, and universal quantifiers must look at them too."""
    m, meths = solver_methods(ctx)
    f = meths["eliminate_existential_formula"]
    c = f"{SOLVER}:ISLaSolver.eliminate_existential_formula"
    nf = [a for a in ast.walk(f) if isinstance(a, ast.Assign) and src(a.targets[0]) == "new_formula"]
    if len(nf) != 1:
        raise Unrecognised("C01.P12", c, "new_formula not found")

    def operands(e):
        if isinstance(e, ast.BinOp) and isinstance(e.op, ast.BitAnd):
            return operands(e.left) + operands(e.right)
        return [e]

    ops = [" ".join(src(o).split()) for o in operands(nf[0].value)]
    want = "self.formula.substitute_expressions({self.top_constant.unwrap(): new_tree})"
    marks = [x for x in ast.walk(f) if isinstance(x, ast.Call) and isinstance(x.func, ast.Attribute) and x.func.attr == "add_already_matched"]
    if want in ops and not marks:
        ctx.ok("P12-reinstantiation", c, "original formula re-added for the whole new tree", site(nf[0]), want)
    elif marks:
        ctx.viol("P12-reinstantiation", c, "original formula re-added for the whole new tree", site(marks[0]),
                 f"the re-added formula's universal quantifiers are told that nodes are already matched (`{' '.join(src(marks[0]).split())[:60]}`): the insertion also creates NEW context nodes "
                 "(e.g. a new <item> with an unconstrained <num> around the inserted <key>), which are then never checked - solutions such as 'abc=32;y=54322' violate `forall <num> n: str.to.int(n) > 54321`")
    else:
        raise Unrecognised("C01.P12", c, f"conjuncts of the new constraint not understood: {[o[:50] for o in ops]}")


def run(ctx) -> str:
    ctx.guarded("P12", lambda: rule_p12(ctx))
    ctx.guarded("P11", lambda: rule_p11(ctx))
    ctx.guarded("P8", lambda: rule_p8(ctx))
    ctx.guarded("P1", lambda: rule_p1(ctx))
    ctx.guarded("P2", lambda: rule_p2(ctx))
    ctx.guarded("P3", lambda: rule_p3(ctx))
    ctx.guarded("P4", lambda: rule_p4(ctx))
    ctx.guarded("P5", lambda: rule_p5(ctx))
    ctx.guarded("P6P7", lambda: rule_p6_p7(ctx))
    ctx.guarded("P9", lambda: ctx.inventory.__setitem__("memo_sites", check_memo_keys(ctx, "P9-memo-key", [SOLVER])))
    from ..memo import check_cached_returns
    from ..callgraph import SRC_ISLA

    ctx.guarded("P10", lambda: check_cached_returns(ctx, "P10-cached-mutable", SRC_ISLA, SRC_ISLA))
    ctx.assume("DerivationTree.is_open/is_complete and Formula.__eq__ are correct; asserts are enabled developer contracts")
    ctx.assume("each elimination step is meaning-preserving (NOT decided here)")
    return EXPLANATION
