"""Thorough tier: embedded positive fixtures (rules must fire on known-bad snippets)."""


def run_fixtures(ctx, mod):
    fx = getattr(mod, "fixtures", None)
    if fx is not None:
        fx(ctx)
