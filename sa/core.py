"""Analysis core shared by all rule modules (DESIGN.md section 3).

Nothing from /repo is imported or executed: sources are parsed with `ast`.
"""

from __future__ import annotations

import ast
import hashlib
import os
import sys
from dataclasses import dataclass, field
from typing import Dict, Iterable, Iterator, List, Optional, Sequence, Set, Tuple

REPO_ROOT = os.environ.get("ISLA_REPO", "/repo")


class Unrecognised(Exception):
    """An anchor vanished or the code no longer has a shape the rule understands.

    Never reported as a violation: the run ends with ANALYSIS-ERROR (exit 2)."""

    def __init__(self, rule: str, anchor: str, why: str):
        super().__init__(f"{rule}: {anchor}: {why}")
        self.rule, self.anchor, self.why = rule, anchor, why


# ---------------------------------------------------------------------------
# Source model


class Module:
    def __init__(self, root: str, relpath: str):
        self.relpath = relpath
        self.path = os.path.join(root, relpath)
        with open(self.path, "rb") as fh:
            data = fh.read()
        self.sha256 = hashlib.sha256(data).hexdigest()
        self.source = data.decode("utf-8")
        self.tree = ast.parse(self.source, filename=self.path)
        # functions that equal their reference version up to local renames / == operand order / docstrings are analysed under the reference names (sa/alpha.py)
        from . import alpha

        self.alpha_normalised = alpha.normalise(self.tree, relpath) if os.environ.get("SA_NO_ALPHA") != "1" else []
        self.name = modname(relpath)
        for node in ast.walk(self.tree):
            for child in ast.iter_child_nodes(node):
                child._parent = node  # type: ignore[attr-defined]
        self.tree._parent = None  # type: ignore[attr-defined]
        self.tree._module = self  # type: ignore[attr-defined]
        self._index: Dict[str, ast.AST] = {}
        self._qual: Dict[int, str] = {}
        self._build_index(self.tree, "")
        self.imports = self._collect_imports()

    # qualified names: "Class.method.nested"
    def _build_index(self, node: ast.AST, prefix: str) -> None:
        for child in ast.iter_child_nodes(node):
            if isinstance(child, (ast.FunctionDef, ast.AsyncFunctionDef, ast.ClassDef)):
                q = f"{prefix}{child.name}"
                # first definition wins for the plain name; duplicates get #n
                key = q
                n = 1
                while key in self._index:
                    n += 1
                    key = f"{q}#{n}"
                self._index[key] = child
                self._qual[id(child)] = key
                self._build_index(child, key + ".")
            else:
                self._build_index(child, prefix)

    def _collect_imports(self) -> Dict[str, str]:
        """local alias -> dotted target (module or module.symbol)"""
        res: Dict[str, str] = {}
        for node in ast.walk(self.tree):
            if isinstance(node, ast.Import):
                for a in node.names:
                    res[a.asname or a.name.split(".")[0]] = (
                        a.name if a.asname else a.name.split(".")[0]
                    )
            elif isinstance(node, ast.ImportFrom) and node.module and node.level == 0:
                for a in node.names:
                    res[a.asname or a.name] = f"{node.module}.{a.name}"
        return res

    def get(self, qualname: str) -> Optional[ast.AST]:
        return self._index.get(qualname)

    def qualname(self, node: ast.AST) -> str:
        """Qualified name of the innermost def/class enclosing (or equal to) node."""
        cur: Optional[ast.AST] = node
        while cur is not None:
            q = self._qual.get(id(cur))
            if q is not None:
                return q
            cur = getattr(cur, "_parent", None)
        return "<module>"

    def functions(self) -> Iterator[Tuple[str, ast.FunctionDef]]:
        for q, n in self._index.items():
            if isinstance(n, (ast.FunctionDef, ast.AsyncFunctionDef)):
                yield q, n

    def classes(self) -> Iterator[Tuple[str, ast.ClassDef]]:
        for q, n in self._index.items():
            if isinstance(n, ast.ClassDef):
                yield q, n

    def constants(self) -> Dict[str, ast.expr]:
        res = {}
        for st in self.tree.body:
            if isinstance(st, ast.Assign) and len(st.targets) == 1 and isinstance(st.targets[0], ast.Name):
                res[st.targets[0].id] = st.value
            elif isinstance(st, ast.AnnAssign) and isinstance(st.target, ast.Name) and st.value is not None:
                res[st.target.id] = st.value
        return res


def modname(relpath: str) -> str:
    p = relpath
    if p.startswith("src/"):
        p = p[4:]
    if p.endswith(".py"):
        p = p[:-3]
    p = p.replace("/", ".")
    if p.endswith(".__init__"):
        p = p[: -len(".__init__")]
    return p


class Repo:
    def __init__(self, root: str = REPO_ROOT):
        self.root = root
        self.modules: Dict[str, Module] = {}
        self.consulted: Set[str] = set()

    def module(self, relpath: str, rule: str = "source") -> Module:
        if relpath not in self.modules:
            full = os.path.join(self.root, relpath)
            if not os.path.isfile(full):
                raise Unrecognised(rule, relpath, "source file not found")
            try:
                self.modules[relpath] = Module(self.root, relpath)
            except SyntaxError as exc:
                raise Unrecognised(rule, relpath, f"does not parse: {exc}")
        self.consulted.add(relpath)
        return self.modules[relpath]

    def exists(self, relpath: str) -> bool:
        return os.path.isfile(os.path.join(self.root, relpath))

    def all_py(self, *subdirs: str) -> List[str]:
        res = []
        for sub in subdirs:
            base = os.path.join(self.root, sub)
            for dirpath, dirnames, filenames in os.walk(base):
                dirnames.sort()
                for fn in sorted(filenames):
                    if fn.endswith(".py"):
                        res.append(os.path.relpath(os.path.join(dirpath, fn), self.root))
        return res

    def func(self, relpath: str, qualname: str, rule: str) -> ast.FunctionDef:
        m = self.module(relpath, rule)
        n = m.get(qualname)
        if not isinstance(n, (ast.FunctionDef, ast.AsyncFunctionDef)):
            raise Unrecognised(rule, f"{relpath}:{qualname}", "function not found")
        return n

    def cls(self, relpath: str, qualname: str, rule: str) -> ast.ClassDef:
        m = self.module(relpath, rule)
        n = m.get(qualname)
        if not isinstance(n, ast.ClassDef):
            raise Unrecognised(rule, f"{relpath}:{qualname}", "class not found")
        return n


def module_of(node: ast.AST) -> Module:
    cur = node
    while getattr(cur, "_parent", None) is not None:
        cur = cur._parent  # type: ignore[attr-defined]
    return cur._module  # type: ignore[attr-defined]


def site(node: ast.AST) -> str:
    m = module_of(node)
    cur = node
    while cur is not None and not hasattr(cur, "lineno"):
        cur = getattr(cur, "_parent", None)
    return f"{m.relpath}:{getattr(cur, 'lineno', 0)}"


def qual(node: ast.AST) -> str:
    return module_of(node).qualname(node)


# ---------------------------------------------------------------------------
# AST helpers


def src(node: Optional[ast.AST]) -> str:
    """Normalised source text of a node (position independent)."""
    if node is None:
        return "None"
    try:
        return ast.unparse(node)
    except Exception:  # pragma: no cover
        return ast.dump(node)


def parent(node: ast.AST) -> Optional[ast.AST]:
    return getattr(node, "_parent", None)


def ancestors(node: ast.AST) -> Iterator[ast.AST]:
    cur = parent(node)
    while cur is not None:
        yield cur
        cur = parent(cur)


def enclosing_function(node: ast.AST) -> Optional[ast.AST]:
    for a in ancestors(node):
        if isinstance(a, (ast.FunctionDef, ast.AsyncFunctionDef, ast.Lambda)):
            return a
    return None


def enclosing_def(node: ast.AST) -> Optional[ast.FunctionDef]:
    for a in ancestors(node):
        if isinstance(a, (ast.FunctionDef, ast.AsyncFunctionDef)):
            return a
    return None


def walk_local(fn: ast.AST, include_nested: bool = False) -> Iterator[ast.AST]:
    """Walk the body of a function; by default do not descend into nested defs /
    lambdas / classes (they are separate units)."""
    stack = list(reversed(list(ast.iter_child_nodes(fn))))
    while stack:
        n = stack.pop()
        yield n
        if not include_nested and isinstance(
            n, (ast.FunctionDef, ast.AsyncFunctionDef, ast.Lambda, ast.ClassDef)
        ):
            continue
        stack.extend(reversed(list(ast.iter_child_nodes(n))))


def dotted(node: ast.AST) -> Optional[str]:
    """`a.b.c` -> 'a.b.c' for Name/Attribute chains, else None."""
    parts = []
    cur = node
    while isinstance(cur, ast.Attribute):
        parts.append(cur.attr)
        cur = cur.value
    if isinstance(cur, ast.Name):
        parts.append(cur.id)
        return ".".join(reversed(parts))
    return None


def call_name(call: ast.AST) -> Optional[str]:
    if isinstance(call, ast.Call):
        return dotted(call.func)
    return None


def calls_in(node: ast.AST, include_nested: bool = True) -> Iterator[ast.Call]:
    it = ast.walk(node) if include_nested else walk_local(node)
    for n in it:
        if isinstance(n, ast.Call):
            yield n


def is_const(node: ast.AST, value=...) -> bool:
    if not isinstance(node, ast.Constant):
        return False
    return value is ... or (node.value == value and type(node.value) is type(value))


def positional_arity(fn: ast.AST) -> Tuple[int, Optional[int]]:
    """(min, max) number of positional arguments accepted; max None = *args."""
    a = fn.args  # type: ignore[attr-defined]
    pos = list(a.posonlyargs) + list(a.args)
    n = len(pos)
    nd = len(a.defaults)
    lo = n - nd
    hi: Optional[int] = None if a.vararg is not None else n
    return lo, hi


def param_names(fn: ast.AST) -> List[str]:
    a = fn.args  # type: ignore[attr-defined]
    return [x.arg for x in list(a.posonlyargs) + list(a.args)]


# ---------------------------------------------------------------------------
# Always-exits and path facts (DESIGN 3.4)

EXIT_CALLS = {"sys.exit", "exit", "quit", "os._exit"}


def block_always_exits(stmts: Sequence[ast.stmt], local_raisers: Set[str] = frozenset()) -> bool:
    """True if control cannot fall out of the end of this block."""
    for st in stmts:
        if stmt_always_exits(st, local_raisers):
            return True
    return False


def stmt_always_exits(st: ast.stmt, local_raisers: Set[str] = frozenset()) -> bool:
    if isinstance(st, (ast.Return, ast.Raise, ast.Continue, ast.Break)):
        return True
    if isinstance(st, ast.Expr) and isinstance(st.value, ast.Call):
        n = call_name(st.value)
        if n in EXIT_CALLS or (n is not None and n in local_raisers):
            return True
    if isinstance(st, ast.Assert) and is_const(st.test, False):
        return True
    if isinstance(st, ast.If):
        return (
            bool(st.orelse)
            and block_always_exits(st.body, local_raisers)
            and block_always_exits(st.orelse, local_raisers)
        )
    if isinstance(st, ast.With):
        return block_always_exits(st.body, local_raisers)
    if isinstance(st, ast.Try):
        body_exits = block_always_exits(st.body, local_raisers) or (
            bool(st.orelse) and block_always_exits(st.orelse, local_raisers)
        )
        handlers_exit = all(block_always_exits(h.body, local_raisers) for h in st.handlers)
        if st.finalbody and block_always_exits(st.finalbody, local_raisers):
            return True
        return body_exits and handlers_exit
    if isinstance(st, ast.Match):
        has_wild = any(
            isinstance(c.pattern, ast.MatchAs) and c.pattern.pattern is None and c.guard is None
            for c in st.cases
        )
        return has_wild and all(block_always_exits(c.body, local_raisers) for c in st.cases)
    return False


@dataclass(frozen=True)
class Fact:
    text: str  # normalised expression text
    positive: bool  # expression known true (or known false)
    kind: str = "cond"  # cond | assert | case | after-exit

    def __str__(self) -> str:
        return ("" if self.positive else "not ") + self.text


def _split(expr: ast.expr, positive: bool) -> List[Tuple[ast.expr, bool]]:
    """Split a condition known to be `positive` into atomic known facts."""
    if isinstance(expr, ast.UnaryOp) and isinstance(expr.op, ast.Not):
        return _split(expr.operand, not positive)
    if isinstance(expr, ast.BoolOp):
        if isinstance(expr.op, ast.And) and positive:
            return [f for v in expr.values for f in _split(v, True)]
        if isinstance(expr.op, ast.Or) and not positive:
            return [f for v in expr.values for f in _split(v, False)]
    return [(expr, positive)]


def _canon_fact(expr: ast.expr, positive: bool) -> Tuple[str, bool]:
    # `x is not None` known true == `x is None` known false, `a != b` vs `a == b`
    if isinstance(expr, ast.Compare) and len(expr.ops) == 1:
        op = expr.ops[0]
        flip = {ast.IsNot: ast.Is, ast.NotEq: ast.Eq, ast.NotIn: ast.In}
        for k, v in flip.items():
            if isinstance(op, k):
                e2 = ast.Compare(left=expr.left, ops=[v()], comparators=expr.comparators)
                return src(e2), not positive
    return src(expr), positive


def _sym(expr: ast.expr) -> str:
    """Text of a fact; the operands of the symmetric comparisons == and `is` are put in a fixed (textual) order, so `a == b` and `b == a` are the same fact."""
    if isinstance(expr, ast.Compare) and len(expr.ops) == 1 and isinstance(expr.ops[0], (ast.Eq, ast.Is)):
        a, b = src(expr.left), src(expr.comparators[0])
        if b < a and not (isinstance(expr.ops[0], ast.Is) and b == "None"):
            return src(ast.Compare(left=expr.comparators[0], ops=expr.ops, comparators=[expr.left]))
    return src(expr)


def facts_of_condition(expr: ast.expr, positive: bool, kind: str = "cond") -> List[Fact]:
    res = []
    for e, p in _split(expr, positive):
        if isinstance(e, ast.Constant) and isinstance(e.value, bool):
            continue  # `assert True`, `if True:` carry no information
        t, p2 = _canon_fact(e, p)
        res.append(Fact(t, p2, kind))
    return res


def _blocks_of(node: ast.AST) -> List[Tuple[str, List[ast.stmt]]]:
    res = []
    for name in ("body", "orelse", "finalbody"):
        b = getattr(node, name, None)
        if isinstance(b, list) and b and isinstance(b[0], ast.stmt):
            res.append((name, b))
    if isinstance(node, ast.Try):
        for h in node.handlers:
            res.append(("handler", h.body))
    if isinstance(node, ast.Match):
        for c in node.cases:
            res.append(("case", c.body))
    return res


def facts(node: ast.AST, stop_at: Optional[ast.AST] = None, inherit_closure: bool = True) -> List[Fact]:
    """Expressions known true/false whenever `node` is evaluated.

    Sound for structured code: enclosing conditions, preceding sibling
    `if T: <always exits>` statements, preceding asserts, match arms,
    comprehension conditions, and `x if c else y` / `a and b` short circuits.
    Nested defs/lambdas inherit the facts of their definition site.
    """
    res: List[Fact] = []
    child = node
    cur = parent(node)
    local_raisers: Set[str] = set()
    fn = enclosing_def(node)
    if fn is not None:
        local_raisers = always_raising_locals(fn)
    while cur is not None and cur is not stop_at:
        # statement-level contexts
        if isinstance(cur, (ast.If, ast.While)):
            if child in cur.body:
                res += facts_of_condition(cur.test, True)
            elif child in cur.orelse and isinstance(cur, ast.If):
                res += facts_of_condition(cur.test, False)
        if isinstance(cur, ast.IfExp):
            if child is cur.body:
                res += facts_of_condition(cur.test, True)
            elif child is cur.orelse:
                res += facts_of_condition(cur.test, False)
        if isinstance(cur, ast.BoolOp):
            idx = cur.values.index(child) if child in cur.values else -1
            for prev in cur.values[: max(idx, 0)]:
                res += facts_of_condition(prev, isinstance(cur.op, ast.And))
        if isinstance(cur, ast.comprehension):
            if child in cur.ifs:
                for prev in cur.ifs[: cur.ifs.index(child)]:
                    res += facts_of_condition(prev, True)
        if isinstance(cur, (ast.ListComp, ast.SetComp, ast.GeneratorExp, ast.DictComp)):
            # element expression knows all conditions of all generators
            is_elt = child is getattr(cur, "elt", None) or child is getattr(cur, "key", None) or child is getattr(cur, "value", None)
            if is_elt:
                for g in cur.generators:
                    for c in g.ifs:
                        res += facts_of_condition(c, True)
            elif child in cur.generators:
                gi = cur.generators.index(child)
                for g in cur.generators[:gi]:
                    for c in g.ifs:
                        res += facts_of_condition(c, True)
        if isinstance(cur, ast.match_case):
            res.append(Fact("case " + src(cur.pattern), True, "case"))
            if cur.guard is not None and child is not cur.guard:
                res += facts_of_condition(cur.guard, True)
        # preceding siblings in the block that contains `child`
        for _, block in _blocks_of(cur):
            if child in block:
                idx = block.index(child)
                for st in block[:idx]:
                    if isinstance(st, ast.If) and not st.orelse and block_always_exits(st.body, local_raisers):
                        res += facts_of_condition(st.test, False, "after-exit")
                    elif isinstance(st, ast.If) and st.orelse and block_always_exits(st.orelse, local_raisers) and not block_always_exits(st.body, local_raisers):
                        res += facts_of_condition(st.test, True, "after-exit")
                    elif isinstance(st, ast.If) and st.orelse and block_always_exits(st.body, local_raisers) and not block_always_exits(st.orelse, local_raisers):
                        res += facts_of_condition(st.test, False, "after-exit")
                    elif isinstance(st, ast.Assert):
                        res += facts_of_condition(st.test, True, "assert")
        if isinstance(cur, (ast.FunctionDef, ast.AsyncFunctionDef, ast.Lambda)):
            if not inherit_closure:
                break
        child = cur
        cur = parent(cur)
    return res


def _swapped(text: str) -> str:
    """`b == a` for `a == b` (also `is`): the symmetric comparisons are the same fact in either order."""
    try:
        e = ast.parse(text, mode="eval").body
    except SyntaxError:
        return text
    if isinstance(e, ast.Compare) and len(e.ops) == 1 and isinstance(e.ops[0], (ast.Eq, ast.Is)):
        return src(ast.Compare(left=e.comparators[0], ops=e.ops, comparators=[e.left]))
    return text


def significant_body(fn: ast.AST) -> List[ast.stmt]:
    """Statements of a function body without those that cannot change what it computes: the docstring, `pass`, `assert`, bindings of a constant to a name that is
    never read, and logging calls.  Rules that look at 'the first statement' or 'the only assignment' of a small function use this view."""
    loads = {n.id for n in ast.walk(fn) if isinstance(n, ast.Name) and isinstance(n.ctx, ast.Load)}
    out = []
    for st in fn.body:
        if isinstance(st, ast.Expr) and isinstance(st.value, ast.Constant):
            continue
        if isinstance(st, (ast.Pass, ast.Assert)):
            continue
        if isinstance(st, ast.Assign) and isinstance(st.value, ast.Constant) and all(isinstance(t, ast.Name) and t.id not in loads for t in st.targets):
            continue
        if isinstance(st, ast.Expr) and isinstance(st.value, ast.Call) and (call_name(st.value) or "").split(".")[-1] in ("debug", "info", "warning", "log"):
            continue
        out.append(st)
    return out


def has_fact(fs: Iterable[Fact], text: str, positive: bool = True) -> bool:
    t, p = _canon_fact(ast.parse(text, mode="eval").body, positive)
    t2 = _swapped(t)
    return any((f.text == t or f.text == t2) and f.positive == p for f in fs)


def always_raising_locals(fn: ast.AST) -> Set[str]:
    """Names of functions nested in `fn` (or module-level siblings) whose body always raises/exits."""
    res: Set[str] = set()
    for n in ast.walk(fn):
        if isinstance(n, ast.FunctionDef) and n is not fn:
            if block_always_exits_noreturn(n.body):
                res.add(n.name)
    return res


def block_always_exits_noreturn(stmts: Sequence[ast.stmt]) -> bool:
    """Block always raises or calls sys.exit (a `return` does not count)."""
    for st in stmts:
        if isinstance(st, ast.Raise):
            return True
        if isinstance(st, ast.Expr) and isinstance(st.value, ast.Call) and call_name(st.value) in EXIT_CALLS:
            return True
        if isinstance(st, ast.If) and st.orelse and block_always_exits_noreturn(st.body) and block_always_exits_noreturn(st.orelse):
            return True
        if isinstance(st, ast.Return):
            return False
    return False


# ---------------------------------------------------------------------------
# Simple intra-procedural def-use


def assignments_to(fn: ast.AST, name: str, include_nested: bool = False) -> List[ast.AST]:
    """All nodes that bind local `name` in fn (Assign/AnnAssign/AugAssign/For/With/walrus/match)."""
    res: List[ast.AST] = []
    for n in walk_local(fn, include_nested):
        if isinstance(n, ast.Assign):
            for t in n.targets:
                if any(isinstance(x, ast.Name) and x.id == name for x in ast.walk(t) if isinstance(x, ast.Name) and isinstance(x.ctx, ast.Store)):
                    res.append(n)
        elif isinstance(n, (ast.AnnAssign, ast.AugAssign)):
            if isinstance(n.target, ast.Name) and n.target.id == name:
                res.append(n)
        elif isinstance(n, (ast.For, ast.comprehension)):
            if any(isinstance(x, ast.Name) and x.id == name for x in ast.walk(n.target)):
                res.append(n)
        elif isinstance(n, ast.NamedExpr):
            if n.target.id == name:
                res.append(n)
        elif isinstance(n, ast.withitem):
            if n.optional_vars is not None and any(isinstance(x, ast.Name) and x.id == name for x in ast.walk(n.optional_vars)):
                res.append(n)
        elif isinstance(n, (ast.MatchAs, ast.MatchStar)):
            if n.name == name:
                res.append(n)
    return res


def single_assignment_value(fn: ast.AST, name: str) -> Optional[ast.expr]:
    """Value of `name` if it is bound exactly once by a plain `name = value`."""
    asg = assignments_to(fn, name)
    if len(asg) == 1 and isinstance(asg[0], (ast.Assign, ast.AnnAssign)):
        a = asg[0]
        if isinstance(a, ast.Assign) and len(a.targets) == 1 and isinstance(a.targets[0], ast.Name):
            return a.value
        if isinstance(a, ast.AnnAssign):
            return a.value
    return None


def names_in(node: ast.AST) -> Set[str]:
    return {n.id for n in ast.walk(node) if isinstance(n, ast.Name)}


# ---------------------------------------------------------------------------
# Constant folding over table expressions (DESIGN 3.6)


class NotConstant(Exception):
    pass


def fold(node: ast.expr, env: Optional[Dict[str, object]] = None):
    """Evaluate a constant table expression.  Raises NotConstant otherwise."""
    import string as _string

    env = env or {}

    def ev(n, loc):
        if isinstance(n, ast.Constant):
            return n.value
        if isinstance(n, ast.Name):
            if n.id in loc:
                return loc[n.id]
            if n.id in env:
                return env[n.id]
            raise NotConstant(n.id)
        if isinstance(n, ast.Tuple):
            return tuple(ev(e, loc) for e in n.elts)
        if isinstance(n, ast.List):
            return [ev(e, loc) for e in n.elts]
        if isinstance(n, ast.Set):
            return {ev(e, loc) for e in n.elts}
        if isinstance(n, ast.Dict):
            d = {}
            for k, v in zip(n.keys, n.values):
                if k is None:
                    d.update(ev(v, loc))
                else:
                    d[ev(k, loc)] = ev(v, loc)
            return d
        if isinstance(n, ast.JoinedStr):
            out = ""
            for v in n.values:
                if isinstance(v, ast.Constant):
                    out += v.value
                elif isinstance(v, ast.FormattedValue) and v.format_spec is None and v.conversion == -1:
                    out += str(ev(v.value, loc))
                else:
                    raise NotConstant("fstring")
            return out
        if isinstance(n, ast.BinOp):
            l, r = ev(n.left, loc), ev(n.right, loc)
            if isinstance(n.op, ast.Add):
                return l + r
            if isinstance(n.op, ast.Sub):
                return l - r
            if isinstance(n.op, ast.Mult):
                return l * r
            if isinstance(n.op, ast.BitOr):
                return l | r
            raise NotConstant("binop")
        if isinstance(n, ast.UnaryOp) and isinstance(n.op, ast.USub):
            return -ev(n.operand, loc)
        if isinstance(n, ast.Subscript):
            v = ev(n.value, loc)
            if isinstance(n.slice, ast.Slice):
                lo = ev(n.slice.lower, loc) if n.slice.lower else None
                hi = ev(n.slice.upper, loc) if n.slice.upper else None
                return v[lo:hi]
            return v[ev(n.slice, loc)]
        if isinstance(n, ast.Attribute):
            d = dotted(n)
            if d in ("string.printable", "string.ascii_letters", "string.digits", "string.ascii_lowercase", "string.ascii_uppercase", "string.punctuation", "string.whitespace"):
                return getattr(_string, d.split(".")[1])
            if d == "sys.maxsize":
                return sys.maxsize
            raise NotConstant(d or "attr")
        if isinstance(n, ast.Call):
            fn = dotted(n.func)
            if n.keywords:
                raise NotConstant("kw")
            if fn in ("chr", "ord", "hex", "str", "len", "int", "tuple", "list", "set", "frozenset", "dict", "range", "sorted", "repr", "oct"):
                args = [ev(a, loc) for a in n.args]
                r = {"chr": chr, "ord": ord, "hex": hex, "str": str, "len": len, "int": int, "tuple": tuple, "list": list, "set": set, "frozenset": frozenset, "dict": dict, "range": range, "sorted": sorted, "repr": repr, "oct": oct}[fn](*args)
                return r
            if isinstance(n.func, ast.Attribute) and n.func.attr in ("rjust", "ljust", "join", "upper", "lower", "items", "keys", "values", "replace", "format", "zfill"):
                recv = ev(n.func.value, loc)
                args = [ev(a, loc) for a in n.args]
                r = getattr(recv, n.func.attr)(*args)
                if n.func.attr in ("items", "keys", "values"):
                    r = list(r)
                return r
            raise NotConstant(fn or "call")
        if isinstance(n, (ast.ListComp, ast.SetComp, ast.DictComp, ast.GeneratorExp)):
            results = []

            def rec(gi, loc2):
                if gi == len(n.generators):
                    if isinstance(n, ast.DictComp):
                        results.append((ev(n.key, loc2), ev(n.value, loc2)))
                    else:
                        results.append(ev(n.elt, loc2))
                    return
                g = n.generators[gi]
                it = ev(g.iter, loc2)
                cnt = 0
                for item in it:
                    cnt += 1
                    if cnt > 100000:
                        raise NotConstant("too large")
                    loc3 = dict(loc2)
                    bind(g.target, item, loc3)
                    if all(ev(c, loc3) for c in g.ifs):
                        rec(gi + 1, loc3)

            rec(0, dict(loc))
            if isinstance(n, ast.DictComp):
                return dict(results)
            if isinstance(n, ast.SetComp):
                return set(results)
            return results
        if isinstance(n, ast.Compare) and len(n.ops) == 1:
            l, r = ev(n.left, loc), ev(n.comparators[0], loc)
            op = n.ops[0]
            if isinstance(op, ast.In):
                return l in r
            if isinstance(op, ast.NotIn):
                return l not in r
            if isinstance(op, ast.Eq):
                return l == r
            if isinstance(op, ast.NotEq):
                return l != r
            if isinstance(op, ast.Lt):
                return l < r
            if isinstance(op, ast.LtE):
                return l <= r
            if isinstance(op, ast.Gt):
                return l > r
            if isinstance(op, ast.GtE):
                return l >= r
            raise NotConstant("cmp")
        if isinstance(n, ast.IfExp):
            return ev(n.body, loc) if ev(n.test, loc) else ev(n.orelse, loc)
        if isinstance(n, ast.BoolOp):
            vals = [ev(v, loc) for v in n.values]
            return all(vals) if isinstance(n.op, ast.And) else any(vals)
        raise NotConstant(type(n).__name__)

    def bind(target, value, loc):
        if isinstance(target, ast.Name):
            loc[target.id] = value
        elif isinstance(target, (ast.Tuple, ast.List)):
            vals = list(value)
            if len(vals) != len(target.elts):
                raise NotConstant("unpack")
            for t, v in zip(target.elts, vals):
                bind(t, v, loc)
        else:
            raise NotConstant("target")

    return ev(node, {})


# ---------------------------------------------------------------------------
# Templates (DESIGN 3.7)


@dataclass
class Slot:
    expr: ast.expr

    def __repr__(self) -> str:
        return "{" + src(self.expr) + "}"


def template(node: ast.expr) -> Optional[List[object]]:
    """f-string / '+' concatenation / constant -> [str | Slot]; None if not a template."""
    if isinstance(node, ast.Constant) and isinstance(node.value, str):
        return [node.value]
    if isinstance(node, ast.JoinedStr):
        out: List[object] = []
        for v in node.values:
            if isinstance(v, ast.Constant):
                out.append(v.value)
            elif isinstance(v, ast.FormattedValue):
                out.append(Slot(v.value))
        return _merge(out)
    if isinstance(node, ast.BinOp) and isinstance(node.op, ast.Add):
        l, r = template(node.left), template(node.right)
        if l is None and r is None:
            return None
        return _merge((l if l is not None else [Slot(node.left)]) + (r if r is not None else [Slot(node.right)]))
    return None


def _merge(parts: List[object]) -> List[object]:
    out: List[object] = []
    for p in parts:
        if isinstance(p, str) and out and isinstance(out[-1], str):
            out[-1] = out[-1] + p
        elif isinstance(p, str) and p == "":
            continue
        else:
            out.append(p)
    return out


# ---------------------------------------------------------------------------
# Class hierarchy over repo-defined classes


def class_bases(cls: ast.ClassDef) -> List[str]:
    res = []
    for b in cls.bases:
        d = dotted(b)
        if d:
            res.append(d.split(".")[-1])
    return res


def subclasses_closure(module: Module, root: str) -> Dict[str, ast.ClassDef]:
    """All classes in `module` deriving (transitively) from `root` (excluding root)."""
    classes = {q: c for q, c in module.classes() if "." not in q}
    res: Dict[str, ast.ClassDef] = {}
    changed = True
    while changed:
        changed = False
        for q, c in classes.items():
            if q in res or q == root:
                continue
            if any(b == root or b in res for b in class_bases(c)):
                res[q] = c
                changed = True
    return res


def is_abstract(cls: ast.ClassDef) -> bool:
    if "ABC" in class_bases(cls):
        return True
    for st in cls.body:
        if isinstance(st, ast.FunctionDef):
            for d in st.decorator_list:
                if (dotted(d) or "").endswith("abstractmethod"):
                    return True
    return False


def find_method(module: Module, cls_name: str, meth: str) -> Optional[ast.FunctionDef]:
    """Resolve a method through the class hierarchy (repo classes of one module)."""
    seen = set()
    todo = [cls_name]
    while todo:
        c = todo.pop(0)
        if c in seen:
            continue
        seen.add(c)
        node = module.get(c)
        if not isinstance(node, ast.ClassDef):
            continue
        m = module.get(f"{c}.{meth}")
        if isinstance(m, ast.FunctionDef):
            return m
        todo.extend(class_bases(node))
    return None


# ---------------------------------------------------------------------------
# Writers of an attribute path (E-D `writers`)

MUTATORS = {"append", "extend", "pop", "clear", "update", "remove", "add", "discard", "insert", "sort", "reverse", "setdefault", "popitem", "difference_update", "intersection_update", "symmetric_difference_update"}
HEAPQ_MUT = {"heapq.heappush", "heapq.heappop", "heapq.heapify", "heapq.heapreplace", "heapq.heappushpop", "random.shuffle"}


def attr_writes(fn: ast.AST, path: str, include_nested: bool = True) -> List[Tuple[ast.AST, str]]:
    """All nodes in `fn` that write `path` (e.g. 'self.queue'): (node, kind)."""
    res: List[Tuple[ast.AST, str]] = []
    it = ast.walk(fn) if include_nested else walk_local(fn)
    for n in it:
        if isinstance(n, ast.Assign):
            for t in n.targets:
                for x in ast.walk(t):
                    if isinstance(x, (ast.Attribute, ast.Name)) and isinstance(getattr(x, "ctx", None), ast.Store) and dotted(x) == path:
                        res.append((n, "assign"))
                    if isinstance(x, ast.Subscript) and isinstance(x.ctx, ast.Store) and dotted(x.value) == path:
                        res.append((n, "setitem"))
        elif isinstance(n, (ast.AugAssign, ast.AnnAssign)):
            t = n.target
            if dotted(t) == path and (not isinstance(n, ast.AnnAssign) or n.value is not None):
                res.append((n, "assign"))
            if isinstance(t, ast.Subscript) and dotted(t.value) == path:
                res.append((n, "setitem"))
        elif isinstance(n, ast.Delete):
            for t in n.targets:
                if dotted(t) == path or (isinstance(t, ast.Subscript) and dotted(t.value) == path):
                    res.append((n, "del"))
        elif isinstance(n, ast.Call):
            f = n.func
            if isinstance(f, ast.Attribute) and f.attr in MUTATORS and dotted(f.value) == path:
                res.append((n, f"call .{f.attr}"))
            elif dotted(f) in HEAPQ_MUT and n.args and dotted(n.args[0]) == path:
                res.append((n, f"call {dotted(f)}"))
            elif dotted(f) == "setattr" and len(n.args) >= 2 and isinstance(n.args[1], ast.Constant) and f"{dotted(n.args[0])}.{n.args[1].value}" == path:
                res.append((n, "setattr"))
    return res


def close_facts(fs: List[Fact]) -> List[Fact]:
    """Propositional closure of a fact list: from not(A and B) and A derive not B (then split)."""
    out = list(fs)
    known = {(f.text, f.positive) for f in out}
    changed = True
    while changed:
        changed = False
        for f in list(out):
            if f.positive:
                continue
            try:
                e = ast.parse(f.text, mode="eval").body
            except SyntaxError:
                continue
            if isinstance(e, ast.BoolOp) and isinstance(e.op, ast.And):
                unknown = []
                for v in e.values:
                    parts = facts_of_condition(v, True)
                    if all((p.text, p.positive) in known for p in parts):
                        continue
                    unknown.append(v)
                if len(unknown) == 1:
                    for nf in facts_of_condition(unknown[0], False, "derived"):
                        if (nf.text, nf.positive) not in known:
                            known.add((nf.text, nf.positive))
                            out.append(nf)
                            changed = True
    return out


# ---------------------------------------------------------------------------
# Intra-procedural provenance (DESIGN 3.5): which parameters / attribute chains can flow into an expression


def _binding_sources(fn: ast.AST) -> Dict[str, List[ast.expr]]:
    """local name -> expressions whose value can flow into it (assignment RHS, loop iterables, with-items, comprehension iterables)."""
    out: Dict[str, List[ast.expr]] = {}

    def names_of(t: ast.AST) -> List[str]:
        # only names that are actually (re)bound: `a[i] = v` binds neither `a` nor `i`
        return [x.id for x in ast.walk(t) if isinstance(x, ast.Name) and isinstance(getattr(x, "ctx", None), ast.Store)]

    for n in ast.walk(fn):
        if isinstance(n, ast.Assign):
            for t in n.targets:
                for nm in names_of(t):
                    out.setdefault(nm, []).append(n.value)
        elif isinstance(n, ast.AnnAssign) and n.value is not None:
            for nm in names_of(n.target):
                out.setdefault(nm, []).append(n.value)
        elif isinstance(n, ast.AugAssign):
            for nm in names_of(n.target):
                out.setdefault(nm, []).append(n.value)
        elif isinstance(n, (ast.For, ast.comprehension)):
            for nm in names_of(n.target):
                out.setdefault(nm, []).append(n.iter)
        elif isinstance(n, ast.NamedExpr):
            out.setdefault(n.target.id, []).append(n.value)
        elif isinstance(n, ast.withitem) and n.optional_vars is not None:
            for nm in names_of(n.optional_vars):
                out.setdefault(nm, []).append(n.context_expr)
        elif isinstance(n, ast.Call) and isinstance(n.func, ast.Attribute) and n.func.attr in ("append", "extend", "add", "update", "insert") and isinstance(n.func.value, ast.Name):
            for a in n.args:
                out.setdefault(n.func.value.id, []).append(a)
    return out


def origins(fn: ast.AST, expr: ast.expr, max_steps: int = 400) -> Set[str]:
    """Dotted names (parameters, attribute chains such as 'state.constraint') that can flow into `expr` inside `fn`."""
    binds = _binding_sources(fn)
    seen_names: Set[str] = set()
    res: Set[str] = set()
    todo: List[ast.AST] = [expr]
    steps = 0
    while todo and steps < max_steps:
        steps += 1
        e = todo.pop()
        for n in ast.walk(e):
            d = dotted(n) if isinstance(n, (ast.Attribute, ast.Name)) else None
            if d:
                res.add(d)
            if isinstance(n, ast.Name) and n.id not in seen_names:
                seen_names.add(n.id)
                todo.extend(binds.get(n.id, []))
    return res


def _binding_sources_kinded(fn: ast.AST) -> Dict[str, List[Tuple[ast.expr, bool]]]:
    """local name -> [(source expr, whole?)]: `whole` is False when only an element of the source flows (for-loop target, unpacking of an element)."""
    out: Dict[str, List[Tuple[ast.expr, bool]]] = {}

    def names_of(t: ast.AST) -> List[str]:
        # only names that are actually (re)bound: `a[i] = v` binds neither `a` nor `i`
        return [x.id for x in ast.walk(t) if isinstance(x, ast.Name) and isinstance(getattr(x, "ctx", None), ast.Store)]

    for n in ast.walk(fn):
        if isinstance(n, ast.Assign):
            for t in n.targets:
                if isinstance(t, ast.Subscript) and isinstance(t.value, ast.Name):
                    out.setdefault(t.value.id, []).append((n.value, True))
                    continue
                for nm in names_of(t):
                    out.setdefault(nm, []).append((n.value, True))
        elif isinstance(n, ast.AnnAssign) and n.value is not None:
            for nm in names_of(n.target):
                out.setdefault(nm, []).append((n.value, True))
        elif isinstance(n, ast.AugAssign):
            for nm in names_of(n.target):
                out.setdefault(nm, []).append((n.value, True))
        elif isinstance(n, ast.For):
            for nm in names_of(n.target):
                out.setdefault(nm, []).append((n.iter, False))
        elif isinstance(n, ast.comprehension):
            for nm in names_of(n.target):
                out.setdefault(nm, []).append((n.iter, True))
        elif isinstance(n, ast.NamedExpr):
            out.setdefault(n.target.id, []).append((n.value, True))
        elif isinstance(n, ast.Call) and isinstance(n.func, ast.Attribute) and n.func.attr in ("append", "extend", "add", "update", "insert") and isinstance(n.func.value, ast.Name):
            for a in n.args:
                out.setdefault(n.func.value.id, []).append((a, True))
    return out


def whole_origins(fn: ast.AST, expr: ast.expr, max_steps: int = 600) -> Set[Tuple[str, bool]]:
    """(dotted name, whole?) pairs flowing into expr.  A flow through `x[i]`, a for-loop variable or next(..) is an *element* flow."""
    binds = _binding_sources_kinded(fn)
    res: Set[Tuple[str, bool]] = set()
    seen: Set[Tuple[str, bool]] = set()
    todo: List[Tuple[ast.AST, bool]] = [(expr, True)]
    steps = 0

    def visit(e: ast.AST, whole: bool):
        # yields (node, whole) for names/attribute chains inside e, demoting below index subscripts / next()
        if isinstance(e, ast.Subscript) and not isinstance(e.slice, ast.Slice):
            visit(e.value, False)
            return
        if isinstance(e, ast.Call) and call_name(e) in ("next", "min", "max", "random.choice"):
            for a in e.args:
                visit(a, False)
            return
        d = dotted(e) if isinstance(e, (ast.Attribute, ast.Name)) else None
        if d:
            parts = d.split(".")
            for k in range(1, len(parts) + 1):
                res.add((".".join(parts[:k]), whole))
            base = e
            while isinstance(base, ast.Attribute):
                base = base.value
            if isinstance(base, ast.Name):
                key = (base.id, whole)
                if key not in seen:
                    seen.add(key)
                    for s, w in binds.get(base.id, []):
                        todo.append((s, whole and w))
            return
        for c in ast.iter_child_nodes(e):
            visit(c, whole)

    while todo and steps < max_steps:
        steps += 1
        e, w = todo.pop()
        visit(e, w)
    return res


def clone(node: ast.AST) -> ast.AST:
    """Detached copy of an AST node (without the _parent/_module back links, which make copy.deepcopy copy the whole module)."""
    text = ast.unparse(node)
    if isinstance(node, ast.expr):
        return ast.parse(text, mode="eval").body
    return ast.parse(text).body[0]
