"""Obligations, known findings, evidence and the exit protocol (DESIGN.md section 7)."""

from __future__ import annotations

import json
import os
import sys
import time
import traceback
from dataclasses import dataclass, field, asdict
from typing import Callable, Dict, List, Optional

from .core import Repo, Unrecognised

VERIF = os.path.dirname(os.path.dirname(os.path.abspath(__file__)))
KNOWN = os.path.join(VERIF, "known_findings.json")


@dataclass
class Obligation:
    rule: str  # rule identifier, e.g. "C05.A1-arity"
    construct: str  # file:qualname of the construct examined
    key: str  # normalised expression / instance name (position independent)
    site: str  # file:line (for diagnosis only, never used as identity)
    status: str  # OK | VIOLATION | NOTE
    why: str

    def ident(self) -> tuple:
        return (self.rule, self.construct, self.key)


class Ctx:
    """Collects obligations of one property run."""

    def __init__(self, prop: str, tier: str, repo: Repo):
        self.prop = prop
        self.tier = tier
        self.repo = repo
        self.obligations: List[Obligation] = []
        self.errors: List[str] = []
        self.assumptions: List[str] = []
        self.inventory: Dict[str, object] = {}
        self.rule_counts: Dict[str, int] = {}

    def _add(self, status, rule, construct, key, site, why):
        self.obligations.append(Obligation(f"{self.prop}.{rule}", construct, key, site, status, why))
        self.rule_counts[rule] = self.rule_counts.get(rule, 0) + (status != "NOTE")

    def ok(self, rule, construct, key, site, why=""):
        self._add("OK", rule, construct, key, site, why)

    def viol(self, rule, construct, key, site, why):
        self._add("VIOLATION", rule, construct, key, site, why)

    def note(self, rule, construct, key, site, why):
        self._add("NOTE", rule, construct, key, site, why)

    def check(self, cond: bool, rule, construct, key, site, why_bad, why_ok=""):
        if cond:
            self.ok(rule, construct, key, site, why_ok)
        else:
            self.viol(rule, construct, key, site, why_bad)
        return cond

    def shape(self, cond: bool, rule, construct, key, site, why_bad, why_ok=""):
        """Like check(), for obligations decided by matching an exact code shape: when the shape is not the recognised one the checker cannot tell whether the
        property still holds, so the outcome is an ANALYSIS-ERROR (exit 2), never a VIOLATION - a behaviour-preserving rewrite must not raise an alarm."""
        if cond:
            self.ok(rule, construct, key, site, why_ok)
        else:
            self.errors.append(f"rule={self.prop}.{rule} anchor={construct} why=shape not recognised at {site}: [{key}] {why_bad}")
        return cond

    def assume(self, text: str):
        if text not in self.assumptions:
            self.assumptions.append(text)

    def floor(self, rule: str, minimum: int):
        """A rule that matched fewer instances than confirmed by hand must not pass vacuously."""
        n = self.rule_counts.get(rule, 0)
        if n < minimum:
            raise Unrecognised(rule, "instance floor", f"only {n} instances evaluated, expected >= {minimum}")

    def guarded(self, rule: str, fn: Callable[[], None]):
        """Run one rule; unrecognised shapes become analysis errors, not violations."""
        try:
            fn()
        except Unrecognised as exc:
            self.errors.append(f"rule={exc.rule} anchor={exc.anchor} why={exc.why}")
        except Exception as exc:  # internal error of the checker
            tb = traceback.format_exc(limit=6)
            self.errors.append(f"rule={rule} anchor=<internal> why={type(exc).__name__}: {exc}\n{tb}")


def load_known() -> List[dict]:
    if not os.path.isfile(KNOWN):
        return []
    with open(KNOWN) as fh:
        data = json.load(fh)
    return data.get("findings", [])


def finish(ctx: Ctx, explanation: str, t0: float, replay: Optional[dict] = None) -> int:
    prop = ctx.prop
    known = [k for k in load_known() if k.get("property") == prop and k.get("status") == "open"]
    known_ids = {(k["rule"], k["construct"], k["key"]) for k in known}

    viols = [o for o in ctx.obligations if o.status == "VIOLATION"]
    unlisted = [o for o in viols if o.ident() not in known_ids]
    listed = [o for o in viols if o.ident() in known_ids]
    oks = [o for o in ctx.obligations if o.status == "OK"]
    notes = [o for o in ctx.obligations if o.status == "NOTE"]

    ev_dir = os.environ.get("SA_EVIDENCE_DIR") or os.path.join(VERIF, "evidence")
    os.makedirs(os.path.join(ev_dir, "violations"), exist_ok=True)

    for o in listed:
        print(f"KNOWN-FINDING: property={prop} {o.rule} {o.construct} [{o.key}] {o.why}")
    # stale entries: listed but no longer violated -> informational
    cur_ids = {o.ident() for o in viols}
    for k in known:
        if (k["rule"], k["construct"], k["key"]) not in cur_ids:
            print(f"note: known finding no longer reproduced: {k['rule']} {k['construct']} [{k['key']}]")

    for i, o in enumerate(unlisted):
        path = os.path.join(ev_dir, "violations", f"{prop}-{i}.json")
        with open(path, "w") as fh:
            json.dump({"property": prop, **asdict(o)}, fh, indent=1)
        print(f"VIOLATION property={prop} replay={path}")
        print(f"  {o.site} {o.rule} {o.construct} [{o.key}]: {o.why}")

    for e in ctx.errors:
        print(f"ANALYSIS-ERROR property={prop} {e}")

    n_obl = len(oks) + len(viols)
    distinct = len({o.ident() for o in oks + viols})
    samples = [
        {"rule": o.rule, "construct": o.construct, "key": o.key, "site": o.site, "status": o.status, "why": o.why}
        for o in (viols + oks)[:40]
    ]
    evidence = {
        "property_id": prop,
        "tier": ctx.tier,
        "seed": int(os.environ.get("VERIF_SEED", "0") or 0),
        "level": "other",
        "coverage": {
            "explanation": explanation,
            "obligations": n_obl,
            "discharged": len(oks),
            "evaluations": max(n_obl, 0),
            "distinct_nontrivial": distinct,
            "rule": "each evaluation is one rule instance (rule, construct, normalised key) enumerated from /repo's working-tree AST; "
            "distinct = distinct (rule, construct, key) triples; all instances of every rule are enumerated",
            "samples": samples,
            "exhaustive": True,
            "rule_instance_counts": ctx.rule_counts,
            "notes": [asdict(o) for o in notes][:60],
            "inventory": ctx.inventory,
        },
        "assumptions": ctx.assumptions,
        "wall_s": round(time.time() - t0, 3),
        "violations": len(unlisted),
        "known_findings": [asdict(o) for o in listed],
        "analysis_errors": ctx.errors,
        "files": {p: ctx.repo.modules[p].sha256 for p in sorted(ctx.repo.consulted) if p in ctx.repo.modules},
    }
    with open(os.path.join(ev_dir, f"{prop}.json"), "w") as fh:
        json.dump(evidence, fh, indent=1, default=str)

    print(
        f"{prop} [{ctx.tier}]: {n_obl} obligations, {len(oks)} ok, {len(listed)} known findings, "
        f"{len(unlisted)} violations, {len(ctx.errors)} analysis errors, {len(notes)} notes"
    )
    if unlisted:
        return 1
    if ctx.errors:
        return 2
    return 0
