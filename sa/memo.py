"""Memo-key completeness: a dict cache inside a function must be keyed by every parameter the cached computation reads.

Pattern recognised (the repository's idiom):
    if KEY in CACHE:            # CACHE = self.<attr> or a module-level dict
        ... return <something built from CACHE[KEY]>
    ...
    CACHE[KEY] = result         # or CACHE.setdefault(KEY, ...)
A parameter of the function that is used in its body but does not flow into KEY makes the cache return the
result computed for another value of that parameter (stale verdicts when e.g. the same formula is evaluated under two grammars).
"""

from __future__ import annotations

import ast
from typing import List, Set, Tuple

from .core import Module, dotted, facts, origins, site, src, walk_local, call_name


def cache_sites(module: Module, fn: ast.FunctionDef) -> List[Tuple[ast.AST, ast.expr, str]]:
    """(node, key expr, cache text) for membership tests / loads / stores on dict caches in fn."""
    module_names = set(module.constants())
    out = []

    def is_cache(e: ast.AST) -> bool:
        d = dotted(e)
        if d is None:
            return False
        if d.startswith("self.") and d.count(".") == 1:
            return True
        return d in module_names

    for n in walk_local(fn):
        if isinstance(n, ast.Compare) and len(n.ops) == 1 and isinstance(n.ops[0], (ast.In, ast.NotIn)) and is_cache(n.comparators[0]):
            out.append((n, n.left, src(n.comparators[0])))
        elif isinstance(n, ast.Subscript) and is_cache(n.value) and isinstance(n.ctx, ast.Store):
            out.append((n, n.slice, src(n.value)))
        elif isinstance(n, ast.Call) and isinstance(n.func, ast.Attribute) and n.func.attr in ("setdefault", "get") and is_cache(n.func.value) and n.args:
            out.append((n, n.args[0], src(n.func.value)))
        elif isinstance(n, ast.Subscript) and is_cache(n.value) and isinstance(n.ctx, ast.Load) and _in_keyerror_try(n):
            # EAFP form of the membership test:  try: return CACHE[KEY]  except KeyError: ... CACHE[KEY] = / CACHE.setdefault(KEY, ...)
            out.append((_EafpLoad(n), n.slice, src(n.value)))
    return out


class _EafpLoad(ast.Compare):
    """A `CACHE[KEY]` load guarded by `except KeyError` - plays the role of the `KEY in CACHE` test (positions of the load)."""

    def __init__(self, sub: ast.Subscript):
        super().__init__(left=sub.slice, ops=[ast.In()], comparators=[sub.value])
        ast.copy_location(self, sub)
        self._parent = getattr(sub, "_parent", None)


def _in_keyerror_try(n: ast.AST) -> bool:
    cur, child = getattr(n, "_parent", None), n
    while cur is not None and not isinstance(cur, (ast.FunctionDef, ast.AsyncFunctionDef, ast.Lambda)):
        if isinstance(cur, ast.Try) and any(child is st for st in cur.body):
            for h in cur.handlers:
                names = {x.id for x in ast.walk(h.type) if isinstance(x, ast.Name)} if h.type is not None else set()
                if names & {"KeyError", "LookupError", "Exception"} or h.type is None:
                    return True
        cur, child = getattr(cur, "_parent", None), cur
    return False


LOSSY_METHODS = {"split", "strip", "lstrip", "rstrip", "lower", "upper", "casefold", "title", "swapcase", "expandtabs", "splitlines"}
LOSSY_FUNCS = {"hash", "len", "id", "repr", "abs", "round", "sorted", "set", "frozenset"}


def lossy_steps(fn: ast.AST, key: ast.expr) -> List[str]:
    """Non-injective transformations on the way from the parameters to the memo key (normalisations that merge different inputs)."""
    from .core import _binding_sources

    binds = _binding_sources(fn)
    out: List[str] = []
    seen = set()
    todo = [key]
    # parameters declared as mappings (a grammar is a dict): iterating one - tuple(g), sorted(g), frozenset(g), g.keys() - yields its KEYS only
    mapping_params = set()
    if isinstance(fn, (ast.FunctionDef, ast.AsyncFunctionDef)):
        for a in fn.args.args + fn.args.kwonlyargs:
            ann = src(a.annotation).replace("Optional[", "").strip('"') if a.annotation is not None else ""
            if ann.split("[")[0].split(".")[-1] in ("Grammar", "CanonicalGrammar", "Dict", "dict", "Mapping", "OrderedDict", "FrozenCanonicalGrammar"):
                mapping_params.add(a.arg)
    while todo:
        e = todo.pop()
        for n in ast.walk(e):
            if isinstance(n, ast.Call):
                if isinstance(n.func, ast.Attribute) and n.func.attr in LOSSY_METHODS:
                    out.append(src(n)[:50])
                elif isinstance(n.func, ast.Name) and n.func.id in LOSSY_FUNCS:
                    out.append(src(n)[:50])
                elif isinstance(n.func, ast.Name) and n.func.id in ("tuple", "list", "set", "frozenset", "sorted") and len(n.args) == 1 and isinstance(n.args[0], ast.Name) and n.args[0].id in mapping_params:
                    out.append(f"{src(n)[:40]} (keys of the mapping only)")
                elif isinstance(n.func, ast.Attribute) and n.func.attr == "keys" and isinstance(n.func.value, ast.Name) and n.func.value.id in mapping_params:
                    out.append(f"{src(n)[:40]} (keys of the mapping only)")
            if isinstance(n, ast.Name) and n.id not in seen:
                seen.add(n.id)
                todo.extend(binds.get(n.id, []))
    return out


def projection_only(fn: ast.AST, key: ast.expr, param: str) -> List[str]:
    """Attribute projections through which `param` reaches the key when it never reaches it as a whole value
    (e.g. key = tuple(x.formula for x in param)); [] if the parameter (or one of its elements) is in the key as a whole."""
    from .core import _binding_sources

    binds = _binding_sources(fn)
    exprs, seen, todo = [], set(), [key]
    while todo:
        e = todo.pop()
        exprs.append(e)
        for n in ast.walk(e):
            if isinstance(n, ast.Name) and n.id not in seen:
                seen.add(n.id)
                todo.extend(binds.get(n.id, []))
    aliases = {param}
    projections: List[str] = []
    whole = False
    changed = True
    while changed:
        changed = False
        for e in exprs:
            for comp in ast.walk(e):
                if isinstance(comp, (ast.ListComp, ast.SetComp, ast.GeneratorExp, ast.DictComp)):
                    for g in comp.generators:
                        # element variables of an iteration over the parameter (or over an attribute/call result of an alias) are aliases of its elements
                        roots = {x.id for x in ast.walk(g.iter) if isinstance(x, ast.Name)}
                        if isinstance(g.iter, ast.Name) and g.iter.id in aliases:
                            for t in ast.walk(g.target):
                                if isinstance(t, ast.Name) and t.id not in aliases and t.id != "_":
                                    aliases.add(t.id)
                                    changed = True
    for e in exprs:
        for n in ast.walk(e):
            if isinstance(n, ast.Name) and n.id in aliases and isinstance(n.ctx, ast.Load):
                par = getattr(n, "_parent", None)
                if isinstance(par, ast.Attribute) and par.value is n:
                    gp = getattr(par, "_parent", None)
                    if isinstance(gp, ast.Call) and gp.func is par:
                        whole = True  # method call on the value (judged by the lossy-step rule), not a field projection
                    else:
                        projections.append(f"{n.id}.{par.attr}")
                elif isinstance(par, ast.comprehension) and par.iter is n:
                    continue
                else:
                    whole = True
    return [] if whole else sorted(set(projections))


def check_memo_keys(ctx, rule: str, relpaths, min_sites: int = 1) -> int:
    n_sites = 0
    for rel in relpaths:
        m = ctx.repo.module(rel, rule)
        for q, fn in m.functions():
            if not isinstance(fn, ast.FunctionDef):
                continue
            sites = cache_sites(m, fn)
            # only functions that both test/load and store the same cache are memo functions
            caches = {}
            for node, key, cache in sites:
                caches.setdefault(cache, []).append((node, key))
            for cache, uses in caches.items():
                has_test = any(isinstance(n, ast.Compare) or (isinstance(n, ast.Call) and n.func.attr == "get") for n, _ in uses)
                has_store = any(isinstance(n, ast.Subscript) or (isinstance(n, ast.Call) and n.func.attr == "setdefault") for n, _ in uses)
                if not (has_test and has_store):
                    continue
                params = [a.arg for a in fn.args.args + fn.args.kwonlyargs if a.arg not in ("self", "cls")]
                used = {p for p in params if sum(1 for x in walk_local(fn) if isinstance(x, ast.Name) and x.id == p) > 0}
                for node, key in uses:
                    n_sites += 1
                    flows = origins(fn, key)
                    in_key = {p for p in used if p in flows}
                    # parameters only used to build the key itself do not count as 'read by the computation'
                    # a parameter whose value is fixed by the path condition of this cache site (separate caches per flag) is covered
                    fixed = {p for p in used for f in facts(node) if p in {x.id for x in ast.walk(ast.parse(f.text, mode="eval")) if isinstance(x, ast.Name)}}
                    missing = sorted(used - in_key - fixed)
                    # a class-level dict (shared by all instances) must also be keyed by the instance state the computation reads
                    if cache.startswith("self.") and _is_class_level(m, q, cache.split(".", 1)[1]):
                        attrs = sorted({src(x) for x in walk_local(fn) if isinstance(x, ast.Attribute) and isinstance(x.ctx, ast.Load) and isinstance(x.value, ast.Name) and x.value.id == "self"
                                        and src(x) != cache and not (isinstance(getattr(x, "_parent", None), ast.Call) and x._parent.func is x)})
                        not_in_key = [a for a in attrs if a not in flows]
                        ctx.check(not not_in_key, rule + "-shared", f"{rel}:{q}", f"{cache}[{src(key)[:40]}] vs instance state", site(node),
                                  f"{cache} is a class attribute, i.e. one dict shared by all instances, but the cached computation reads the instance state {not_in_key} which is not part of the key: "
                                  "a second instance (e.g. an emitter for another grammar) gets the results computed for the first one",
                                  "instance state read by the computation is part of the key")
                    # a key that contains only attribute projections of a parameter while the computation gets the parameter whole
                    key_nodes = set()
                    for kn in ast.walk(key):
                        key_nodes.add(id(kn))
                    for p_ in sorted(in_key):
                        proj = projection_only(fn, key, p_)
                        if not proj:
                            continue
                        passed_whole = [x for x in walk_local(fn) if isinstance(x, ast.Name) and x.id == p_ and isinstance(x.ctx, ast.Load) and isinstance(getattr(x, "_parent", None), ast.Call)
                                        and x in x._parent.args and not (isinstance(x._parent.func, ast.Name) and x._parent.func.id in ("len", "isinstance", "type"))]
                        recv_whole = [x for x in walk_local(fn) if isinstance(x, ast.Name) and x.id == p_ and isinstance(x.ctx, ast.Load) and id(x) not in key_nodes
                                      and isinstance(getattr(x, "_parent", None), ast.Attribute) and isinstance(getattr(x._parent, "_parent", None), ast.Call) and x._parent._parent.func is x._parent]
                        ann = next((src(a.annotation) for a in fn.args.args + fn.args.kwonlyargs if a.arg == p_ and a.annotation is not None), "")
                        if (passed_whole or recv_whole) and all(pr.split(".")[-1] == "id" for pr in proj) and "DerivationTree" in ann:
                            use = (passed_whole or recv_whole)[0]
                            ctx.viol(rule + "-tree-id", f"{rel}:{q}", f"{cache}[{src(key)[:40]}] keyed by a tree id", site(node),
                                     f"the memo {cache} is keyed by the id of the tree `{p_}` but caches something computed from the tree's structure (`{src(use._parent if use in passed_whole else use._parent._parent)[:60]}`): "
                                     "replace_path / substitute keep the id of every ancestor of the changed subtree, so a tree derived from one that was already seen has the same id and gets the stale entry")
                            continue
                        if passed_whole or recv_whole:
                            passed_whole = passed_whole or [recv_whole[0]._parent]
                            from .core import Unrecognised

                            raise Unrecognised(rule, f"{rel}:{q}", f"the memo {cache} is keyed only by the projections {proj} of the parameter `{p_}`, but the cached computation receives `{p_}` whole "
                                               f"(`{src(passed_whole[0]._parent)[:70]}`): whether these projections determine the result (e.g. the closed parts of substitution trees, not only the ids of "
                                               "their open leaves) cannot be decided statically; two arguments that agree on the projections would share one cache entry")
                    lossy = lossy_steps(fn, key)
                    ctx.check(not lossy, rule + "-lossy", f"{rel}:{q}", f"{cache}[{src(key)[:40]}] injective", site(node),
                              f"the memo key is built with the non-injective step(s) {lossy[:3]}: two different arguments that normalise to the same key share one cache entry, "
                              "and the second one gets the first one's result (e.g. two BNF texts that differ only in whitespace inside a quoted terminal)",
                              "key is not a normalisation of the argument")
                    ctx.check(not missing, rule, f"{rel}:{q}", f"{cache}[{src(key)[:40]}]", site(node),
                              f"the memo {cache} is keyed by `{src(key)}` but the cached computation also reads the parameter(s) {missing}: a later call with another value of "
                              f"{missing} gets the result computed for the first one (e.g. the same constraint object evaluated under a second grammar)",
                              "every parameter read by the computation flows into the key")
    return n_sites


def _is_class_level(m: Module, qualname: str, attr: str) -> bool:
    cls_name = qualname.split(".")[0]
    cls = m.get(cls_name)
    if not isinstance(cls, ast.ClassDef):
        return False
    in_body = any((isinstance(st, ast.Assign) and any(isinstance(t, ast.Name) and t.id == attr for t in st.targets)) or (isinstance(st, ast.AnnAssign) and isinstance(st.target, ast.Name) and st.target.id == attr) for st in cls.body)
    init = m.get(f"{cls_name}.__init__")
    in_init = isinstance(init, ast.FunctionDef) and any(isinstance(n, ast.Attribute) and isinstance(n.ctx, ast.Store) and n.attr == attr and isinstance(n.value, ast.Name) and n.value.id == "self" for n in ast.walk(init))
    return in_body and not in_init


MUTATING_METHODS = {"update", "append", "extend", "add", "pop", "clear", "setdefault", "insert", "remove", "discard", "popitem", "sort", "reverse", "__setitem__", "__ior__"}
_MUT_RET = ("Dict", "dict", "Grammar", "CanonicalGrammar", "List", "list", "Set", "set", "OrderedSet", "defaultdict")


def cached_functions(module: Module):
    """(qualname, fn) for functions decorated with functools' lru_cache / cache."""
    out = []
    for q, fn in module.functions():
        if not isinstance(fn, ast.FunctionDef):
            continue
        for d in fn.decorator_list:
            t = src(d)
            if t.split("(")[0].split(".")[-1] in ("lru_cache", "cache"):
                out.append((q, fn))
    return out


def _returns_mutable(fn: ast.FunctionDef) -> bool:
    ann = src(fn.returns) if fn.returns is not None else ""
    import re as _re

    if ann:
        head = _re.split(r"[\[|]", ann.replace("Optional[", "").replace("typing.", ""))[0].strip().strip('"')
        return head in _MUT_RET
    for r in walk_local(fn):
        if isinstance(r, ast.Return) and isinstance(r.value, (ast.Dict, ast.List, ast.Set, ast.DictComp, ast.ListComp, ast.SetComp)):
            return True
    return False


def _mutations_of(scope: ast.AST, target: str):
    hits = []
    for n in ast.walk(scope):
        if isinstance(n, ast.AugAssign) and src(n.target) == target and isinstance(n.op, (ast.BitOr, ast.Add, ast.BitAnd, ast.Sub)):
            hits.append(n)
        elif isinstance(n, (ast.Assign, ast.Delete)):
            tg = n.targets
            for t in tg:
                if isinstance(t, ast.Subscript) and src(t.value) == target:
                    hits.append(n)
        elif isinstance(n, ast.Call) and isinstance(n.func, ast.Attribute) and n.func.attr in MUTATING_METHODS and src(n.func.value) == target:
            hits.append(n)
    return hits


def check_cached_returns(ctx, rule: str, def_relpaths, use_relpaths) -> int:
    """A function memoised with lru_cache/cache hands the SAME object to every caller: if it returns a mutable container and some caller changes it in place,
    every later caller (with equal arguments) gets the changed object."""
    cached = {}
    for rel in def_relpaths:
        m = ctx.repo.module(rel, rule)
        for q, fn in cached_functions(m):
            if _returns_mutable(fn):
                cached[fn.name] = (rel, q, fn)
    n = 0
    for rel in use_relpaths:
        m = ctx.repo.module(rel, rule)
        for q, fn in m.functions():
            if not isinstance(fn, ast.FunctionDef):
                continue
            for a in walk_local(fn):
                if not (isinstance(a, (ast.Assign, ast.AnnAssign, ast.AugAssign)) and a.value is not None):
                    continue
                calls = [c for c in ast.walk(a.value) if isinstance(c, ast.Call) and isinstance(c.func, (ast.Name, ast.Attribute)) and (c.func.id if isinstance(c.func, ast.Name) else c.func.attr) in cached]
                # only direct results: `x = f(...)`, `x = f(...) if c else y`, `self.a = f(...)`
                direct = [c for c in calls if c is a.value or (isinstance(a.value, ast.IfExp) and c in (a.value.body, a.value.orelse))]
                if not direct:
                    continue
                tgt = a.targets[0] if isinstance(a, ast.Assign) else a.target
                tname = src(tgt)
                n += 1
                scope = fn
                if tname.startswith("self."):
                    cls = m.get(q.split(".")[0])
                    scope = cls if isinstance(cls, ast.ClassDef) else fn
                muts = [x for x in _mutations_of(scope, tname) if x is not a]
                fname = direct[0].func.id if isinstance(direct[0].func, ast.Name) else direct[0].func.attr
                drel, dq, _ = cached[fname]
                ctx.check(not muts, rule, f"{rel}:{q}", f"{tname} = {fname}(...) not mutated in place", site(a),
                          f"`{fname}` ({drel}) is memoised (lru_cache) and returns a mutable container; its result is bound to `{tname}` and changed in place at line "
                          f"{getattr(muts[0], 'lineno', '?') if muts else '?'} (`{' '.join(src(muts[0]).split())[:60] if muts else ''}`): the cached object itself is modified, so the next call with the same "
                          "argument returns the modified container (e.g. parse_bnf(text) after ISLaSolver(text, ...) added a rule to its grammar)", "results of memoised functions are copied before they are modified")
    # a SHALLOW copy of a memoised nested container (a grammar: dict of lists) still shares the inner lists with the cache
    nested = {name for name, (_, _, fn_) in cached.items() if fn_.returns is not None and (
        src(fn_.returns).replace("Optional[", "").strip('"').split("[")[0] in ("Grammar", "CanonicalGrammar") or _re_nested(src(fn_.returns)))}
    for rel in use_relpaths:
        m = ctx.repo.module(rel, rule)
        for q, fn in m.functions():
            if not isinstance(fn, ast.FunctionDef):
                continue
            for r in [x for x in walk_local(fn) if isinstance(x, ast.Return) and x.value is not None]:
                v = r.value
                shallow = None
                if isinstance(v, ast.Call) and isinstance(v.func, ast.Name) and v.func.id in ("dict", "list", "OrderedDict") and len(v.args) == 1:
                    shallow = v.args[0]
                elif isinstance(v, ast.Call) and isinstance(v.func, ast.Attribute) and v.func.attr == "copy" and not v.args:
                    shallow = v.func.value
                elif isinstance(v, ast.Call) and call_name(v) == "copy.copy" and len(v.args) == 1:
                    shallow = v.args[0]
                if isinstance(shallow, ast.Call) and isinstance(shallow.func, ast.Name) and shallow.func.id in nested:
                    n += 1
                    ctx.viol(rule + "-shallow", f"{rel}:{q}", f"{' '.join(src(v).split())[:50]} shares inner containers with the cache", site(r),
                             f"`{shallow.func.id}` is memoised and returns a nested mutable container ({src(cached[shallow.func.id][2].returns)}); `{' '.join(src(v).split())[:60]}` copies only the outer level, "
                             "so the lists of alternatives handed to the caller ARE the cached ones: a caller that appends an alternative changes what every later call with the same text returns")
    ctx.inventory[f"{rule}_cached_mutable_functions"] = sorted(cached)
    return n


def _re_nested(ann: str) -> bool:
    import re as _re

    return bool(_re.search(r"(Dict|dict|List|list)\[.*(List|list|Dict|dict|Set|set)\[", ann))


def check_cached_grammar_projection(ctx, rule: str, relpaths) -> int:
    """A module-level lru_cache'd helper called from a function that has a grammar / graph parameter with arguments that are only PROJECTIONS of that parameter
    (graph.get_node(x), grammar[x], ...) is keyed without the grammar: grammar-graph nodes and symbols compare by name, so answers leak from one grammar to the next."""
    n = 0
    for rel in relpaths:
        m = ctx.repo.module(rel, rule)
        cached = {fn.name: fn for q, fn in cached_functions(m) if "." not in q}
        if not cached:
            continue
        for q, fn in m.functions():
            if not isinstance(fn, ast.FunctionDef) or fn.name in cached:
                continue
            gparams = [a.arg for a in fn.args.args if a.arg in ("graph", "grammar", "canonical_grammar")]
            if not gparams:
                continue
            for c in [x for x in walk_local(fn) if isinstance(x, ast.Call) and isinstance(x.func, ast.Name) and x.func.id in cached]:
                n += 1
                def is_whole(a):
                    # the parameter itself, or a conversion of it (f(grammar)): the complete grammar is part of the key
                    return (isinstance(a, ast.Name) and a.id in gparams) or (isinstance(a, ast.Call) and any(isinstance(x, ast.Name) and x.id in gparams for x in a.args))

                whole = any(is_whole(a) for a in c.args) or any(is_whole(k.value) for k in c.keywords)
                proj = [a for a in c.args if any(isinstance(y, ast.Name) and y.id in gparams for y in ast.walk(a)) and not (isinstance(a, ast.Name) and a.id in gparams)]
                ctx.check(whole or not proj, rule, f"{rel}:{q}", f"{c.func.id}(...) keyed by the grammar it was asked about", site(c),
                          f"`{c.func.id}` is memoised per process (lru_cache) and is called with `{src(proj[0])[:40] if proj else ''}`, a projection of `{gparams[0]}`, but not with `{gparams[0]}` itself: "
                          "graph nodes / symbols compare by name, so an answer computed for one grammar is returned for another grammar with the same nonterminal names "
                          "(count completion then trusts a stale 'cannot reach the needle')", "grammar / graph is part of the cached function's arguments")
    return n
