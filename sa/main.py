"""./check <property> [--tier quick|thorough] [--replay file]

Exit 0: every obligation holds (after listed known findings).
Exit 1: VIOLATION lines printed.
Exit 2: ANALYSIS-ERROR (vanished anchor / unrecognised shape / internal error).
"""

from __future__ import annotations

import argparse
import importlib
import json
import os
import sys
import time
import traceback

from .core import Repo, REPO_ROOT
from .report import Ctx, finish


def anchor_files(prop: str):
    here = os.path.dirname(os.path.dirname(os.path.abspath(__file__)))
    try:
        with open(os.path.join(here, "properties.jsonl")) as fh:
            for line in fh:
                d = json.loads(line)
                if d.get("id") == prop:
                    return [f for f in d.get("anchors", {}).get("files", []) if f.endswith(".py")]
    except OSError:
        pass
    return []


def main(argv=None) -> int:
    ap = argparse.ArgumentParser()
    ap.add_argument("property")
    ap.add_argument("--tier", default=os.environ.get("VERIF_TIER", "quick"), choices=["quick", "thorough"])
    ap.add_argument("--replay", default=None)
    ap.add_argument("--repo", default=REPO_ROOT)
    args = ap.parse_args(argv)
    t0 = time.time()
    prop = args.property.upper()
    try:
        mod = importlib.import_module(f"sa.rules.{prop.lower()}")
    except ModuleNotFoundError:
        print(f"ANALYSIS-ERROR property={prop} rule=dispatch anchor=sa.rules.{prop.lower()} why=no rule module")
        return 2
    repo = Repo(args.repo)
    ctx = Ctx(prop, args.tier, repo)
    try:
        explanation = mod.run(ctx)
        if args.tier == "thorough" and hasattr(mod, "run_thorough"):
            mod.run_thorough(ctx)
        if args.tier == "thorough":
            from . import selfcheck
            from .generic import run_generic

            selfcheck.run_fixtures(ctx, mod)
            # generic hazard lints over every file the property is anchored in (properties.jsonl)
            run_generic(ctx, anchor_files(prop))
    except Exception as exc:  # never let a traceback masquerade as exit 1
        ctx.errors.append(f"rule=<driver> anchor=<internal> why={type(exc).__name__}: {exc}\n{traceback.format_exc(limit=8)}")
        explanation = getattr(mod, "EXPLANATION", "driver failed")
    if args.replay:
        with open(args.replay) as fh:
            want = json.load(fh)
        ident = (want["rule"], want["construct"], want["key"])
        ctx.obligations = [o for o in ctx.obligations if o.ident() == ident]
        for o in ctx.obligations:
            print(f"replay: {o.site} {o.rule} {o.construct} [{o.key}] -> {o.status}: {o.why}")
        if not ctx.obligations:
            print("replay: instance no longer present on the current tree")
        bad = [o for o in ctx.obligations if o.status == "VIOLATION"]
        if bad:
            print(f"VIOLATION property={prop} replay={args.replay}")
            return 1
        return 0
    return finish(ctx, explanation, t0)


if __name__ == "__main__":
    try:
        rc = main()
    except SystemExit:
        raise
    except BaseException as exc:  # pragma: no cover
        print(f"ANALYSIS-ERROR property=? rule=<main> anchor=<internal> why={type(exc).__name__}: {exc}")
        rc = 2
    sys.exit(rc)
