"""Generic repository-wide lints (thorough tier): each encodes a hazard that broke a property at least once in the seeded changes or in the
repository's own history, as a rule over ANY module handed in - the quick tier applies them only to the functions a property names."""

from __future__ import annotations

import ast
from typing import List

from .core import Unrecognised, call_name, calls_in, facts, has_fact, site, src, walk_local
from .memo import cached_functions, check_cached_grammar_projection, check_cached_returns, check_memo_keys


def _qual(node) -> str:
    names = []
    cur = getattr(node, "_parent", None)
    while cur is not None:
        if isinstance(cur, (ast.FunctionDef, ast.ClassDef, ast.AsyncFunctionDef)):
            names.append(cur.name)
        cur = getattr(cur, "_parent", None)
    return ".".join(reversed(names)) or "<module>"


def shared_accumulator_sites(tree: ast.Module):
    """(function, parameter, assignment, kind) for parameters that are ACCUMULATORS - mutated in place and handed on to recursive calls of the same function - and
    are given their default inside the body.  kind = 'none-test' for `p = X if p is None else p` / `if p is None: p = X`; 'truthiness' for `p = p or X` / `if not p: p = X`:
    an accumulator that is still EMPTY is falsy, so the truthiness form silently replaces the caller's container by a private one and the sharing is lost."""
    out = []
    for fn in [n for n in ast.walk(tree) if isinstance(n, ast.FunctionDef)]:
        params = {a.arg for a in fn.args.args + fn.args.kwonlyargs}
        for p in sorted(params):
            mutated = any((isinstance(x, ast.Subscript) and isinstance(x.ctx, ast.Store) and isinstance(x.value, ast.Name) and x.value.id == p)
                          or (isinstance(x, ast.Call) and isinstance(x.func, ast.Attribute) and isinstance(x.func.value, ast.Name) and x.func.value.id == p
                              and x.func.attr in ("setdefault", "append", "add", "update", "extend", "insert")) for x in walk_local(fn))
            handed_on = any(isinstance(x, ast.Call) and call_name(x) == fn.name and any(isinstance(a, ast.Name) and a.id == p for a in list(x.args) + [k.value for k in x.keywords])
                            for x in walk_local(fn))
            if not (mutated and handed_on):
                continue
            for st in walk_local(fn):
                if isinstance(st, ast.Assign) and len(st.targets) == 1 and isinstance(st.targets[0], ast.Name) and st.targets[0].id == p:
                    v = st.value
                    par = getattr(st, "_parent", None)
                    if isinstance(v, ast.BoolOp) and isinstance(v.op, ast.Or) and isinstance(v.values[0], ast.Name) and v.values[0].id == p:
                        out.append((fn, p, st, "truthiness"))
                    elif isinstance(v, ast.IfExp):
                        t = " ".join(src(v.test).split())
                        if t in (f"{p} is None", f"{p} is not None", f"None is {p}"):
                            out.append((fn, p, st, "none-test"))
                        elif t in (p, f"not {p}"):
                            out.append((fn, p, st, "truthiness"))
                    elif isinstance(par, ast.If) and st in par.body:
                        t = " ".join(src(par.test).split())
                        if t == f"{p} is None":
                            out.append((fn, p, st, "none-test"))
                        elif t == f"not {p}":
                            out.append((fn, p, st, "truthiness"))
    return out


def _bool_position(n: ast.AST) -> bool:
    """Is the value of expression node `n` only used for its truthiness?"""
    par = getattr(n, "_parent", None)
    if isinstance(par, ast.UnaryOp) and isinstance(par.op, ast.Not):
        return True
    if isinstance(par, (ast.If, ast.While, ast.IfExp, ast.Assert)) and par.test is n:
        return True
    if isinstance(par, ast.BoolOp):
        # the last operand of `a or b` / `a and b` is passed on as a value unless the BoolOp itself is in boolean position
        return par.values[-1] is not n or _bool_position(par)
    if isinstance(par, ast.comprehension) and n in par.ifs:
        return True
    if isinstance(par, ast.Call) and isinstance(par.func, ast.Name) and par.func.id == "bool" and n in par.args:
        return True
    if isinstance(par, (ast.GeneratorExp, ast.ListComp, ast.SetComp)) and par.elt is n:
        g = getattr(par, "_parent", None)
        return isinstance(g, ast.Call) and isinstance(g.func, ast.Name) and g.func.id in ("any", "all") and par in g.args
    return False


def optional_path_truthiness_sites(fn: ast.AST, source_attr: str = "find_node"):
    """[(node, how)] - places where an Optional[Path] obtained from `.find_node(...)` is tested by TRUTHINESS.  The root path is the empty tuple `()`, which is falsy: such a
    test treats 'the node is the root' like 'the node is not in the tree' (the docstring of find_node says so: use `is None`).  Tracks the value through assignments, tuples in
    list/generator displays, dict displays, `.items()` / `.values()` iteration, element aliases and constant subscripts.  Unknown flows are not followed (no report)."""
    scalars, elem_alias, containers = {}, {}, {}   # name -> call ; name -> (tuple position|None) ; name -> kind ('elem', ('tuple', i), 'dictvalue')
    found = []
    nodes = []
    todo = list(ast.iter_child_nodes(fn))
    while todo:  # lambdas belong to the enclosing function; nested defs are visited on their own
        x = todo.pop()
        nodes.append(x)
        if not isinstance(x, (ast.FunctionDef, ast.AsyncFunctionDef, ast.ClassDef)):
            todo.extend(ast.iter_child_nodes(x))
    srcs = [c for c in nodes if isinstance(c, ast.Call) and isinstance(c.func, ast.Attribute) and c.func.attr == source_attr]

    def container_kind(call):
        """climb from the call to the display it is an element of: returns (kind, display node) or (None, None)"""
        cur, kind = call, "elem"
        while True:
            par = getattr(cur, "_parent", None)
            if isinstance(par, ast.IfExp) and cur in (par.body, par.orelse):
                cur = par
                continue
            if isinstance(par, ast.Tuple) and kind == "elem":
                kind = ("tuple", par.elts.index(cur))
                cur = par
                continue
            if isinstance(par, (ast.ListComp, ast.SetComp, ast.GeneratorExp)) and par.elt is cur:
                return kind, par
            if isinstance(par, (ast.List, ast.Set)) and cur in par.elts:
                return kind, par
            if isinstance(par, ast.DictComp) and par.value is cur and kind == "elem":
                return "dictvalue", par
            if isinstance(par, ast.Dict) and cur in par.values and kind == "elem":
                return "dictvalue", par
            return None, None

    def bound_name(expr):
        par = getattr(expr, "_parent", None)
        while isinstance(par, ast.Call) and isinstance(par.func, ast.Name) and par.func.id in ("list", "tuple", "dict", "sorted") and expr in par.args:
            expr, par = par, getattr(par, "_parent", None)
        if isinstance(par, ast.Assign) and par.value is expr and len(par.targets) == 1 and isinstance(par.targets[0], ast.Name):
            return par.targets[0].id
        if isinstance(par, ast.AnnAssign) and par.value is expr and isinstance(par.target, ast.Name):
            return par.target.id
        if isinstance(par, ast.NamedExpr) and par.value is expr:
            return par.target.id
        return None

    for c in srcs:
        if _bool_position(c):
            found.append((c, f"`{' '.join(src(c).split())[:50]}` itself"))
            continue
        nm = bound_name(c)
        if nm:
            scalars[nm] = c
            continue
        kind, disp = container_kind(c)
        if kind:
            nm = bound_name(disp)
            if nm:
                containers[nm] = kind
    # iteration over tainted containers
    for n in nodes:
        gens = []
        if isinstance(n, ast.For):
            gens.append((n.target, n.iter))
        elif isinstance(n, ast.comprehension):
            gens.append((n.target, n.iter))
        for tgt, it in gens:
            base, via = it, None
            if isinstance(it, ast.Call) and isinstance(it.func, ast.Attribute) and it.func.attr in ("items", "values") and not it.args:
                base, via = it.func.value, it.func.attr
            if not (isinstance(base, ast.Name) and base.id in containers):
                continue
            kind = containers[base.id]
            if kind == "dictvalue":
                if via == "items" and isinstance(tgt, ast.Tuple) and len(tgt.elts) == 2 and isinstance(tgt.elts[1], ast.Name):
                    scalars[tgt.elts[1].id] = base
                elif via == "values" and isinstance(tgt, ast.Name):
                    scalars[tgt.id] = base
            elif via is None:
                if kind == "elem" and isinstance(tgt, ast.Name):
                    scalars[tgt.id] = base
                elif isinstance(kind, tuple):
                    if isinstance(tgt, ast.Tuple) and kind[1] < len(tgt.elts) and isinstance(tgt.elts[kind[1]], ast.Name):
                        scalars[tgt.elts[kind[1]].id] = base
                    elif isinstance(tgt, ast.Name):
                        elem_alias[tgt.id] = kind[1]
    for n in nodes:
        if isinstance(n, ast.Name) and isinstance(n.ctx, ast.Load) and n.id in scalars and _bool_position(n):
            found.append((n, f"`{n.id}` (a path returned by {source_attr})"))
        elif isinstance(n, ast.Subscript) and isinstance(n.ctx, ast.Load) and isinstance(n.value, ast.Name) and _bool_position(n):
            if n.value.id in elem_alias and isinstance(n.slice, ast.Constant) and n.slice.value == elem_alias[n.value.id]:
                found.append((n, f"`{src(n)}` (the path component of an element)"))
            elif n.value.id in containers and containers[n.value.id] == "dictvalue":
                found.append((n, f"`{src(n)}` (a path stored in the mapping)"))
    return found, len(srcs)


def check_optional_path_truthiness(ctx, rule: str, relpaths, min_sources: int = 0) -> int:
    total = 0
    for rel in relpaths:
        m = ctx.repo.module(rel, rule)
        for q, fn in m.functions():
            if not isinstance(fn, ast.FunctionDef):
                continue
            found, n = optional_path_truthiness_sites(fn)
            total += n
            for node, how in found:
                ctx.viol(rule, f"{rel}:{q}", f"path from find_node tested with `is None`, not by truthiness: {how[:60]}", site(node),
                         f"{how} is tested by truthiness, but the path of the ROOT is the empty tuple `()` and therefore falsy: a node that IS the root of the context tree "
                         "(e.g. `start` passed to inside/nth/direct_child) is treated as 'not found' (find_node's docstring: use `is None`)")
            if n and not found:
                ctx.ok(rule, f"{rel}:{q}", "paths from find_node never tested by truthiness", site(fn), f"{n} find_node call(s)")
    if total < min_sources:
        raise Unrecognised(rule, ",".join(relpaths), f"only {total} find_node calls found (expected >= {min_sources})")
    return total


def check_shared_accumulators(ctx, rule: str, relpaths) -> int:
    n = 0
    for rel in relpaths:
        m = ctx.repo.module(rel, rule)
        for fn, p, st, kind in shared_accumulator_sites(m.tree):
            n += 1
            ctx.check(kind == "none-test", rule, f"{rel}:{_qual(st)}", f"accumulator `{p}` defaulted only when it is None", site(st),
                      f"`{' '.join(src(st).split())[:70]}` replaces the accumulator `{p}` whenever it is falsy: the caller's container is EMPTY at the first call, so every recursive call "
                      f"gets a private one and entries recorded by one branch are invisible to its siblings (distinct sub-formulas receive the same fresh placeholder)",
                      "replaced only when None")
    return n


def run_generic(ctx, relpaths: List[str], prefix: str = "X") -> None:
    from .callgraph import SRC_ISLA
    from .rules.c20 import late_binding_sites

    relpaths = [r for r in dict.fromkeys(relpaths) if r.endswith(".py") and ctx.repo.exists(r)]
    if not relpaths:
        return
    ctx.inventory["generic_lints_over"] = relpaths
    # X1: dict memos (missing parameter / lossy normalisation / class-level dict / projection-only key)
    # derivation_tree.py is left to C16/C03 (per-tree memo fields: one grammar per tree, triaged in DESIGN section 10 - k_paths keyed by k only)
    memo_paths = [r for r in relpaths if r != "src/isla/derivation_tree.py"]
    ctx.guarded(f"{prefix}1", lambda: ctx.inventory.__setitem__("generic_memo_sites", check_memo_keys(ctx, f"{prefix}1-memo-key", memo_paths)))
    # X2: results of memoised functions changed in place by callers in these modules
    ctx.guarded(f"{prefix}2", lambda: check_cached_returns(ctx, f"{prefix}2-cached-mutable", SRC_ISLA, relpaths))
    # X3: memoised helpers called with projections of a grammar/graph parameter
    ctx.guarded(f"{prefix}3", lambda: check_cached_grammar_projection(ctx, f"{prefix}3-cache-without-grammar", relpaths))

    def x4():
        for rel in relpaths:
            m = ctx.repo.module(rel, f"{prefix}4")
            # memoised functions returning freshly built tree nodes
            for q, fn in cached_functions(m):
                hits = [c for r in ast.walk(fn) if isinstance(r, ast.Return) and r.value is not None for c in ast.walk(r.value)
                        if isinstance(c, ast.Call) and (call_name(c) or "").split(".")[-1] in ("DerivationTree", "from_parse_tree")]
                ctx.check(not hits, f"{prefix}4-cached-nodes", f"{rel}:{q}", "memoised function does not return freshly built tree nodes", site(fn),
                          f"`{q}` is memoised and returns nodes it builds: all callers share the same node objects (ids)", "nodes are created per use")
            # closures over loop variables that are stored
            for loop, lam, cap, stmt in late_binding_sites(m.tree):
                ctx.viol(f"{prefix}4-late-binding", f"{rel}:{_qual(lam)}", f"closure over loop variable(s) {cap}", site(lam),
                         f"`{' '.join(src(lam).split())[:70]}` is stored by a loop while reading {cap}: every stored closure sees the last value")
            for sub in [x for x in ast.walk(m.tree) if isinstance(x, ast.Subscript) and isinstance(x.slice, ast.Slice)]:
                lo = sub.slice.lower
                if sub.slice.upper is None and isinstance(lo, ast.UnaryOp) and isinstance(lo.op, ast.USub) and not isinstance(lo.operand, ast.Constant):
                    w = src(lo.operand)
                    fs = facts(sub)
                    pos = has_fact(fs, f"{w} > 0") or has_fact(fs, f"{w} >= 1") or has_fact(fs, f"{w} != 0") or has_fact(fs, f"{w} == 0", False) or has_fact(fs, w)
                    ctx.check(pos, f"{prefix}4-negative-slice", f"{rel}:{_qual(sub)}", f"{src(sub)[:50]} with {w} known non-zero", site(sub),
                              f"`{src(sub)}` is the WHOLE sequence for {w} == 0", "guarded by a non-zero test")
            for z in [x for x in ast.walk(m.tree) if isinstance(x, ast.Call) and call_name(x) == "zip" and len(x.args) == 2 and all(src(a).endswith(".children") for a in x.args)]:
                fs = facts(z)
                ok = any(("len(" in f_.text and "children" in f_.text) for f_ in fs)
                par = getattr(z, "_parent", None)
                # zip(... or [], ... or []) style parallel walks that tolerate different lengths on purpose are written with `or []`: only plain attribute pairs are judged
                ctx.check(ok, f"{prefix}4-zip-children", f"{rel}:{_qual(z)}", f"{src(z)} only after a length comparison", site(z),
                          f"`{src(z)}` pairs children up to the shorter list; no length comparison dominates it", "dominated by a length comparison")

    ctx.guarded(f"{prefix}4", x4)

    def x5():
        # a non-empty tuple display in a boolean position is constantly true: `if not (a and b,): continue` never continues.  Reported as a NOTE (dead guard): whether
        # the dead guard matters for a property is decided by that property's own rules.
        n = 0
        for rel in relpaths:
            m = ctx.repo.module(rel, f"{prefix}5")
            for node in ast.walk(m.tree):
                tests = []
                if isinstance(node, (ast.If, ast.While, ast.IfExp, ast.Assert)):
                    tests.append(node.test)
                elif isinstance(node, ast.UnaryOp) and isinstance(node.op, ast.Not):
                    tests.append(node.operand)
                elif isinstance(node, ast.BoolOp):
                    tests.extend(node.values)
                elif isinstance(node, ast.comprehension):
                    tests.extend(node.ifs)
                for t in tests:
                    n += 1
                    if isinstance(t, ast.Tuple) and t.elts:
                        ctx.note(f"{prefix}5-tuple-condition", f"{rel}:{_qual(t)}", " ".join(src(t).split())[:60], site(t),
                                 "a non-empty tuple is always true: the guard built from it is dead (trailing comma?)")
        ctx.inventory["generic_boolean_positions"] = n

    ctx.guarded(f"{prefix}5", x5)
    ctx.guarded(f"{prefix}7", lambda: ctx.inventory.__setitem__("generic_find_node_calls", check_optional_path_truthiness(ctx, f"{prefix}7-root-path-falsy", relpaths)))
    ctx.guarded(f"{prefix}6", lambda: ctx.inventory.__setitem__("generic_accumulators", check_shared_accumulators(ctx, f"{prefix}6-shared-accumulator", relpaths)))
