"""Generic repository-wide lints (thorough tier): each encodes a hazard that broke a property at least once in the seeded changes or in the
repository's own history, as a rule over ANY module handed in - the quick tier applies them only to the functions a property names."""

from __future__ import annotations

import ast
from typing import List

from .core import Unrecognised, call_name, calls_in, facts, has_fact, site, src, walk_local
from .memo import cached_functions, check_cached_grammar_projection, check_cached_returns, check_memo_keys


def _qual(node) -> str:
    names = []
    cur = getattr(node, "_parent", None)
    while cur is not None:
        if isinstance(cur, (ast.FunctionDef, ast.ClassDef, ast.AsyncFunctionDef)):
            names.append(cur.name)
        cur = getattr(cur, "_parent", None)
    return ".".join(reversed(names)) or "<module>"


def run_generic(ctx, relpaths: List[str], prefix: str = "X") -> None:
    from .callgraph import SRC_ISLA
    from .rules.c20 import late_binding_sites

    relpaths = [r for r in dict.fromkeys(relpaths) if r.endswith(".py") and ctx.repo.exists(r)]
    if not relpaths:
        return
    ctx.inventory["generic_lints_over"] = relpaths
    # X1: dict memos (missing parameter / lossy normalisation / class-level dict / projection-only key)
    # derivation_tree.py is left to C16/C03 (per-tree memo fields: one grammar per tree, triaged in DESIGN section 10 - k_paths keyed by k only)
    memo_paths = [r for r in relpaths if r != "src/isla/derivation_tree.py"]
    ctx.guarded(f"{prefix}1", lambda: ctx.inventory.__setitem__("generic_memo_sites", check_memo_keys(ctx, f"{prefix}1-memo-key", memo_paths)))
    # X2: results of memoised functions changed in place by callers in these modules
    ctx.guarded(f"{prefix}2", lambda: check_cached_returns(ctx, f"{prefix}2-cached-mutable", SRC_ISLA, relpaths))
    # X3: memoised helpers called with projections of a grammar/graph parameter
    ctx.guarded(f"{prefix}3", lambda: check_cached_grammar_projection(ctx, f"{prefix}3-cache-without-grammar", relpaths))

    def x4():
        for rel in relpaths:
            m = ctx.repo.module(rel, f"{prefix}4")
            # memoised functions returning freshly built tree nodes
            for q, fn in cached_functions(m):
                hits = [c for r in ast.walk(fn) if isinstance(r, ast.Return) and r.value is not None for c in ast.walk(r.value)
                        if isinstance(c, ast.Call) and (call_name(c) or "").split(".")[-1] in ("DerivationTree", "from_parse_tree")]
                ctx.check(not hits, f"{prefix}4-cached-nodes", f"{rel}:{q}", "memoised function does not return freshly built tree nodes", site(fn),
                          f"`{q}` is memoised and returns nodes it builds: all callers share the same node objects (ids)", "nodes are created per use")
            # closures over loop variables that are stored
            for loop, lam, cap, stmt in late_binding_sites(m.tree):
                ctx.viol(f"{prefix}4-late-binding", f"{rel}:{_qual(lam)}", f"closure over loop variable(s) {cap}", site(lam),
                         f"`{' '.join(src(lam).split())[:70]}` is stored by a loop while reading {cap}: every stored closure sees the last value")
            for sub in [x for x in ast.walk(m.tree) if isinstance(x, ast.Subscript) and isinstance(x.slice, ast.Slice)]:
                lo = sub.slice.lower
                if sub.slice.upper is None and isinstance(lo, ast.UnaryOp) and isinstance(lo.op, ast.USub) and not isinstance(lo.operand, ast.Constant):
                    w = src(lo.operand)
                    fs = facts(sub)
                    pos = has_fact(fs, f"{w} > 0") or has_fact(fs, f"{w} >= 1") or has_fact(fs, f"{w} != 0") or has_fact(fs, f"{w} == 0", False) or has_fact(fs, w)
                    ctx.check(pos, f"{prefix}4-negative-slice", f"{rel}:{_qual(sub)}", f"{src(sub)[:50]} with {w} known non-zero", site(sub),
                              f"`{src(sub)}` is the WHOLE sequence for {w} == 0", "guarded by a non-zero test")
            for z in [x for x in ast.walk(m.tree) if isinstance(x, ast.Call) and call_name(x) == "zip" and len(x.args) == 2 and all(src(a).endswith(".children") for a in x.args)]:
                fs = facts(z)
                ok = any(("len(" in f_.text and "children" in f_.text) for f_ in fs)
                par = getattr(z, "_parent", None)
                # zip(... or [], ... or []) style parallel walks that tolerate different lengths on purpose are written with `or []`: only plain attribute pairs are judged
                ctx.check(ok, f"{prefix}4-zip-children", f"{rel}:{_qual(z)}", f"{src(z)} only after a length comparison", site(z),
                          f"`{src(z)}` pairs children up to the shorter list; no length comparison dominates it", "dominated by a length comparison")

    ctx.guarded(f"{prefix}4", x4)

    def x5():
        # a non-empty tuple display in a boolean position is constantly true: `if not (a and b,): continue` never continues.  Reported as a NOTE (dead guard): whether
        # the dead guard matters for a property is decided by that property's own rules.
        n = 0
        for rel in relpaths:
            m = ctx.repo.module(rel, f"{prefix}5")
            for node in ast.walk(m.tree):
                tests = []
                if isinstance(node, (ast.If, ast.While, ast.IfExp, ast.Assert)):
                    tests.append(node.test)
                elif isinstance(node, ast.UnaryOp) and isinstance(node.op, ast.Not):
                    tests.append(node.operand)
                elif isinstance(node, ast.BoolOp):
                    tests.extend(node.values)
                elif isinstance(node, ast.comprehension):
                    tests.extend(node.ifs)
                for t in tests:
                    n += 1
                    if isinstance(t, ast.Tuple) and t.elts:
                        ctx.note(f"{prefix}5-tuple-condition", f"{rel}:{_qual(t)}", " ".join(src(t).split())[:60], site(t),
                                 "a non-empty tuple is always true: the guard built from it is dead (trailing comma?)")
        ctx.inventory["generic_boolean_positions"] = n

    ctx.guarded(f"{prefix}5", x5)
